"""
Behaviour check for refactoring 1 (handle creation/registration extracted into a
helper method of TaskFactory).

Focus: handle naming, the exact contents of all_task_handles() at every point, for
tasks started with start_task / start_task_soon from the owning context, from child
contexts and from other tasks of the same factory.
"""

from __future__ import annotations

import sys
from typing import Any

import pytest
from anyio import Event, fail_after, get_current_task, sleep
from anyio.abc import TaskStatus
from anyio.lowlevel import checkpoint

from asphalt.core import (
    Context,
    TaskFactory,
    TaskHandle,
    add_resource,
    current_context,
    get_resource_nowait,
    start_background_task_factory,
)

if sys.version_info < (3, 11):
    from exceptiongroup import BaseExceptionGroup

pytestmark = pytest.mark.anyio()


def leaves(exc: BaseException) -> list[BaseException]:
    if isinstance(exc, BaseExceptionGroup):
        return [leaf for sub in exc.exceptions for leaf in leaves(sub)]

    return [exc]


async def named_func() -> None:
    pass


class CallableObject:
    async def __call__(self) -> None:
        pass


async def test_handle_names_and_types() -> None:
    seen_task_names: list[Any] = []

    async def taskfunc() -> None:
        seen_task_names.append(get_current_task().name)

    async with Context():
        factory = await start_background_task_factory()
        assert isinstance(factory, TaskFactory)
        h1 = await factory.start_task(taskfunc, "explicit")
        h2 = await factory.start_task(taskfunc)
        h3 = await factory.start_task(taskfunc, "")
        h4 = factory.start_task_soon(taskfunc, "soon-explicit")
        h5 = factory.start_task_soon(taskfunc)
        h6 = factory.start_task_soon(taskfunc, "")
        h7 = factory.start_task_soon(named_func)
        for handle in (h1, h2, h3, h4, h5, h6, h7):
            assert isinstance(handle, TaskHandle)
            await handle.wait_finished()

    local_name = f"{__name__}.test_handle_names_and_types.<locals>.taskfunc"
    assert h1.name == "explicit"
    assert h2.name == local_name
    assert h3.name == local_name
    assert h4.name == "soon-explicit"
    assert h5.name == local_name
    assert h6.name == local_name
    assert h7.name == f"{__name__}.named_func"
    # (the scheduling order of start_task_soon() tasks is up to the event loop)
    assert seen_task_names[:3] == ["explicit", local_name, local_name]
    assert sorted(seen_task_names[3:]) == sorted(
        ["soon-explicit", local_name, local_name]
    )
    assert len({h1, h2, h3, h4, h5, h6, h7}) == 7


async def test_handle_set_tracks_unfinished_tasks_exactly() -> None:
    release = {key: Event() for key in "abcd"}
    handled: list[Exception] = []

    def handler(exc: Exception) -> bool:
        handled.append(exc)
        return True

    def make(key: str, fail: bool = False) -> Any:
        async def taskfunc() -> None:
            await release[key].wait()
            if fail:
                raise RuntimeError(key)

        return taskfunc

    with fail_after(5):
        async with Context():
            factory = await start_background_task_factory(exception_handler=handler)
            assert factory.all_task_handles() == set()

            ha = await factory.start_task(make("a"))
            assert factory.all_task_handles() == {ha}

            # start_task_soon registers the handle before the task has run at all
            hb = factory.start_task_soon(make("b", fail=True))
            assert factory.all_task_handles() == {ha, hb}
            hc = factory.start_task_soon(make("c"))
            hd = await factory.start_task(make("d"))
            assert factory.all_task_handles() == {ha, hb, hc, hd}

            # The returned set is a snapshot; mutating it changes nothing
            snapshot = factory.all_task_handles()
            snapshot.clear()
            assert factory.all_task_handles() == {ha, hb, hc, hd}
            assert factory.all_task_handles() is not factory.all_task_handles()

            # Finishes by returning
            release["a"].set()
            await ha.wait_finished()
            assert factory.all_task_handles() == {hb, hc, hd}

            # Finishes by raising (handled)
            release["b"].set()
            await hb.wait_finished()
            await checkpoint()
            assert factory.all_task_handles() == {hc, hd}
            assert [str(exc) for exc in handled] == ["b"]

            # Finishes by being cancelled through the handle; the other is untouched
            hc.cancel()
            await hc.wait_finished()
            await checkpoint()
            assert factory.all_task_handles() == {hd}

            await sleep(0.05)
            assert factory.all_task_handles() == {hd}
            release["d"].set()
            await hd.wait_finished()
            await checkpoint()
            assert factory.all_task_handles() == set()

    assert len(handled) == 1


async def test_spawn_from_child_context_and_from_other_task() -> None:
    seen: dict[str, Any] = {}
    inner_handles: list[TaskHandle] = []
    gate = Event()

    async def grandchild() -> None:
        seen["grandchild_str"] = get_resource_nowait(str)
        seen["grandchild_int"] = get_resource_nowait(int, optional=True)
        seen["grandchild_float"] = get_resource_nowait(float, optional=True)
        seen["grandchild_ctx"] = current_context()
        await gate.wait()

    async def child() -> None:
        seen["child_str"] = get_resource_nowait(str)
        seen["child_int"] = get_resource_nowait(int, optional=True)
        seen["child_ctx"] = current_context()
        # This resource is private to this task's own context
        add_resource(1.5)
        inner_handles.append(factory.start_task_soon(grandchild, "grandchild-soon"))
        inner_handles.append(await factory.start_task(grandchild, "grandchild"))

    with fail_after(5):
        async with Context() as root:
            add_resource("factory-visible")
            factory = await start_background_task_factory()
            async with Context() as sub:
                # Only visible in the spawner's context, never in the tasks
                add_resource(42)
                handle = await factory.start_task(child, "child")
                await handle.wait_finished()
                assert len(inner_handles) == 2
                assert factory.all_task_handles() == set(inner_handles)
                gate.set()
                for inner in inner_handles:
                    await inner.wait_finished()

                await checkpoint()
                assert factory.all_task_handles() == set()

            assert get_resource_nowait(float, optional=True) is None

    assert seen["child_str"] == "factory-visible"
    assert seen["child_int"] is None
    assert seen["grandchild_str"] == "factory-visible"
    assert seen["grandchild_int"] is None
    assert seen["grandchild_float"] is None
    assert seen["child_ctx"] is not seen["grandchild_ctx"]
    for key in ("child_ctx", "grandchild_ctx"):
        assert seen[key] is not root
        assert seen[key] is not sub
        assert seen[key].parent is not sub
        assert seen[key].parent is not root
        assert seen[key].parent.parent is root
    assert seen["child_ctx"].parent is seen["grandchild_ctx"].parent
    assert [h.name for h in inner_handles] == ["grandchild-soon", "grandchild"]


async def test_start_value_and_handle_registered_while_starting() -> None:
    proceed = Event()
    observed: list[set[TaskHandle]] = []

    async def slow_starter(task_status: TaskStatus[str]) -> None:
        # The handle of a task still in its startup phase is already tracked
        observed.append(factory.all_task_handles())
        await proceed.wait()
        task_status.started("value")

    async def kick() -> None:
        await sleep(0.05)
        observed.append(factory.all_task_handles())
        proceed.set()

    with fail_after(5):
        async with Context():
            factory = await start_background_task_factory()
            kicker = factory.start_task_soon(kick, "kicker")
            handle = await factory.start_task(slow_starter, "slow")
            assert handle.start_value == "value"
            await handle.wait_finished()
            await kicker.wait_finished()
            await checkpoint()
            assert factory.all_task_handles() == set()

    assert len(observed) == 2
    assert {h.name for h in observed[0]} == {"kicker", "slow"}
    assert {h.name for h in observed[1]} == {"kicker", "slow"}
    assert handle in observed[0] and kicker in observed[0]


async def test_unhandled_error_propagates_from_root_and_set_is_emptied() -> None:
    calls: list[Exception] = []

    def handler(exc: Exception) -> bool:
        calls.append(exc)
        return False

    async def boom() -> None:
        raise LookupError("boom")

    factory: TaskFactory
    with pytest.raises(BaseExceptionGroup) as excinfo:
        async with Context():
            factory = await start_background_task_factory(exception_handler=handler)
            handle = factory.start_task_soon(boom, "boom")
            await handle.wait_finished()
            await sleep(1)

    found = leaves(excinfo.value)
    assert len(found) == 1
    assert type(found[0]) is LookupError
    assert calls == [found[0]]
    assert factory.all_task_handles() == set()


async def test_unnameable_callable_registers_nothing() -> None:
    # callable_name() cannot name this object; the error comes straight out of
    # start_task_soon()/start_task() and no handle is left behind
    async with Context():
        factory = await start_background_task_factory()
        with pytest.raises(AttributeError, match="__qualname__"):
            factory.start_task_soon(CallableObject())

        assert factory.all_task_handles() == set()
        with pytest.raises(AttributeError, match="__qualname__"):
            await factory.start_task(CallableObject())

        assert factory.all_task_handles() == set()

        # With an explicit name, it works
        handle = factory.start_task_soon(CallableObject(), "named")
        assert factory.all_task_handles() == {handle}
        await handle.wait_finished()

    assert handle.name == "named"
