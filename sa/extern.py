"""External-effects table (DESIGN.md Appendix A) as data: one reason per row.

Anything not listed is treated conservatively: may raise, awaiting it is a checkpoint.
Synchronous calls are never checkpoints (a task can only be suspended at ``await``,
``async with`` and ``async for``).
"""

# awaited externals / async context managers whose *enter* does not yield to the loop
ASYNC_ENTER_NO_CHECKPOINT = {
    "contextlib.AsyncExitStack": "contextlib: __aenter__ returns self without awaiting anything",
    "anyio.create_task_group": "anyio: entering a task group only enters its cancel scope (no await) on both backends",
}

# context managers that may swallow an exception raised in their body
SWALLOWING_CMS = {
    "anyio.CancelScope": "swallows the cancellation it caused itself",
    "anyio.move_on_after": "cancel scope",
    "anyio.fail_after": "cancel scope (turns cancellation into TimeoutError)",
    "contextlib.suppress": "by definition",
}

# synchronous externals that do not raise for reasons other than argument type errors
NON_RAISING = {
    # builtins / typing / inspect predicates
    "builtins.isinstance", "builtins.issubclass", "builtins.callable", "builtins.len", "builtins.id",
    "builtins.type", "builtins.tuple", "builtins.list", "builtins.dict", "builtins.set", "builtins.all",
    "builtins.any", "builtins.hasattr", "builtins.getattr", "builtins.repr", "builtins.str", "builtins.bool",
    "builtins.enumerate", "builtins.iter", "builtins.reversed", "builtins.sorted", "builtins.frozenset",
    "builtins.super", "builtins.print", "builtins.format", "builtins.zip", "builtins.range",
    "inspect.isclass", "inspect.iscoroutine", "inspect.isawaitable", "inspect.iscoroutinefunction",
    "inspect.isasyncgenfunction", "typing.get_origin", "typing.get_args", "typing.cast",
    # logging
    "logger.debug", "logger.info", "logger.warning", "logger.error", "logger.exception", "logger.critical",
    "logger.log", "logger.isEnabledFor", "logger.getEffectiveLevel", "logging.getLogger",
    # registration only
    "contextlib.AsyncExitStack", "contextlib.AsyncExitStack.callback", "contextlib.AsyncExitStack.push_async_callback",
    "contextlib.AsyncExitStack.push_async_exit", "contextlib.AsyncExitStack.pop_all",
    "contextlib.ExitStack", "contextlib.ExitStack.callback",
    "anyio.Event", "anyio.Event.set", "anyio.CancelScope", "anyio.CancelScope.cancel", "anyio.create_task_group",
    "anyio.move_on_after",
    "anyio.abc.TaskGroup.start_soon", "anyio.create_memory_object_stream",
    "weakref.ref", "weakref.WeakKeyDictionary", "time.time",
    "warnings.warn",  # raises only under a -W error filter: recorded as an assumption
    "re.Pattern.fullmatch", "re.compile",
    "contextvars.ContextVar.get", "contextvars.ContextVar.set",
    "functools.partial", "functools.wraps",
}

# method names on builtin containers / strings that do not raise (receiver type unknown)
NON_RAISING_METHODS = {
    "get", "items", "keys", "values", "copy", "setdefault", "append", "add", "discard", "update",
    "extend", "startswith", "endswith", "format", "join", "split", "replace", "rstrip", "strip", "lstrip",
    "upper", "lower", "capitalize", "partition", "rpartition", "clear", "debug", "info", "warning",
    "error", "exception", "critical", "isEnabledFor", "getEffectiveLevel", "fullmatch", "match", "isidentifier", "set", "cancel", "insert", "count",
}

MUTATING_METHODS = {
    "append", "extend", "insert", "remove", "pop", "clear", "update", "setdefault", "add", "discard",
    "popitem", "sort", "reverse", "__setitem__", "__delitem__", "appendleft", "popleft",
}

# context managers whose __exit__ adds no exception of its own (it may still let one from the
# body through): a cancel scope absorbs its own cancellation, move_on_after likewise
QUIET_EXIT_CMS = {"anyio.CancelScope", "anyio.move_on_after"}

SPAWN_METHODS = {"start_soon", "start", "create_task", "gather", "ensure_future", "spawn"}

# exception class hierarchy used for handler matching (builtins + the package's own)
EXC_PARENTS = {
    "BaseException": None,
    "Exception": "BaseException",
    "BaseExceptionGroup": "BaseException",
    "ExceptionGroup": "Exception",
    "KeyboardInterrupt": "BaseException",
    "SystemExit": "BaseException",
    "GeneratorExit": "BaseException",
    "CancelledError": "BaseException",
    "Cancelled": "BaseException",
    "LookupError": "Exception",
    "KeyError": "LookupError",
    "IndexError": "LookupError",
    "TypeError": "Exception",
    "ValueError": "Exception",
    "RuntimeError": "Exception",
    "AttributeError": "Exception",
    "ImportError": "Exception",
    "StopAsyncIteration": "Exception",
    "StopIteration": "Exception",
    "TimeoutError": "Exception",
    "OSError": "Exception",
    "AssertionError": "Exception",
    "WouldBlock": "Exception",
    "BrokenResourceError": "Exception",
    "ClosedResourceError": "Exception",
    "EndOfStream": "Exception",
    "ClickException": "Exception",
}
