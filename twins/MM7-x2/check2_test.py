"""
Behaviour checks for refactoring 2 (private renames + method reordering in
``_concurrent.py`` / ``_context.py``).

Exercises, through the public API only: ``TaskHandle`` cancellation and completion
signalling (for both factory tasks and service tasks), the task factory's host task
life cycle, and the dataclass-generated dunder methods that depend on field
declarations.
"""

from __future__ import annotations

import logging
import sys
from typing import Any, NoReturn

import pytest
from anyio import (
    Event,
    create_task_group,
    fail_after,
    get_cancelled_exc_class,
    sleep,
    wait_all_tasks_blocked,
)
from anyio.abc import TaskStatus
from pytest import LogCaptureFixture

from asphalt.core import (
    Context,
    TaskFactory,
    TaskHandle,
    add_resource,
    current_context,
    get_resource_nowait,
    start_background_task_factory,
    start_service_task,
)

if sys.version_info < (3, 11):
    from exceptiongroup import BaseExceptionGroup

pytestmark = [pytest.mark.anyio(), pytest.mark.timeout(30)]


@pytest.fixture
def anyio_backend() -> str:
    return "asyncio"


def leaves(exc: BaseException) -> list[BaseException]:
    if isinstance(exc, BaseExceptionGroup):
        return [leaf for sub in exc.exceptions for leaf in leaves(sub)]

    return [exc]


def core_messages(caplog: LogCaptureFixture) -> list[str]:
    return [rec.getMessage() for rec in caplog.records if rec.name == "asphalt.core"]


class TestTaskHandle:
    async def test_dunders(self) -> None:
        handle1 = TaskHandle("same")
        handle2 = TaskHandle(name="same")
        assert repr(handle1) == "TaskHandle(name='same')"
        assert handle1 != handle2
        assert handle1 == handle1
        assert len({handle1, handle2}) == 2
        assert not hasattr(handle1, "start_value")
        with pytest.raises(TypeError):
            TaskHandle()  # type: ignore[call-arg]

        with pytest.raises(TypeError):
            TaskHandle("a", "b")  # type: ignore[call-arg]

    async def test_standalone_handle(self) -> None:
        """A handle not attached to any task: cancel() is harmless, wait blocks."""
        handle = TaskHandle("standalone")
        handle.cancel()
        handle.cancel()
        with pytest.raises(TimeoutError):
            with fail_after(0.05):
                await handle.wait_finished()

    async def test_cancel_running_task(self, caplog: LogCaptureFixture) -> None:
        caplog.set_level(logging.DEBUG, "asphalt.core")
        trace: list[str] = []

        async def taskfunc() -> None:
            trace.append("started")
            try:
                await sleep(10)
            except get_cancelled_exc_class():
                trace.append("cancelled")
                raise
            finally:
                trace.append("cleanup")

            trace.append("not reached")

        async with Context():
            factory = await start_background_task_factory()
            handle = await factory.start_task(taskfunc, "victim")
            event = Event()
            other = await factory.start_task(lambda: event.wait(), "bystander")
            await wait_all_tasks_blocked()
            handle.cancel()
            with fail_after(3):
                await handle.wait_finished()

            # Waiting again returns immediately, cancelling again is a no-op
            handle.cancel()
            await handle.wait_finished()
            assert factory.all_task_handles() == {other}
            event.set()
            with fail_after(3):
                await other.wait_finished()

        assert trace == ["started", "cancelled", "cleanup"]
        messages = core_messages(caplog)
        # A cancelled task is neither a crash nor (the scope swallows the
        # cancellation) anything but a normal finish
        assert "Background task (victim) starting" in messages
        assert "Background task (victim) finished successfully" in messages
        assert "Background task (victim) crashed" not in messages
        assert "Background task (bystander) finished successfully" in messages

    async def test_cancel_before_task_runs(self) -> None:
        trace: list[str] = []

        async def taskfunc() -> None:
            trace.append("entered")
            await sleep(0)
            trace.append("not reached")

        async with Context():
            factory = await start_background_task_factory()
            handle = factory.start_task_soon(taskfunc, "early")
            handle.cancel()
            with fail_after(3):
                await handle.wait_finished()

            assert factory.all_task_handles() == set()

        assert "not reached" not in trace

    async def test_multiple_waiters(self) -> None:
        woken: list[int] = []
        event = Event()

        async def waiter(index: int, handle: TaskHandle) -> None:
            await handle.wait_finished()
            woken.append(index)

        async with Context():
            factory = await start_background_task_factory()
            handle = await factory.start_task(event.wait, "awaited")
            async with create_task_group() as tg:
                for index in range(3):
                    tg.start_soon(waiter, index, handle)

                await wait_all_tasks_blocked()
                assert woken == []
                event.set()

        assert sorted(woken) == [0, 1, 2]

    async def test_finished_set_on_crash(self) -> None:
        async def taskfunc() -> NoReturn:
            raise LookupError("crash")

        with pytest.raises(BaseExceptionGroup) as excinfo:
            async with Context():
                factory = await start_background_task_factory()
                handle = factory.start_task_soon(taskfunc)
                with fail_after(3):
                    await handle.wait_finished()

                assert factory.all_task_handles() == set()

        assert [type(exc) for exc in leaves(excinfo.value)] == [LookupError]

    async def test_finished_set_on_host_cancellation(self) -> None:
        """Cancelling everything from outside still signals the handles."""
        handles: list[TaskHandle] = []

        async def main(*, task_status: TaskStatus[None]) -> None:
            async with Context():
                factory = await start_background_task_factory()
                handles.append(await factory.start_task(lambda: sleep(10), "bg"))
                task_status.started()
                await sleep(10)

        async with create_task_group() as tg:
            await tg.start(main)
            tg.cancel_scope.cancel()

        with fail_after(1):
            await handles[0].wait_finished()


class TestServiceTaskHandle:
    async def test_start_value_and_cancel(self, caplog: LogCaptureFixture) -> None:
        caplog.set_level(logging.DEBUG, "asphalt.core")
        trace: list[str] = []

        async def service(*, task_status: TaskStatus[str]) -> None:
            task_status.started("ready")
            try:
                await sleep(10)
            finally:
                trace.append("service stopped")

        async with Context():
            assert await start_service_task(service, "svc") == "ready"
            trace.append("body done")

        assert trace == ["body done", "service stopped"]
        messages = core_messages(caplog)
        assert messages == [
            "Background task (Service task: svc) starting",
            "Cancelling service task 'svc'",
            "Waiting for service task 'svc' to finish",
            "Background task (Service task: svc) finished successfully",
            "Service task 'svc' finished",
        ]

    async def test_teardown_callback(self) -> None:
        event = Event()
        trace: list[str] = []

        async def service() -> None:
            await event.wait()
            trace.append("service finished")

        async with Context():
            assert await start_service_task(
                service, "svc", teardown_action=event.set
            ) is None
            trace.append("body done")

        assert trace == ["body done", "service finished"]

    async def test_teardown_callback_fails(self, caplog: LogCaptureFixture) -> None:
        caplog.set_level(logging.DEBUG, "asphalt.core")
        trace: list[str] = []

        def teardown() -> NoReturn:
            raise RuntimeError("teardown failed")

        async def service() -> None:
            try:
                await sleep(10)
            finally:
                trace.append("service stopped")

        with fail_after(3):
            async with Context():
                await start_service_task(service, "svc", teardown_action=teardown)

        assert trace == ["service stopped"]
        assert any(
            msg.startswith("Error calling teardown callback")
            for msg in core_messages(caplog)
        )

    async def test_service_crash(self, caplog: LogCaptureFixture) -> None:
        caplog.set_level(logging.DEBUG, "asphalt.core")
        event = Event()

        async def service() -> NoReturn:
            await event.wait()
            raise OSError("service crashed")

        with pytest.raises((OSError, BaseExceptionGroup)) as excinfo:
            async with Context():
                await start_service_task(service, "svc", teardown_action=None)
                event.set()
                await sleep(0.05)

        errors = leaves(excinfo.value)
        assert [type(exc) for exc in errors] == [OSError]
        assert "Background task (Service task: svc) crashed" in core_messages(caplog)


class TestFactoryLifecycle:
    async def test_factory_dunders(self) -> None:
        def handler(exc: Exception) -> bool:
            return True

        factory = TaskFactory(handler)
        assert factory.exception_handler is handler
        assert TaskFactory().exception_handler is None
        assert TaskFactory(exception_handler=handler).exception_handler is handler
        assert factory.all_task_handles() == set()
        with pytest.raises(TypeError):
            hash(factory)

        with pytest.raises(TypeError):
            TaskFactory(handler, None)  # type: ignore[call-arg]

        # The generated __repr__/__eq__ trip over the unset init=False fields
        with pytest.raises(AttributeError, match="_task_group"):
            repr(factory)

        with pytest.raises(AttributeError, match="_task_group"):
            factory == TaskFactory(handler)

    async def test_running_factory_repr_and_eq(self) -> None:
        async with Context():
            factory1 = await start_background_task_factory()
            factory2 = await start_background_task_factory()
            text = repr(factory1)
            assert text.startswith(
                "TaskFactory(exception_handler=None, _finished_event=<"
            )
            for fragment in (", _task_group=<", ", _tasks=set(), _ctx=<"):
                assert fragment in text

            assert factory1 == factory1
            assert factory1 != factory2

    async def test_host_task_name_and_logging(self, caplog: LogCaptureFixture) -> None:
        caplog.set_level(logging.DEBUG, "asphalt.core")
        async with Context():
            factory = await start_background_task_factory()

        name = f"Background task factory ({id(factory):x})"
        event_cls = type(Event())
        setter = f"{event_cls.__module__}.{event_cls.__qualname__}.set"
        assert core_messages(caplog) == [
            f"Background task (Service task: {name}) starting",
            f"Calling teardown callback ({setter}) for service task {name!r}",
            f"Waiting for service task {name!r} to finish",
            f"Background task (Service task: {name}) finished successfully",
            f"Service task {name!r} finished",
        ]

    async def test_teardown_waits_for_tasks(self) -> None:
        trace: list[str] = []
        release = Event()

        async def slow() -> None:
            await release.wait()
            await sleep(0.05)
            trace.append("slow task done")

        async def releaser() -> None:
            await sleep(0.05)
            trace.append("releasing")
            release.set()

        async with create_task_group() as tg:
            async with Context():
                factory = await start_background_task_factory()
                handle = await factory.start_task(slow, "slow")
                tg.start_soon(releaser)
                trace.append("body done")

            trace.append("context exited")
            assert factory.all_task_handles() == set()
            await handle.wait_finished()

        assert trace == [
            "body done",
            "releasing",
            "slow task done",
            "context exited",
        ]

    async def test_task_context_is_child_of_factory_context(self) -> None:
        seen: dict[str, Any] = {}
        contexts: list[Context] = []

        async def taskfunc() -> None:
            contexts.append(current_context())
            seen["str"] = get_resource_nowait(str)
            seen["int"] = get_resource_nowait(int, optional=True)
            add_resource(1.5)
            seen["float"] = get_resource_nowait(float)

        async with Context() as outer:
            add_resource("outer")
            async with Context() as inner:
                factory = await start_background_task_factory()
                add_resource(7)
                handle = await factory.start_task(taskfunc)
                await handle.wait_finished()
                handle = factory.start_task_soon(taskfunc)
                await handle.wait_finished()
                # Resources added by the task stay in the task's own context
                assert get_resource_nowait(float, optional=True) is None

        assert seen == {"str": "outer", "int": None, "float": 1.5}
        assert len(contexts) == 2
        assert contexts[0] is not contexts[1]
        assert all(ctx is not inner and ctx is not outer for ctx in contexts)

    async def test_start_after_teardown_started(self) -> None:
        """Starting tasks from a task while the factory is being shut down."""
        trace: list[str] = []
        event = Event()

        async def late() -> None:
            trace.append("late task ran")

        async def set_later() -> None:
            await sleep(0.05)
            trace.append("teardown in progress")
            event.set()

        async def taskfunc() -> None:
            await event.wait()
            handle = factory.start_task_soon(late, "late")
            trace.append(f"spawned {handle.name}")

        async with create_task_group() as tg:
            async with Context():
                factory = await start_background_task_factory()
                await factory.start_task(taskfunc)
                tg.start_soon(set_later)

        assert trace == ["teardown in progress", "spawned late", "late task ran"]
        assert factory.all_task_handles() == set()

    async def test_two_factories_are_independent(self) -> None:
        handled: list[str] = []

        async def crash() -> NoReturn:
            raise ValueError("one")

        async with Context():
            factory1 = await start_background_task_factory(
                exception_handler=lambda exc: handled.append(str(exc)) or True
            )
            factory2 = await start_background_task_factory()
            event = Event()
            handle2 = await factory2.start_task(event.wait, "two")
            handle1 = await factory1.start_task(crash, "one")
            with fail_after(3):
                await handle1.wait_finished()

            assert factory1.all_task_handles() == set()
            assert factory2.all_task_handles() == {handle2}
            event.set()

        assert handled == ["one"]
