"""
Behaviour check for refactoring 3 (comprehensions <-> explicit loops: the inheritance
of resources in ``Context.__init__``, the validation of the ``types`` argument of
``add_resource`` and the collection loop of ``get_resources``).

Exercises property C03 through the public API only.
"""

from __future__ import annotations

from itertools import permutations
from typing import Any, Callable

import pytest

from asphalt.core import (
    Context,
    ResourceConflict,
    ResourceEvent,
    ResourceNotFound,
    add_resource,
    add_resource_factory,
    get_resource,
    get_resource_nowait,
    get_resources,
)

pytestmark = pytest.mark.anyio()


class A:
    pass


class B(A):
    pass


class C:
    pass


class EventLog:
    def __init__(self, ctx: Context, stream: Any) -> None:
        self.ctx = ctx
        self.stream = stream
        self.counter = 0

    async def drain(self) -> list[tuple[tuple[Any, ...], str, bool]]:
        self.counter += 1
        marker = f"sentinel_{self.counter}"
        self.ctx.add_resource(object(), marker)
        events = []
        async for event in self.stream:
            assert isinstance(event, ResourceEvent)
            if event.resource_name == marker:
                break

            events.append((event.resource_types, event.resource_name, event.is_factory))

        return events


async def test_child_inherits_static_but_not_generated() -> None:
    counter = []

    def factory() -> C:
        counter.append(1)
        return C()

    async with Context() as parent:
        a, b = A(), B()
        parent.add_resource(a)
        parent.add_resource(b, "named", types=[A, B])
        parent.add_resource_factory(factory)
        parent_c = parent.get_resource_nowait(C)
        assert parent.get_resources(A) == {"default": a, "named": b}
        assert parent.get_resources(C) == {"default": parent_c}

        async with Context() as child:
            # static resources are visible, the generated one is not copied
            assert child.get_resources(A) == {"default": a, "named": b}
            assert list(child.get_resources(A)) == ["default", "named"]
            assert child.get_resources(B) == {"named": b}
            assert child.get_resources(C) == {}
            assert child.get_resource_nowait(A) is a
            assert await child.get_resource(B, "named") is b

            # inherited pairs are taken in the child as well, failing adds are atomic
            async with child.resource_added.stream_events() as stream:
                log = EventLog(child, stream)
                with pytest.raises(ResourceConflict):
                    child.add_resource(A())
                with pytest.raises(ResourceConflict):
                    child.add_resource(B(), "named", types=[C, B])
                with pytest.raises(ResourceConflict):
                    child.add_resource_factory(factory, types=[A, C])
                assert await log.drain() == []
                assert child.get_resources(C) == {}

            # the child gets its own generated resource from the inherited factory
            child_c = await child.get_resource(C)
            assert child_c is not parent_c
            assert child.get_resource_nowait(C) is child_c
            assert parent.get_resource_nowait(C) is parent_c
            assert len(counter) == 2

            # additions to the child are invisible in the parent and in siblings
            child.add_resource(C(), "child_only")
            child.add_resource_factory(lambda: B(), "child_factory", types=[B])
            assert parent.get_resource_nowait(C, "child_only", optional=True) is None
            assert parent.get_resource_nowait(B, "child_factory", optional=True) is None
            with pytest.raises(ResourceNotFound):
                await parent.get_resource(B, "child_factory")

            # later additions to the parent are not seen by the existing child
            parent.add_resource(C(), "late")
            assert child.get_resource_nowait(C, "late", optional=True) is None

            async with Context() as grandchild:
                assert grandchild.parent is child
                assert set(grandchild.get_resources(C)) == {"child_only"}
                assert grandchild.get_resource_nowait(A) is a
                gc_c = grandchild.get_resource_nowait(C)
                assert gc_c is not child_c and gc_c is not parent_c
                assert isinstance(grandchild.get_resource_nowait(B, "child_factory"), B)

        async with Context() as sibling:
            assert set(sibling.get_resources(C)) == {"late"}
            assert sibling.get_resource_nowait(C, "child_only", optional=True) is None
            sibling_c = sibling.get_resource_nowait(C)
            assert sibling_c is not parent_c
            assert await sibling.get_resource(C) is sibling_c

        assert parent.get_resources(A) == {"default": a, "named": b}
        assert len(counter) == 4


async def test_child_of_context_with_only_generated_resources() -> None:
    async with Context() as parent:
        parent.add_resource_factory(lambda: A(), types=[A, C])
        generated = parent.get_resource_nowait(A)
        assert parent.get_resources(C) == {"default": generated}
        async with Context() as child:
            assert child.get_resources(A) == {}
            assert child.get_resources(C) == {}
            # the pair is free for a static resource in the child
            static = A()
            child.add_resource(static)
            assert child.get_resource_nowait(A) is static
            # (C, default) is then generated on demand but does not replace (A, default)
            child_c = child.get_resource_nowait(C)
            assert child_c is not static and child_c is not generated
            assert child.get_resource_nowait(A) is static
            assert await child.get_resource(C) is child_c

    async with Context() as empty_parent:
        async with Context() as child:
            assert child.get_resources(object) == {}
            child.add_resource(1)
            assert empty_parent.get_resources(int) == {}


async def test_get_resources_collection() -> None:
    async with Context() as ctx:
        assert ctx.get_resources(A) == {}
        first, second, third = B(), B(), A()
        ctx.add_resource(first, "z", types=[A, B])
        ctx.add_resource(second, "a", types=[B])
        ctx.add_resource(third, "m")
        ctx.add_resource_factory(lambda: B(), "gen", types=[B, A])
        result = ctx.get_resources(A)
        assert result == {"z": first, "m": third}
        assert list(result) == ["z", "m"]
        assert list(ctx.get_resources(B)) == ["z", "a"]

        # get_resources does not trigger factories
        assert "gen" not in ctx.get_resources(B)
        generated = ctx.get_resource_nowait(A, "gen")
        assert list(ctx.get_resources(B)) == ["z", "a", "gen"]
        assert ctx.get_resources(A) == {"z": first, "m": third, "gen": generated}
        assert ctx.get_resources(C) == {}

        # the returned mapping is a snapshot, mutating it does not affect the context
        result = ctx.get_resources(A)
        assert isinstance(result, dict)
        result.clear()  # type: ignore[attr-defined]
        assert ctx.get_resources(A) == {"z": first, "m": third, "gen": generated}

        # via the context variable based API
        assert get_resources(B) == ctx.get_resources(B)


@pytest.mark.parametrize(
    "types",
    [
        pytest.param(order, id="-".join(getattr(x, "__name__", repr(x)) for x in order))
        for order in permutations([A, C, 7, Callable[[], int]])
    ][::3]
    + [
        pytest.param([None], id="none-only"),
        pytest.param([A, None], id="none-last"),
        pytest.param(["A"], id="string-name"),
        pytest.param([A, B, C, object()], id="instance-last"),
        pytest.param([(A, B)], id="nested-tuple"),
    ],
)
async def test_invalid_member_of_types_changes_nothing(types: Any) -> None:
    teardown_calls = []
    async with Context() as ctx:
        ctx.add_resource(C(), "res", types=[C])
        existing = ctx.get_resource_nowait(C, "res")
        async with ctx.resource_added.stream_events() as stream:
            log = EventLog(ctx, stream)
            with pytest.raises(TypeError) as exc:
                # (C, "res") is also in conflict, but the type check comes first
                ctx.add_resource(
                    B(),
                    "res",
                    types,
                    teardown_callback=lambda: teardown_calls.append(1),
                )
            assert str(exc.value) == "types must be a type or sequence of types"
            assert await log.drain() == []
            assert ctx.get_resources(A) == {}
            assert ctx.get_resources(B) == {}
            assert ctx.get_resources(C) == {"res": existing}
            assert ctx.get_resource_nowait(A, "res", optional=True) is None
            assert ctx.get_resource_nowait(Callable[[], int], "res", optional=True) is None  # type: ignore[arg-type]

    assert teardown_calls == []


@pytest.mark.parametrize(
    "types",
    [
        pytest.param([A, C, Callable[[], int]], id="classes-and-alias"),
        pytest.param((list[int], dict[str, A]), id="pep585-aliases"),
        pytest.param([B], id="single"),
        pytest.param([A, A], id="duplicate"),
    ],
)
async def test_valid_members_of_types(types: Any) -> None:
    async with Context() as ctx:
        async with ctx.resource_added.stream_events() as stream:
            log = EventLog(ctx, stream)
            value = B()
            ctx.add_resource(value, "res", types)
            assert await log.drain() == [(tuple(types), "res", False)]
            for type_ in types:
                assert ctx.get_resource_nowait(type_, "res") is value
                assert ctx.get_resources(type_) == {"res": value}
                with pytest.raises(ResourceConflict):
                    ctx.add_resource(B(), "res", types=[int, type_])

            assert ctx.get_resources(int) == {}
            assert await log.drain() == []


async def test_module_level_api_same_rules() -> None:
    async with Context() as ctx:
        add_resource(A(), types=[A, C])
        value = get_resource_nowait(C)
        assert await get_resource(A) is value
        with pytest.raises(ResourceConflict):
            add_resource(C())
        with pytest.raises(TypeError):
            add_resource(C(), "x", types=[C, 1])  # type: ignore[list-item]
        assert get_resources(C) == {"default": value}
        add_resource_factory(lambda: B(), types=[B])
        with pytest.raises(ResourceConflict):
            add_resource_factory(lambda: B(), types=[C, B])
        generated = get_resource_nowait(B)
        async with Context():
            assert get_resource_nowait(C) is value
            assert get_resources(B) == {}
            assert get_resource_nowait(B) is not generated
            assert get_resource_nowait(C, "x", optional=True) is None

        assert ctx.get_resource_nowait(B) is generated
