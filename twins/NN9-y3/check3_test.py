"""
Behaviour checks for refactoring 3 (``_start_component`` split into phases).

Only the public API is used.
"""

from __future__ import annotations

import logging
import re
import sys
from typing import Any, NoReturn

import pytest
from anyio import Event, fail_after, get_current_task, sleep, sleep_forever
from pytest import LogCaptureFixture

from asphalt.core import (
    Component,
    ComponentStartError,
    Context,
    ResourceNotFound,
    add_resource,
    add_resource_factory,
    add_teardown_callback,
    current_context,
    get_resource,
    get_resource_nowait,
    start_component,
)

if sys.version_info < (3, 11):
    from exceptiongroup import BaseExceptionGroup, ExceptionGroup

pytestmark = pytest.mark.anyio()


@pytest.fixture(params=["asyncio", "trio"])
def anyio_backend(request: Any) -> str:
    return request.param


def leaf_exceptions(exc: BaseException) -> list[BaseException]:
    if isinstance(exc, BaseExceptionGroup):
        leaves: list[BaseException] = []
        for sub in exc.exceptions:
            leaves.extend(leaf_exceptions(sub))

        return leaves

    return [exc]


class CustomBaseException(BaseException):
    pass


async def test_full_lifecycle_log(caplog: LogCaptureFixture) -> None:
    class Child(Component):
        async def prepare(self) -> None:
            add_resource(1, "prepared_by_child")

        async def start(self) -> None:
            add_resource(get_resource_nowait(str) + " seen by child", "child_result")

    class Passive(Component):
        """Implements neither prepare() nor start()."""

    class Root(Component):
        def __init__(self) -> None:
            self.add_component("child", Child)

        async def prepare(self) -> None:
            add_resource("root value")

        async def start(self) -> None:
            assert get_resource_nowait(str, "child_result") == "root value seen by child"
            add_resource(2.5, "started")

    caplog.set_level(logging.DEBUG, "asphalt.core")
    async with Context():
        root = await start_component(Root, {"components": {"passive": {"type": Passive}}})
        assert isinstance(root, Root)
        assert get_resource_nowait(int, "prepared_by_child") == 1
        assert get_resource_nowait(float, "started") == 2.5

    prefix = f"{__name__}.test_full_lifecycle_log.<locals>"
    messages = [rec.getMessage() for rec in caplog.records]
    assert messages[:6] == [
        f"Creating the root component ({prefix}.Root)",
        f"Created the root component ({prefix}.Root)",
        f"Creating component 'child' ({prefix}.Child)",
        f"Created component 'child' ({prefix}.Child)",
        f"Creating component 'passive' ({prefix}.Passive)",
        f"Created component 'passive' ({prefix}.Passive)",
    ]
    assert messages[6:] == [
        "Calling prepare() of the root component",
        "The root component added a resource (type=str, name='default')",
        "Returned from prepare() of the root component",
        "Starting the child components of the root component",
        "Calling prepare() of component 'child'",
        "Component 'child' added a resource (type=int, name='prepared_by_child')",
        "Returned from prepare() of component 'child'",
        "Calling start() of component 'child'",
        "Component 'child' added a resource (type=str, name='child_result')",
        "Returned from start() of component 'child'",
        "Calling start() of the root component",
        "The root component added a resource (type=float, name='started')",
        "Returned from start() of the root component",
    ]


async def test_no_hook_logs_for_passive_leaf(caplog: LogCaptureFixture) -> None:
    class Passive(Component):
        pass

    caplog.set_level(logging.DEBUG, "asphalt.core")
    async with Context():
        await start_component(Passive, timeout=None)

    messages = [rec.getMessage() for rec in caplog.records]
    assert len(messages) == 2
    assert messages[0].startswith("Creating the root component")
    assert messages[1].startswith("Created the root component")


async def test_default_resource_name_depends_on_phase() -> None:
    class Child(Component):
        async def prepare(self) -> None:
            # In prepare(), the default name is not replaced
            add_resource("from prepare")

        async def start(self) -> None:
            # In start(), the default name is replaced by the alias suffix
            add_resource(b"from start")
            add_resource_factory(lambda: 7, types=[int])
            add_resource(1.5, "explicit")

    class Root(Component):
        def __init__(self) -> None:
            self.add_component("child/special", Child)

        async def start(self) -> None:
            add_resource(["root"], types=[list])

    async with Context():
        await start_component(Root)
        assert get_resource_nowait(str) == "from prepare"
        assert get_resource_nowait(bytes, "special") == b"from start"
        assert get_resource_nowait(int, "special") == 7
        assert get_resource_nowait(float, "explicit") == 1.5
        assert get_resource_nowait(list) == ["root"]
        with pytest.raises(ResourceNotFound):
            get_resource_nowait(bytes)


async def test_add_component_rejected_once_started() -> None:
    class Child(Component):
        pass

    class Root(Component):
        async def prepare(self) -> None:
            with pytest.raises(RuntimeError, match="child components cannot be added"):
                self.add_component("late", Child)

            checked.append("prepare")

        async def start(self) -> None:
            with pytest.raises(RuntimeError, match="child components cannot be added"):
                self.add_component("later", Child)

            checked.append("start")

    checked: list[str] = []
    async with Context():
        root = await start_component(Root)
        with pytest.raises(RuntimeError, match="child components cannot be added"):
            root.add_component("latest", Child)

    assert checked == ["prepare", "start"]


async def test_hooks_run_in_component_context_of_callers_task() -> None:
    class Child(Component):
        async def start(self) -> None:
            seen["child_task"] = get_current_task().id
            seen["child_ctx"] = current_context()

    class Root(Component):
        def __init__(self) -> None:
            self.add_component("child", Child)

        async def prepare(self) -> None:
            seen["prepare_task"] = get_current_task().id
            seen["prepare_ctx"] = current_context()

        async def start(self) -> None:
            seen["start_task"] = get_current_task().id
            seen["start_ctx"] = current_context()
            add_teardown_callback(lambda: seen.__setitem__("torn_down", True))

    seen: dict[str, Any] = {}
    async with Context() as ctx:
        await start_component(Root)
        assert current_context() is ctx
        assert seen["prepare_task"] == seen["start_task"] == get_current_task().id
        assert seen["child_task"] != get_current_task().id
        assert seen["prepare_ctx"] is seen["start_ctx"]
        assert seen["prepare_ctx"] is not ctx
        assert seen["child_ctx"] is not seen["start_ctx"]
        assert "torn_down" not in seen

    assert seen["torn_down"] is True


@pytest.mark.parametrize("timeout", [None, 5], ids=["no_timeout", "timeout"])
async def test_error_in_prepare(timeout: float | None, caplog: LogCaptureFixture) -> None:
    class Child(Component):
        async def start(self) -> None:
            pytest.fail("children must not be started")

    class Root(Component):
        def __init__(self) -> None:
            self.add_component("child", Child)

        async def prepare(self) -> None:
            raise ValueError("prepare failed")

        async def start(self) -> None:
            pytest.fail("start() must not be called")

    caplog.set_level(logging.DEBUG, "asphalt.core")
    async with Context():
        with pytest.raises(ComponentStartError) as excinfo:
            await start_component(Root, timeout=timeout)

    assert re.fullmatch(
        r"error preparing the root component \(.*\.Root\): ValueError: prepare failed",
        str(excinfo.value),
    )
    assert isinstance(excinfo.value.__cause__, ValueError)
    messages = [rec.getMessage() for rec in caplog.records]
    assert "Calling prepare() of the root component" in messages
    assert "Returned from prepare() of the root component" not in messages
    assert "Starting the child components of the root component" not in messages


@pytest.mark.parametrize("timeout", [None, 5], ids=["no_timeout", "timeout"])
async def test_error_in_start_after_children(
    timeout: float | None, caplog: LogCaptureFixture
) -> None:
    class Child(Component):
        async def start(self) -> None:
            add_resource("child ok", teardown_callback=lambda: torn_down.append(1))

    class Root(Component):
        def __init__(self) -> None:
            self.add_component("child", Child)

        async def start(self) -> None:
            assert get_resource_nowait(str) == "child ok"
            raise LookupError("start failed")

    torn_down: list[int] = []
    caplog.set_level(logging.DEBUG, "asphalt.core")
    async with Context():
        with pytest.raises(ComponentStartError) as excinfo:
            await start_component(Root, timeout=timeout)

        assert torn_down == []

    assert torn_down == [1]
    assert re.fullmatch(
        r"error starting the root component \(.*\.Root\): LookupError: start failed",
        str(excinfo.value),
    )
    assert isinstance(excinfo.value.__cause__, LookupError)
    messages = [rec.getMessage() for rec in caplog.records]
    assert "Returned from start() of component 'child'" in messages
    assert "Calling start() of the root component" in messages
    assert "Returned from start() of the root component" not in messages


async def test_nested_child_error_path_and_sibling_cancellation() -> None:
    class Failing(Component):
        async def prepare(self) -> None:
            await sibling_started.wait()
            raise OSError("deep failure")

    class Middle(Component):
        def __init__(self) -> None:
            self.add_component("failing", Failing)

        async def start(self) -> None:
            pytest.fail("must not be started")

    class Sibling(Component):
        async def start(self) -> None:
            sibling_started.set()
            try:
                await sleep_forever()
            finally:
                sibling_cancelled.append(True)

    class Root(Component):
        def __init__(self) -> None:
            self.add_component("middle", Middle)
            self.add_component("sibling", Sibling)

        async def start(self) -> None:
            pytest.fail("must not be started")

    sibling_started = Event()
    sibling_cancelled: list[bool] = []
    async with Context():
        with fail_after(3):
            with pytest.raises(ComponentStartError) as excinfo:
                await start_component(Root)

    assert sibling_cancelled == [True]
    assert re.fullmatch(
        r"error preparing component 'middle.failing' \(.*\.Failing\): "
        r"OSError: deep failure",
        str(excinfo.value),
    )
    assert isinstance(excinfo.value.__cause__, OSError)


async def test_two_failing_children_raise_group() -> None:
    class Failing(Component):
        def __init__(self, phase: str) -> None:
            self.phase = phase

        async def prepare(self) -> None:
            arrived.append(self.phase)
            if len(arrived) == 2:
                both_arrived.set()
            else:
                await both_arrived.wait()

            if self.phase == "prepare":
                raise RuntimeError("from prepare")

        async def start(self) -> None:
            raise RuntimeError("from start")

    class Root(Component):
        def __init__(self) -> None:
            self.add_component("a", Failing, phase="prepare")
            self.add_component("b", Failing, phase="start")

    arrived: list[str] = []
    both_arrived = Event()
    async with Context():
        with pytest.raises(ExceptionGroup) as excinfo:
            await start_component(Root)

    leaves = leaf_exceptions(excinfo.value)
    assert all(isinstance(exc, ComponentStartError) for exc in leaves)
    assert sorted(str(exc).split(" (")[0] for exc in leaves) == [
        "error preparing component 'a'",
        "error starting component 'b'",
    ]


@pytest.mark.parametrize("phase", ["prepare", "start"])
async def test_base_exception_is_not_wrapped(phase: str) -> None:
    class Root(Component):
        async def prepare(self) -> None:
            if phase == "prepare":
                raise CustomBaseException("stop everything")

        async def start(self) -> None:
            if phase == "start":
                raise CustomBaseException("stop everything")

    async with Context():
        with pytest.raises(CustomBaseException, match="^stop everything$") as excinfo:
            await start_component(Root, timeout=None)

    assert excinfo.value.__cause__ is None


async def test_timeout_in_each_phase(caplog: LogCaptureFixture) -> None:
    class InPrepare(Component):
        async def prepare(self) -> None:
            try:
                await sleep_forever()
            finally:
                cancelled.append("prepare")

    class InStart(Component):
        async def start(self) -> None:
            try:
                await sleep_forever()
            finally:
                cancelled.append("start")

    class Done(Component):
        async def start(self) -> None:
            add_resource("done")

    class Root(Component):
        def __init__(self) -> None:
            self.add_component("in_prepare", InPrepare)
            self.add_component("in_start", InStart)
            self.add_component("done", Done)

        async def prepare(self) -> None:
            await sleep(0)

        async def start(self) -> NoReturn:
            pytest.fail("must not be started")

    cancelled: list[str] = []
    caplog.set_level(logging.ERROR, "asphalt.core")
    async with Context():
        with pytest.raises(TimeoutError, match="^timeout starting component tree$"):
            await start_component(Root, timeout=0.1)

        assert get_resource_nowait(str) == "done"

    assert sorted(cancelled) == ["prepare", "start"]
    errors = [rec.getMessage() for rec in caplog.records]
    assert len(errors) == 1
    sections = errors[0].split("\n\n")
    assert sections[2] == (
        "(root): starting children\n  in_prepare: preparing\n  in_start: starting"
    )
    prefix = f"{__name__}.test_timeout_in_each_phase.<locals>"
    assert sections[4].startswith(f"in_prepare ({prefix}.InPrepare):\n")
    assert ", in prepare" in sections[4]
    assert sections[5].startswith(f"in_start ({prefix}.InStart):\n")
    assert ", in start" in sections[5]
    assert len(sections) == 6


async def test_children_wait_for_each_others_resources(
    caplog: LogCaptureFixture,
) -> None:
    class Provider(Component):
        async def start(self) -> None:
            await waiting.wait()
            add_resource("provided")

    class Consumer(Component):
        async def start(self) -> None:
            waiting.set()
            with fail_after(3):
                self.value = await get_resource(str)

    class Root(Component):
        def __init__(self) -> None:
            self.add_component("consumer", Consumer)
            self.add_component("provider", Provider)

    waiting = Event()
    caplog.set_level(logging.DEBUG, "asphalt.core")
    async with Context():
        await start_component(Root)

    messages = [rec.getMessage() for rec in caplog.records]
    waiting_msg = (
        "Component 'consumer' is waiting for another component to provide a resource "
        "(type=str, name='default')"
    )
    got_msg = (
        "Component 'consumer' got the resource it was waiting for "
        "(type=str, name='default')"
    )
    assert messages.index(waiting_msg) < messages.index(
        "Component 'provider' added a resource (type=str, name='default')"
    )
    assert messages.index(got_msg) < messages.index(
        "Returned from start() of component 'consumer'"
    )
