"""Mechanically generated behaviour-preserving variants of the whole package (all modules at
once), used as additional silent twins:

  rename_locals      every local variable of every function gets a new name
  rename_private     every private (single-underscore) attribute / method / function / module
                     global defined in the package gets a new name, consistently across modules
                     (string constants naming such an attribute are renamed too)
  flip_if_else       `if c: A else: B`  ->  `if not c: B else: A`   (non-elif if/else statements)
  reorder_defs       module-level function definitions are emitted in reverse order
                     (classes and other statements keep their places)

The variants are produced from the AST (`ast.unparse`), so they are exact by construction;
`tools/check_autotwins.py` additionally runs the unedited test suite on each of them.
"""
from __future__ import annotations

import ast
import copy
import os

PKG = os.path.join("src", "asphalt", "core")


def _functions(tree):
    for n in ast.walk(tree):
        if isinstance(n, (ast.FunctionDef, ast.AsyncFunctionDef)):
            yield n


def _own_nodes(fn):
    stack = list(fn.body)
    while stack:
        n = stack.pop()
        yield n
        if isinstance(n, (ast.FunctionDef, ast.AsyncFunctionDef, ast.ClassDef, ast.Lambda)):
            continue
        stack.extend(ast.iter_child_nodes(n))


def rename_locals(sources: dict) -> dict:
    out = {}
    for rel, src in sources.items():
        tree = ast.parse(src)
        for fn in list(_functions(tree)):
            params = {a.arg for a in fn.args.posonlyargs + fn.args.args + fn.args.kwonlyargs}
            if fn.args.vararg:
                params.add(fn.args.vararg.arg)
            if fn.args.kwarg:
                params.add(fn.args.kwarg.arg)
            declared = set()
            stored = set()
            nested_names = set()
            for n in _own_nodes(fn):
                if isinstance(n, (ast.Global, ast.Nonlocal)):
                    declared |= set(n.names)
                elif isinstance(n, ast.Name) and isinstance(n.ctx, (ast.Store, ast.Del)):
                    stored.add(n.id)
                elif isinstance(n, ast.ExceptHandler) and n.name:
                    stored.add(n.name)
                elif isinstance(n, (ast.FunctionDef, ast.AsyncFunctionDef, ast.ClassDef)):
                    nested_names.add(n.name)
                elif isinstance(n, (ast.Import, ast.ImportFrom)):
                    for al in n.names:
                        nested_names.add((al.asname or al.name).split(".")[0])
            # names captured by nested functions keep their name only if the nested function
            # declares them nonlocal; we rename consistently inside nested scopes as well
            targets = {v for v in stored if v not in params and v not in declared and v not in nested_names and not v.startswith("__")}
            if not targets:
                continue
            mapping = {v: f"{v}_rn" for v in targets}

            class R(ast.NodeTransformer):
                def __init__(self):
                    self.shadow = [set()]

                def visit_Name(self, node):
                    if node.id in mapping and not any(node.id in s for s in self.shadow):
                        node.id = mapping[node.id]
                    return node

                def visit_ExceptHandler(self, node):
                    self.generic_visit(node)
                    if node.name in mapping and not any(node.name in s for s in self.shadow):
                        node.name = mapping[node.name]
                    return node

                def _scoped(self, node):
                    a = node.args
                    sh = {x.arg for x in a.posonlyargs + a.args + a.kwonlyargs}
                    if a.vararg:
                        sh.add(a.vararg.arg)
                    if a.kwarg:
                        sh.add(a.kwarg.arg)
                    # a nested function that assigns the same name without nonlocal has its own variable
                    if not isinstance(node, ast.Lambda):
                        nl = set()
                        st = set()
                        for n in _own_nodes(node):
                            if isinstance(n, ast.Nonlocal):
                                nl |= set(n.names)
                            elif isinstance(n, ast.Name) and isinstance(n.ctx, ast.Store):
                                st.add(n.id)
                        sh |= st - nl
                    self.shadow.append(sh)
                    self.generic_visit(node)
                    self.shadow.pop()
                    return node

                def visit_FunctionDef(self, node):
                    return self._scoped(node) if node is not fn else self.generic_visit(node) or node

                visit_AsyncFunctionDef = visit_FunctionDef

                def visit_Lambda(self, node):
                    return self._scoped(node)

                def visit_Nonlocal(self, node):
                    node.names = [mapping.get(x, x) if not any(x in s for s in self.shadow[1:]) else x for x in node.names]
                    return node

            r = R()
            for i, st in enumerate(fn.body):
                fn.body[i] = r.visit(st)
        out[rel] = ast.unparse(ast.fix_missing_locations(tree)) + "\n"
    return out


def rename_private(sources: dict) -> dict:
    trees = {rel: ast.parse(src) for rel, src in sources.items()}
    defined = set()
    for tree in trees.values():
        for n in ast.walk(tree):
            if isinstance(n, (ast.FunctionDef, ast.AsyncFunctionDef)) and n.name.startswith("_") and not n.name.startswith("__"):
                defined.add(n.name)
            elif isinstance(n, ast.Attribute) and isinstance(n.ctx, ast.Store) and n.attr.startswith("_") and not n.attr.startswith("__"):
                defined.add(n.attr)
            elif isinstance(n, ast.AnnAssign) and isinstance(n.target, ast.Name) and n.target.id.startswith("_") and not n.target.id.startswith("__"):
                defined.add(n.target.id)
            elif isinstance(n, ast.Assign):
                for t in n.targets:
                    if isinstance(t, ast.Name) and t.id.startswith("_") and not t.id.startswith("__"):
                        defined.add(t.id)
    # keep what the tests / externals reach into by name
    keep = {"_isolated"}
    defined -= keep
    mapping = {v: v + "_pv" for v in defined}
    out = {}
    for rel, tree in trees.items():
        out[rel] = _apply_private_mapping(tree, mapping)
    rename_private.last_mapping = mapping  # the test-suite validation renames the tests' uses too
    return out


def apply_private_mapping_to_source(src: str, mapping: dict) -> str:
    return _apply_private_mapping(ast.parse(src), mapping)


def _apply_private_mapping(tree, mapping: dict) -> str:
    if True:
        for n in ast.walk(tree):
            if isinstance(n, ast.Attribute) and n.attr in mapping:
                # do not touch attributes of foreign modules (sys._getframe, re._parser)
                if isinstance(n.value, ast.Name) and n.value.id in ("sys", "re", "os", "anyio", "types", "typing"):
                    continue
                n.attr = mapping[n.attr]
            elif isinstance(n, ast.Name) and n.id in mapping:
                n.id = mapping[n.id]
            elif isinstance(n, (ast.FunctionDef, ast.AsyncFunctionDef)) and n.name in mapping:
                n.name = mapping[n.name]
            elif isinstance(n, ast.ImportFrom) and n.level >= 1:
                for al in n.names:
                    if al.name in mapping:
                        al.name = mapping[al.name]
                    if al.asname and al.asname in mapping:
                        al.asname = mapping[al.asname]
            elif isinstance(n, ast.Constant) and isinstance(n.value, str) and n.value in mapping:
                n.value = mapping[n.value]
            elif isinstance(n, ast.keyword) and n.arg in mapping:
                n.arg = mapping[n.arg]
            elif isinstance(n, ast.arg) and n.arg in mapping:
                n.arg = mapping[n.arg]
    return ast.unparse(ast.fix_missing_locations(tree)) + "\n"


def flip_if_else(sources: dict) -> dict:
    out = {}
    for rel, src in sources.items():
        tree = ast.parse(src)
        for n in ast.walk(tree):
            for fld in ("body", "orelse", "finalbody"):
                block = getattr(n, fld, None)
                if not isinstance(block, list):
                    continue
                for st in block:
                    if isinstance(st, ast.If) and st.orelse and not (len(st.orelse) == 1 and isinstance(st.orelse[0], ast.If)):
                        # skip `if TYPE_CHECKING` / version checks at module level
                        if isinstance(n, ast.Module):
                            continue
                        test = st.test
                        st.test = test.operand if isinstance(test, ast.UnaryOp) and isinstance(test.op, ast.Not) else ast.UnaryOp(op=ast.Not(), operand=test)
                        st.body, st.orelse = st.orelse, st.body
        out[rel] = ast.unparse(ast.fix_missing_locations(tree)) + "\n"
    return out


def reorder_defs(sources: dict) -> dict:
    out = {}
    for rel, src in sources.items():
        tree = ast.parse(src)
        body = tree.body
        idx = [i for i, st in enumerate(body) if isinstance(st, (ast.FunctionDef, ast.AsyncFunctionDef)) and not st.decorator_list]
        # only plain (undecorated) functions that are not referenced at import time by later module-level code
        names_used_at_import = set()
        for st in body:
            if not isinstance(st, (ast.FunctionDef, ast.AsyncFunctionDef, ast.ClassDef)):
                for x in ast.walk(st):
                    if isinstance(x, ast.Name):
                        names_used_at_import.add(x.id)
            elif isinstance(st, ast.ClassDef) or st.decorator_list:
                for d in getattr(st, "decorator_list", []):
                    for x in ast.walk(d):
                        if isinstance(x, ast.Name):
                            names_used_at_import.add(x.id)
        # a name defined several times (overload stubs + implementation) must keep its order
        from collections import Counter

        multi = {n for n, c in Counter(st.name for st in body if isinstance(st, (ast.FunctionDef, ast.AsyncFunctionDef, ast.ClassDef))).items() if c > 1}
        idx = [i for i in idx if body[i].name not in names_used_at_import and body[i].name not in multi]
        fns = [body[i] for i in idx]
        for i, f in zip(idx, reversed(fns)):
            body[i] = f
        out[rel] = ast.unparse(ast.fix_missing_locations(tree)) + "\n"
    return out


# Only generators whose output passes the test suite are used as twins
# (tools/check_autotwins.py --suite).  The suite is used unedited except for rename_private:
# the tests themselves reach into a few private names, so for that twin the same renaming is
# applied to the tests' uses of those names in the scratch copy.
GENERATORS = {
    "auto-rename-locals": rename_locals,
    "auto-flip-if-else": flip_if_else,
    "auto-reorder-defs": reorder_defs,
    "auto-rename-private": rename_private,
}
EXPERIMENTAL: dict = {}
