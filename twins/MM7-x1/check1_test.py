"""
Behaviour checks for refactoring 1 (helper extraction in ``_concurrent.py``).

Exercises, through the public API only: task handle creation/registration shared by
``start_task()`` and ``start_task_soon()``, the ``task_status`` parameter detection and
the exception handler decision.
"""

from __future__ import annotations

import logging
import sys
from functools import partial
from typing import Any, NoReturn

import pytest
from anyio import Event, fail_after, get_current_task, sleep, wait_all_tasks_blocked
from anyio.abc import TaskStatus
from pytest import LogCaptureFixture

from asphalt.core import (
    Context,
    TaskFactory,
    TaskHandle,
    start_background_task_factory,
)

if sys.version_info < (3, 11):
    from exceptiongroup import BaseExceptionGroup

pytestmark = [pytest.mark.anyio(), pytest.mark.timeout(30)]


@pytest.fixture
def anyio_backend() -> str:
    return "asyncio"


def leaves(exc: BaseException) -> list[BaseException]:
    if isinstance(exc, BaseExceptionGroup):
        return [leaf for sub in exc.exceptions for leaf in leaves(sub)]

    return [exc]


def task_messages(caplog: LogCaptureFixture) -> list[str]:
    return [
        record.getMessage()
        for record in caplog.records
        if record.name == "asphalt.core"
        and record.getMessage().startswith("Background task (")
        and "factory" not in record.getMessage()
    ]


async def module_level_task() -> None:
    pass


class TestNamesAndRegistration:
    @pytest.mark.parametrize("soon", [False, True], ids=["start", "soon"])
    @pytest.mark.parametrize("name", ["explicit", None, ""])
    async def test_names(self, soon: bool, name: str | None) -> None:
        seen: list[str | None] = []

        async def taskfunc() -> None:
            seen.append(get_current_task().name)

        expected = name or (
            f"{__name__}.TestNamesAndRegistration.test_names.<locals>.taskfunc"
        )
        async with Context():
            factory = await start_background_task_factory()
            if soon:
                handle = factory.start_task_soon(taskfunc, name)
            else:
                handle = await factory.start_task(taskfunc, name)

            assert isinstance(handle, TaskHandle)
            assert handle.name == expected
            await handle.wait_finished()

        assert seen == [expected]

    async def test_partial_name(self) -> None:
        async def taskfunc(arg: int) -> None:
            pass

        async with Context():
            factory = await start_background_task_factory()
            handle1 = factory.start_task_soon(partial(taskfunc, 1))
            handle2 = await factory.start_task(partial(module_level_task))
            assert handle1.name == (
                f"{__name__}.TestNamesAndRegistration.test_partial_name.<locals>"
                f".taskfunc"
            )
            assert handle2.name == f"{__name__}.module_level_task"

    async def test_handle_tracked_until_done(self) -> None:
        event = Event()
        inside: list[set[TaskHandle]] = []

        async def taskfunc() -> None:
            inside.append(factory.all_task_handles())
            await event.wait()

        async def crasher() -> NoReturn:
            await event.wait()
            raise RuntimeError("boom")

        async with Context():
            factory = await start_background_task_factory(
                exception_handler=lambda exc: True
            )
            handle1 = factory.start_task_soon(taskfunc, "one")
            # Registered immediately, even before the task has had a chance to run
            assert factory.all_task_handles() == {handle1}
            assert inside == []
            await wait_all_tasks_blocked()
            assert inside == [{handle1}]
            handle2 = await factory.start_task(taskfunc, "two")
            handle3 = await factory.start_task(crasher, "three")
            handle4 = await factory.start_task(lambda: sleep(10), "four")
            assert factory.all_task_handles() == {handle1, handle2, handle3, handle4}
            assert inside == [{handle1}, {handle1, handle2}]

            # The returned set is a copy
            factory.all_task_handles().clear()
            assert len(factory.all_task_handles()) == 4

            handle4.cancel()
            with fail_after(3):
                await handle4.wait_finished()

            assert factory.all_task_handles() == {handle1, handle2, handle3}
            event.set()
            with fail_after(3):
                for handle in (handle1, handle2, handle3):
                    await handle.wait_finished()

            assert factory.all_task_handles() == set()

    @pytest.mark.parametrize("soon", [False, True], ids=["start", "soon"])
    async def test_factory_not_running(self, soon: bool) -> None:
        """A handle is registered before the (missing) task group is accessed."""
        factory = TaskFactory()
        with pytest.raises(AttributeError, match="_task_group"):
            if soon:
                factory.start_task_soon(module_level_task, "orphan")
            else:
                await factory.start_task(module_level_task, "orphan")

        handles = factory.all_task_handles()
        assert [handle.name for handle in handles] == ["orphan"]

    async def test_bad_func_without_name(self) -> None:
        async with Context():
            factory = await start_background_task_factory()
            with pytest.raises(AttributeError, match="__module__"):
                factory.start_task_soon(object(), None)  # type: ignore[arg-type]

            # Failed before anything was registered
            assert factory.all_task_handles() == set()


class TestTaskStatusDetection:
    async def test_keyword_only(self) -> None:
        async def taskfunc(*, task_status: TaskStatus[str]) -> None:
            task_status.started("kwonly")
            await event.wait()

        event = Event()
        async with Context():
            factory = await start_background_task_factory()
            handle = await factory.start_task(taskfunc)
            assert handle.start_value == "kwonly"
            assert factory.all_task_handles() == {handle}
            event.set()

    async def test_with_default_and_other_params(self) -> None:
        async def taskfunc(
            other: int = 1, task_status: Any = None, *args: Any, **kwargs: Any
        ) -> None:
            assert other == 1 and not args and not kwargs
            task_status.started(["value"])

        async with Context():
            factory = await start_background_task_factory()
            handle = await factory.start_task(taskfunc)
            assert handle.start_value == ["value"]

    async def test_only_var_keyword(self) -> None:
        """``**kwargs`` alone does not count as accepting ``task_status``."""
        received: list[dict[str, Any]] = []

        async def taskfunc(**kwargs: Any) -> None:
            received.append(kwargs)

        async with Context():
            factory = await start_background_task_factory()
            handle = await factory.start_task(taskfunc)
            assert handle.start_value is None
            await handle.wait_finished()

        assert received == [{}]

    async def test_positional_only(self, caplog: LogCaptureFixture) -> None:
        """
        A positional-only ``task_status`` is not detected, so the function gets called
        without arguments.

        """
        caplog.set_level(logging.DEBUG, "asphalt.core")
        handled: list[Exception] = []

        def handler(exc: Exception) -> bool:
            handled.append(exc)
            return True

        async def taskfunc(task_status: Any, /) -> None:
            pytest.fail("should never get called")

        async with Context():
            factory = await start_background_task_factory(exception_handler=handler)
            handle = await factory.start_task(taskfunc, "posonly")
            assert handle.start_value is None
            with fail_after(3):
                await handle.wait_finished()

        assert len(handled) == 1
        assert isinstance(handled[0], TypeError)
        assert "task_status" in str(handled[0])
        assert task_messages(caplog) == [
            "Background task (posonly) starting",
            "Background task (posonly) crashed",
        ]

    async def test_soon_ignores_started(self) -> None:
        async def taskfunc(task_status: TaskStatus[str]) -> None:
            task_status.started("ignored")

        async with Context():
            factory = await start_background_task_factory()
            handle = factory.start_task_soon(taskfunc)
            with fail_after(3):
                await handle.wait_finished()

            assert not hasattr(handle, "start_value")

    async def test_not_introspectable(self) -> None:
        """signature() fails in the task itself, outside the crash handling."""
        handled: list[Exception] = []

        with pytest.raises(BaseExceptionGroup) as excinfo:
            async with Context():
                factory = await start_background_task_factory(
                    exception_handler=lambda exc: handled.append(exc) or True
                )
                handle = factory.start_task_soon(42, "bad")  # type: ignore[arg-type]
                assert factory.all_task_handles() == {handle}
                await sleep(0.05)
                assert factory.all_task_handles() == set()

        errors = leaves(excinfo.value)
        assert len(errors) == 1
        assert isinstance(errors[0], TypeError)
        assert str(errors[0]) == "42 is not a callable object"
        assert handled == []


class TestExceptionHandler:
    async def test_no_handler(self, caplog: LogCaptureFixture) -> None:
        caplog.set_level(logging.DEBUG, "asphalt.core")

        async def taskfunc() -> NoReturn:
            raise ValueError("no handler")

        with pytest.raises(BaseExceptionGroup) as excinfo:
            async with Context():
                factory = await start_background_task_factory()
                handle = await factory.start_task(taskfunc, "nh")
                with fail_after(3):
                    await handle.wait_finished()

        errors = leaves(excinfo.value)
        assert [type(exc) for exc in errors] == [ValueError]
        assert str(errors[0]) == "no handler"
        assert task_messages(caplog) == [
            "Background task (nh) starting",
            "Background task (nh) crashed",
        ]
        crash_record = next(
            rec for rec in caplog.records if rec.getMessage().endswith("crashed")
        )
        assert crash_record.levelno == logging.ERROR
        assert crash_record.exc_info and crash_record.exc_info[1] is errors[0]

    @pytest.mark.parametrize("retval", [False, None, 0, ""])
    async def test_handler_declines(self, retval: Any) -> None:
        calls: list[Exception] = []

        def handler(exc: Exception) -> Any:
            calls.append(exc)
            return retval

        async def taskfunc() -> NoReturn:
            raise ValueError("declined")

        with pytest.raises(BaseExceptionGroup) as excinfo:
            async with Context():
                factory = await start_background_task_factory(
                    exception_handler=handler
                )
                factory.start_task_soon(taskfunc)

        errors = leaves(excinfo.value)
        assert errors == calls
        assert str(errors[0]) == "declined"

    @pytest.mark.parametrize("retval", [True, 1, "yes", [0]])
    async def test_handler_accepts(
        self, retval: Any, caplog: LogCaptureFixture
    ) -> None:
        caplog.set_level(logging.DEBUG, "asphalt.core")
        calls: list[Exception] = []

        def handler(exc: Exception) -> Any:
            calls.append(exc)
            return retval

        async def taskfunc() -> NoReturn:
            raise ValueError("accepted")

        async def good() -> None:
            pass

        async with Context():
            factory = await start_background_task_factory(exception_handler=handler)
            handle = await factory.start_task(taskfunc, "acc")
            with fail_after(3):
                await handle.wait_finished()

            assert factory.all_task_handles() == set()
            # The factory keeps working after a handled crash
            handle2 = await factory.start_task(good, "good")
            with fail_after(3):
                await handle2.wait_finished()

        assert [str(exc) for exc in calls] == ["accepted"]
        assert task_messages(caplog) == [
            "Background task (acc) starting",
            "Background task (acc) crashed",
            "Background task (good) starting",
            "Background task (good) finished successfully",
        ]

    async def test_handler_raises(self) -> None:
        def handler(exc: Exception) -> bool:
            raise KeyError("handler failed")

        async def taskfunc() -> NoReturn:
            raise ValueError("original")

        with pytest.raises(BaseExceptionGroup) as excinfo:
            async with Context():
                factory = await start_background_task_factory(
                    exception_handler=handler
                )
                handle = factory.start_task_soon(taskfunc)
                with fail_after(3):
                    await handle.wait_finished()

                assert factory.all_task_handles() == set()

        errors = leaves(excinfo.value)
        assert [type(exc) for exc in errors] == [KeyError]
        assert isinstance(errors[0].__context__, ValueError)
        assert str(errors[0].__context__) == "original"

    async def test_handler_not_called_for_base_exception(self) -> None:
        calls: list[BaseException] = []

        class Custom(BaseException):
            pass

        async def taskfunc() -> NoReturn:
            raise Custom("base")

        with pytest.raises(BaseExceptionGroup) as excinfo:
            async with Context():
                factory = await start_background_task_factory(
                    exception_handler=lambda exc: calls.append(exc) or True
                )
                handle = factory.start_task_soon(taskfunc)
                with fail_after(3):
                    await handle.wait_finished()

        assert [type(exc) for exc in leaves(excinfo.value)] == [Custom]
        assert calls == []

    async def test_handler_replaced_after_start(self) -> None:
        """The handler is looked up from the factory when each task is started."""
        first: list[Exception] = []
        second: list[Exception] = []
        event = Event()

        async def taskfunc() -> NoReturn:
            await event.wait()
            raise ValueError(get_current_task().name)

        async with Context():
            factory = await start_background_task_factory(
                exception_handler=lambda exc: first.append(exc) or True
            )
            handle1 = await factory.start_task(taskfunc, "t1")
            factory.exception_handler = lambda exc: second.append(exc) or True
            handle2 = factory.start_task_soon(taskfunc, "t2")
            event.set()
            with fail_after(3):
                await handle1.wait_finished()
                await handle2.wait_finished()

        assert [str(exc) for exc in first] == ["t1"]
        assert [str(exc) for exc in second] == ["t2"]

    async def test_crash_before_started_handled(self) -> None:
        async def taskfunc(task_status: TaskStatus[None]) -> NoReturn:
            raise ValueError("early")

        async with Context():
            factory = await start_background_task_factory(
                exception_handler=lambda exc: True
            )
            with pytest.raises(RuntimeError, match="task_status.started"):
                await factory.start_task(taskfunc, "early")

            assert factory.all_task_handles() == set()

    async def test_crash_before_started_unhandled(self) -> None:
        async def taskfunc(task_status: TaskStatus[None]) -> NoReturn:
            raise ValueError("early")

        async with Context():
            factory = await start_background_task_factory()
            with pytest.raises(ValueError, match="^early$"):
                await factory.start_task(taskfunc, "early")

            assert factory.all_task_handles() == set()
