"""
Behaviour checks for refactoring 2 (``Context.start_service_task`` /
``Context.start_background_task_factory`` and their module level shortcuts).

Everything goes through the public API only. Must pass both on the unchanged source and
with refactor2.diff applied.
"""

from __future__ import annotations

import logging
import sys
from functools import partial
from typing import Any

import anyio
import pytest
from anyio import Event, fail_after, get_cancelled_exc_class, sleep
from anyio.abc import TaskStatus
from anyio.lowlevel import checkpoint

from asphalt.core import (
    Context,
    NoCurrentContext,
    TaskFactory,
    add_teardown_callback,
    current_context,
    start_background_task_factory,
    start_service_task,
)

if sys.version_info < (3, 11):
    from exceptiongroup import BaseExceptionGroup

pytestmark = pytest.mark.anyio


@pytest.fixture
def anyio_backend() -> str:
    return "asyncio"


@pytest.fixture
def log(caplog: pytest.LogCaptureFixture) -> pytest.LogCaptureFixture:
    caplog.set_level(logging.DEBUG, "asphalt.core")
    return caplog


def messages(caplog: pytest.LogCaptureFixture) -> list[tuple[str, str]]:
    return [
        (record.levelname, record.getMessage())
        for record in caplog.records
        if record.name == "asphalt.core"
    ]


async def test_default_action_cancels(log: pytest.LogCaptureFixture) -> None:
    events: list[str] = []

    async def service() -> None:
        events.append("started")
        try:
            await sleep(60)
        except get_cancelled_exc_class():
            events.append("cancelled")
            raise

    with fail_after(3):
        async with Context() as ctx:
            add_teardown_callback(lambda: events.append("early callback"))
            retval = await ctx.start_service_task(service, "svc")
            add_teardown_callback(lambda: events.append("late callback"))
            assert retval is None
            assert events == ["started"]
            events.append("body done")

    assert events == [
        "started",
        "body done",
        "late callback",
        "cancelled",
        "early callback",
    ]
    assert messages(log) == [
        ("DEBUG", "Background task (Service task: svc) starting"),
        ("DEBUG", "Cancelling service task 'svc'"),
        ("DEBUG", "Waiting for service task 'svc' to finish"),
        ("DEBUG", "Background task (Service task: svc) finished successfully"),
        ("DEBUG", "Service task 'svc' finished"),
    ]


async def test_start_value_and_own_context(log: pytest.LogCaptureFixture) -> None:
    seen: dict[str, Any] = {}

    async def service(*, task_status: TaskStatus[str]) -> None:
        seen["ctx"] = current_context()
        await checkpoint()
        task_status.started("start value")
        await sleep(60)

    with fail_after(3):
        async with Context() as ctx:
            assert await start_service_task(service, "with status") == "start value"
            assert seen["ctx"] is not ctx
            assert seen["ctx"].parent is ctx
            assert not seen["ctx"].closed

    assert seen["ctx"].closed


async def test_none_action_waits_for_task(log: pytest.LogCaptureFixture) -> None:
    finish = Event()
    events: list[str] = []

    async def service() -> None:
        await finish.wait()
        events.append("service finished")

    def release() -> None:
        events.append("releasing")
        finish.set()

    with fail_after(3):
        async with Context() as ctx:
            # Registered first => called last; the wait would hang if the service task
            # were finalized in the wrong order
            await ctx.start_service_task(service, "selfending", teardown_action=None)
            ctx.add_teardown_callback(release)

    assert events == ["releasing", "service finished"]
    assert messages(log) == [
        ("DEBUG", "Background task (Service task: selfending) starting"),
        ("DEBUG", "Waiting for service task 'selfending' to finish"),
        ("DEBUG", "Background task (Service task: selfending) finished successfully"),
        ("DEBUG", "Service task 'selfending' finished"),
    ]


@pytest.mark.parametrize("use_async", [False, True], ids=["sync", "async"])
@pytest.mark.parametrize("use_partial", [False, True], ids=["plain", "partial"])
async def test_callable_action(
    log: pytest.LogCaptureFixture, use_async: bool, use_partial: bool
) -> None:
    finish = Event()
    events: list[str] = []

    async def service() -> None:
        await finish.wait()
        events.append("service finished")

    def stop_sync(*args: Any) -> None:
        events.append(f"stop{args}")
        finish.set()

    async def stop_async(*args: Any) -> None:
        events.append(f"stop{args}:before")
        await checkpoint()
        finish.set()
        events.append(f"stop{args}:after")

    action: Any = stop_async if use_async else stop_sync
    expected_args: tuple[Any, ...] = ()
    if use_partial:
        action = partial(action, 1)
        expected_args = (1,)

    with fail_after(3):
        async with Context():
            await start_service_task(service, "stoppable", teardown_action=action)

    if use_async:
        assert events == [
            f"stop{expected_args}:before",
            f"stop{expected_args}:after",
            "service finished",
        ]
    else:
        assert events == [f"stop{expected_args}", "service finished"]

    func_name = "stop_async" if use_async else "stop_sync"
    assert messages(log) == [
        ("DEBUG", "Background task (Service task: stoppable) starting"),
        (
            "DEBUG",
            f"Calling teardown callback ({__name__}.test_callable_action.<locals>."
            f"{func_name}) for service task 'stoppable'",
        ),
        ("DEBUG", "Waiting for service task 'stoppable' to finish"),
        ("DEBUG", "Background task (Service task: stoppable) finished successfully"),
        ("DEBUG", "Service task 'stoppable' finished"),
    ]


@pytest.mark.parametrize("use_async", [False, True], ids=["sync", "async"])
async def test_action_raising_exception_cancels_and_logs(
    log: pytest.LogCaptureFixture, use_async: bool
) -> None:
    events: list[str] = []

    async def service() -> None:
        try:
            await sleep(60)
        except get_cancelled_exc_class():
            events.append("cancelled")
            raise

    def bad_sync() -> None:
        raise RuntimeError("teardown failure")

    async def bad_async() -> None:
        await checkpoint()
        raise RuntimeError("teardown failure")

    action = bad_async if use_async else bad_sync
    with fail_after(3):
        async with Context():
            await start_service_task(service, "svc", teardown_action=action)

    assert events == ["cancelled"]
    name = f"{__name__}.test_action_raising_exception_cancels_and_logs.<locals>." + (
        "bad_async" if use_async else "bad_sync"
    )
    assert messages(log) == [
        ("DEBUG", "Background task (Service task: svc) starting"),
        ("DEBUG", f"Calling teardown callback ({name}) for service task 'svc'"),
        ("ERROR", f"Error calling teardown callback ({name}) for service task 'svc'"),
        ("DEBUG", "Waiting for service task 'svc' to finish"),
        ("DEBUG", "Background task (Service task: svc) finished successfully"),
        ("DEBUG", "Service task 'svc' finished"),
    ]
    error_record = next(r for r in log.records if r.levelname == "ERROR")
    assert error_record.exc_info is not None
    assert error_record.exc_info[0] is RuntimeError
    assert str(error_record.exc_info[1]) == "teardown failure"


class Disaster(BaseException):
    pass


@pytest.mark.parametrize("use_async", [False, True], ids=["sync", "async"])
async def test_action_raising_base_exception_is_swallowed_silently(
    log: pytest.LogCaptureFixture, use_async: bool
) -> None:
    events: list[str] = []

    async def service() -> None:
        try:
            await sleep(60)
        except get_cancelled_exc_class():
            events.append("cancelled")
            raise

    def bad_sync() -> None:
        raise Disaster("boom")

    async def bad_async() -> None:
        await checkpoint()
        raise Disaster("boom")

    action = bad_async if use_async else bad_sync
    with fail_after(3):
        async with Context():
            await start_service_task(service, "svc", teardown_action=action)
            events.append("body done")

    assert events == ["body done", "cancelled"]
    assert [level for level, _ in messages(log)] == ["DEBUG"] * 5
    assert messages(log)[2:] == [
        ("DEBUG", "Waiting for service task 'svc' to finish"),
        ("DEBUG", "Background task (Service task: svc) finished successfully"),
        ("DEBUG", "Service task 'svc' finished"),
    ]


@pytest.mark.parametrize(
    "bad_action", ["Cancel", "", 0, 1.5, b"cancel", ("cancel",), object()]
)
async def test_invalid_action(log: pytest.LogCaptureFixture, bad_action: Any) -> None:
    called = False

    async def service() -> None:
        nonlocal called
        called = True

    async with Context() as ctx:
        for starter in (ctx.start_service_task, start_service_task):
            with pytest.raises(ValueError) as exc_info:
                await starter(service, "invalid", teardown_action=bad_action)

            assert str(exc_info.value) == (
                "teardown_action must be a callable, None, or the string 'cancel'"
            )

        await checkpoint()

    assert not called
    assert messages(log) == []


async def test_comparison_protocol_of_action() -> None:
    """The action is compared with != at start and with == at teardown, once each."""
    ops: list[str] = []
    finish = Event()

    class Action:
        def __init__(self) -> None:
            self.__qualname__ = "Action"

        def __eq__(self, other: object) -> bool:
            ops.append(f"eq:{other}")
            return False

        def __ne__(self, other: object) -> bool:
            ops.append(f"ne:{other}")
            return True

        __hash__ = object.__hash__

        def __call__(self) -> None:
            ops.append("call")
            finish.set()

    async def service() -> None:
        await finish.wait()

    with fail_after(3):
        async with Context():
            await start_service_task(service, "svc", teardown_action=Action())
            assert ops == ["ne:cancel"]

    assert ops == ["ne:cancel", "eq:cancel", "call"]


async def test_action_without_qualified_name(log: pytest.LogCaptureFixture) -> None:
    """
    A callable object without __qualname__ makes the finalizer fail before the task is
    even signalled; the error surfaces from the context teardown.
    """
    events: list[str] = []

    class Action:
        def __call__(self) -> None:
            events.append("action called")

    async def service() -> None:
        try:
            await sleep(60)
        except get_cancelled_exc_class():
            events.append("cancelled")
            raise

    with fail_after(3):
        with pytest.raises(BaseExceptionGroup) as exc_info:
            async with Context():
                add_teardown_callback(lambda: events.append("first callback"))
                await start_service_task(service, "svc", teardown_action=Action())

    assert exc_info.value.message == "unhandled errors in a TaskGroup"
    assert len(exc_info.value.exceptions) == 1
    teardown_group = exc_info.value.exceptions[0]
    assert isinstance(teardown_group, BaseExceptionGroup)
    assert teardown_group.message == "Exceptions were raised during context teardown"
    assert len(teardown_group.exceptions) == 1
    assert isinstance(teardown_group.exceptions[0], AttributeError)
    assert "__qualname__" in str(teardown_group.exceptions[0])
    assert events == ["first callback", "cancelled"]
    # The task was cancelled by the root task group, not through its own handle
    assert messages(log) == [
        ("DEBUG", "Background task (Service task: svc) starting"),
    ]


async def test_task_failing_before_started(log: pytest.LogCaptureFixture) -> None:
    events: list[str] = []

    async def service(*, task_status: TaskStatus[None]) -> None:
        raise RuntimeError("startup failure")

    def action() -> None:
        events.append("action called")

    async with Context() as ctx:
        with pytest.raises(RuntimeError, match="startup failure"):
            await ctx.start_service_task(service, "failing", teardown_action=action)

    # No teardown callback was registered for the failed task
    assert events == []
    assert messages(log) == [
        ("DEBUG", "Background task (Service task: failing) starting"),
        ("ERROR", "Background task (Service task: failing) crashed"),
    ]


async def test_task_crashing_later(log: pytest.LogCaptureFixture) -> None:
    proceed = Event()

    async def service() -> None:
        await proceed.wait()
        raise RuntimeError("late failure")

    with fail_after(3):
        with pytest.raises(RuntimeError, match="late failure"):
            async with Context():
                await start_service_task(service, "crasher", teardown_action=None)
                proceed.set()
                await sleep(60)

    # The host task is in a cancelled scope by the time the finalizer waits
    assert messages(log) == [
        ("DEBUG", "Background task (Service task: crasher) starting"),
        ("ERROR", "Background task (Service task: crasher) crashed"),
        ("DEBUG", "Waiting for service task 'crasher' to finish"),
    ]


async def test_several_services_finalized_in_reverse_order(
    log: pytest.LogCaptureFixture,
) -> None:
    events: list[str] = []

    def make_service(label: str) -> Any:
        async def service() -> None:
            try:
                await sleep(60)
            except get_cancelled_exc_class():
                events.append(f"{label} cancelled")
                raise

        return service

    with fail_after(3):
        async with Context() as ctx:
            await ctx.start_service_task(make_service("a"), "a")
            async with Context() as subctx:
                await subctx.start_service_task(make_service("b"), "b")
                await start_service_task(make_service("c"), "c")

            events.append("subcontext closed")

    assert events == ["c cancelled", "b cancelled", "subcontext closed", "a cancelled"]
    assert [msg for _, msg in messages(log) if msg.startswith("Cancelling")] == [
        "Cancelling service task 'c'",
        "Cancelling service task 'b'",
        "Cancelling service task 'a'",
    ]


async def test_non_string_name(log: pytest.LogCaptureFixture) -> None:
    async def service() -> None:
        await sleep(60)

    with fail_after(3):
        async with Context():
            await start_service_task(service, 123)  # type: ignore[arg-type]

    assert messages(log)[:2] == [
        ("DEBUG", "Background task (Service task: 123) starting"),
        ("DEBUG", "Cancelling service task 123"),
    ]


async def test_errors_without_usable_context() -> None:
    async def service() -> None:
        pass

    with pytest.raises(NoCurrentContext):
        await start_service_task(service, "svc")

    with pytest.raises(NoCurrentContext):
        await start_background_task_factory()

    # Invalid action is reported before the missing task group is noticed
    with pytest.raises(ValueError):
        await Context().start_service_task(service, "svc", teardown_action=1)  # type: ignore[arg-type]

    with pytest.raises(AttributeError):
        await Context().start_service_task(service, "svc")

    async with Context() as ctx:
        pass

    with pytest.raises(RuntimeError):
        await ctx.start_service_task(service, "svc")


async def test_background_task_factory(log: pytest.LogCaptureFixture) -> None:
    events: list[str] = []
    handled: list[BaseException] = []
    release = Event()

    def handler(exc: Exception) -> bool:
        handled.append(exc)
        return True

    async def slow_task() -> None:
        await release.wait()
        await checkpoint()
        events.append("slow task done")

    async def failing_task() -> None:
        raise KeyError("oops")

    with fail_after(3):
        async with Context() as ctx:
            add_teardown_callback(lambda: events.append("first callback"))
            factory = await start_background_task_factory(exception_handler=handler)
            factory2 = await ctx.start_background_task_factory()
            assert isinstance(factory, TaskFactory)
            assert factory.exception_handler is handler
            assert factory2.exception_handler is None
            assert factory2 is not factory
            handle = await factory.start_task(slow_task, "slow")
            failing = factory.start_task_soon(failing_task)
            await failing.wait_finished()
            assert factory.all_task_handles() == {handle}
            add_teardown_callback(release.set)

    # The factory's service task waited for the slow task before the teardown went on
    assert events == ["slow task done", "first callback"]
    assert len(handled) == 1 and isinstance(handled[0], KeyError)
    assert factory.all_task_handles() == set()

    name1 = f"Background task factory ({id(factory):x})"
    name2 = f"Background task factory ({id(factory2):x})"
    set_name = "anyio.Event.set"
    all_messages = [msg for _, msg in messages(log)]
    assert all_messages[:2] == [
        f"Background task (Service task: {name1}) starting",
        f"Background task (Service task: {name2}) starting",
    ]
    teardown_messages = [
        msg
        for msg in all_messages
        if "service task" in msg or "Service task '" in msg
    ]
    calling = [msg for msg in teardown_messages if msg.startswith("Calling")]
    assert len(calling) == 2
    assert calling[0].endswith(f"for service task {name2!r}")
    assert calling[1].endswith(f"for service task {name1!r}")
    assert set_name.split(".")[-1] in calling[0]
    assert [msg for msg in teardown_messages if not msg.startswith("Calling")] == [
        f"Waiting for service task {name2!r} to finish",
        f"Service task {name2!r} finished",
        f"Waiting for service task {name1!r} to finish",
        f"Service task {name1!r} finished",
    ]


async def test_cancellation_during_finalization() -> None:
    """The host task gets cancelled while the finalizer waits for the service task."""
    events: list[str] = []
    never = Event()

    async def service() -> None:
        try:
            await never.wait()
        except get_cancelled_exc_class():
            events.append("service cancelled")
            raise

    async def run_context() -> None:
        async with Context():
            await start_service_task(service, "stubborn", teardown_action=None)
            events.append("leaving")

    with fail_after(3):
        async with anyio.create_task_group() as tg:
            tg.start_soon(run_context)
            await anyio.wait_all_tasks_blocked()
            assert events == ["leaving"]
            tg.cancel_scope.cancel()

    assert events == ["leaving", "service cancelled"]
