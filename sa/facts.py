"""Branch facts: what is known about the truth of (side-effect free) conditions when control
reaches a CFG node, derived from the tests that decide whether the node is reached.

Conditions are read as propositional formulas over atoms (maximal non-boolean
sub-expressions, compared by their copy-propagated source text); `!=`, `is not`, `not in`
are the negations of `==`, `is`, `in`.  Local boolean variables with a single reaching
definition are replaced by their definition.  Implication is decided by enumerating the
truth assignments of the (few) atoms - exact for the propositional structure, and only ever
used to *prune* infeasible combinations (guards written as `if not (a and b): ...; continue`
instead of `if a and b: ...`)."""
from __future__ import annotations

import ast
import itertools

from .cfg import CFG
from .dataflow import ReachingDefs

MAX_ATOMS = 10


class Facts:
    def __init__(self, a, func, rd: ReachingDefs | None = None):
        self.a = a
        self.func = func
        self.cfg: CFG = a.cfg(func)
        self.rd = rd or ReachingDefs(a, func)

    # ------------------------------------------------------------------ formulas
    def formula(self, nid: int, e, depth: int = 4):
        """-> ('and', [..]) | ('or', [..]) | ('not', f) | ('atom', text) | ('const', bool)"""
        if isinstance(e, ast.BoolOp):
            parts = [self.formula(nid, v, depth) for v in e.values]
            return ("and" if isinstance(e.op, ast.And) else "or", parts)
        if isinstance(e, ast.UnaryOp) and isinstance(e.op, ast.Not):
            return ("not", self.formula(nid, e.operand, depth))
        if isinstance(e, ast.Constant):
            return ("const", bool(e.value))
        if isinstance(e, ast.NamedExpr):
            return self.formula(nid, e.value, depth)
        if isinstance(e, ast.Compare) and len(e.ops) == 1:
            op = e.ops[0]
            neg = {ast.NotEq: ast.Eq, ast.IsNot: ast.Is, ast.NotIn: ast.In}
            for k, v in neg.items():
                if isinstance(op, k):
                    pos = ast.Compare(left=e.left, ops=[v()], comparators=e.comparators)
                    return ("not", ("atom", self.rd.text(nid, pos)))
            return ("atom", self.rd.text(nid, e))
        if isinstance(e, ast.Name) and depth > 0:
            defs = self.rd.at(nid, e.id)
            if len(defs) == 1:
                (d,) = defs
                info = self.rd.def_info(d, e.id)
                if info and info[0] == "value" and isinstance(info[1], (ast.BoolOp, ast.Compare, ast.UnaryOp)) or (info and info[0] == "value" and isinstance(info[1], ast.Call) and isinstance(info[1].func, ast.Name) and info[1].func.id in ("isinstance", "callable", "issubclass")):
                    return self.formula(d, info[1], depth - 1)
        return ("atom", self.rd.text(nid, e))

    @staticmethod
    def atoms(f, acc=None) -> list:
        acc = [] if acc is None else acc
        if f[0] == "atom":
            if f[1] not in acc:
                acc.append(f[1])
        elif f[0] == "not":
            Facts.atoms(f[1], acc)
        elif f[0] in ("and", "or"):
            for p in f[1]:
                Facts.atoms(p, acc)
        return acc

    @staticmethod
    def evaluate(f, env: dict) -> bool:
        if f[0] == "const":
            return f[1]
        if f[0] == "atom":
            return env[f[1]]
        if f[0] == "not":
            return not Facts.evaluate(f[1], env)
        if f[0] == "and":
            return all(Facts.evaluate(p, env) for p in f[1])
        return any(Facts.evaluate(p, env) for p in f[1])

    # ------------------------------------------------------------------ constraints
    def constraints_at(self, nid: int, within: list | None = None, avoid: list | None = None) -> list:
        """[(formula, truth)] for every test exactly one of whose outcomes can lead to nid.
        `within`: nodes that delimit the region considered (e.g. a loop head: facts that hold
        in the current iteration)."""
        cfg = self.cfg
        out = []
        avoid_extra = list(within or []) + list(avoid or [])
        for t in cfg.live_nodes():
            if t.kind != "test" or t.id == nid:
                continue
            if t.id in (avoid or []):
                continue
            if within:
                blockers = [t.id] + list(avoid or [])
                if not all(cfg.all_paths_pass(w, [nid], blockers) for w in within if w != nid):
                    continue
            elif not cfg.dominates(t.id, nid):
                continue
            sides = {}
            for lab in ("t", "f"):
                starts = [d for d, l in t.succ if l == lab]
                sides[lab] = bool(starts) and nid in cfg.reach(starts, avoid=[t.id] + [x for x in avoid_extra if x != nid])
            if sides["t"] != sides["f"]:
                out.append((self.formula(t.id, t.ast), sides["t"]))
        return out

    def implied(self, nid: int, expr, truth: bool = True, within: list | None = None, avoid: list | None = None) -> bool:
        cons = self.constraints_at(nid, within, avoid)
        goal = self.formula(nid, expr)
        names: list = []
        for f, _ in cons:
            self.atoms(f, names)
        self.atoms(goal, names)
        if len(names) > MAX_ATOMS:
            # keep only the constraints that share atoms with the goal
            g_atoms = set(self.atoms(goal))
            cons = [(f, tv) for f, tv in cons if set(self.atoms(f)) & g_atoms]
            names = []
            for f, _ in cons:
                self.atoms(f, names)
            self.atoms(goal, names)
            if len(names) > MAX_ATOMS:
                return False
        # background knowledge: None is not an instance of anything but object
        import re as _re

        for a1 in names:
            m1 = _re.match(r"^(.+) is None$", a1)
            if not m1:
                continue
            for a2 in names:
                m2 = _re.match(r"^isinstance\((.+), ([^()]+)\)$", a2)
                if m2 and m2.group(1) == m1.group(1) and m2.group(2) not in ("object", "NoneType", "type(None)"):
                    cons = cons + [(("and", [("atom", a1), ("atom", a2)]), False)]
        any_model = False
        for values in itertools.product((False, True), repeat=len(names)):
            env = dict(zip(names, values))
            if all(self.evaluate(f, env) == tv for f, tv in cons):
                any_model = True
                if self.evaluate(goal, env) != truth:
                    return False
        return any_model

    def possible(self, nid: int, expr, truth: bool = True, within: list | None = None, avoid: list | None = None) -> bool:
        """Is `expr == truth` consistent with what is known at nid?"""
        return not self.implied(nid, expr, not truth, within, avoid)
