"""
Behaviour checks for refactoring 3 (shared registry helpers for conflict detection and
registration, ``_resource_factories`` -> ``_factories`` rename, message formatting).

Passes on the unchanged source and with refactor3.diff applied.
"""

from __future__ import annotations

import sys
from collections.abc import AsyncGenerator
from contextlib import asynccontextmanager
from itertools import count
from typing import Any, List, Union

import pytest
from anyio import create_task_group, wait_all_tasks_blocked
from anyio.abc import TaskStatus

from asphalt.core import (
    AsyncResourceError,
    Context,
    ResourceConflict,
    ResourceEvent,
    ResourceNotFound,
    add_resource,
    add_resource_factory,
    get_resource,
    get_resource_nowait,
    get_resources,
)

if sys.version_info >= (3, 9):
    from typing import Annotated
else:  # pragma: no cover
    from typing_extensions import Annotated

pytestmark = pytest.mark.anyio()


@pytest.fixture
async def context() -> AsyncGenerator[Context, None]:
    async with Context() as ctx:
        yield ctx


@asynccontextmanager
async def record_events(ctx: Context) -> AsyncGenerator[list[ResourceEvent], None]:
    """Collect the ``resource_added`` events dispatched within the block."""
    events: list[ResourceEvent] = []

    async def listen(task_status: TaskStatus[None]) -> None:
        async with ctx.resource_added.stream_events() as stream:
            task_status.started()
            async for event in stream:
                events.append(event)

    async with create_task_group() as tg:
        await tg.start(listen)
        yield events
        await wait_all_tasks_blocked()
        tg.cancel_scope.cancel()


def event_tuple(event: ResourceEvent) -> tuple[Any, ...]:
    return (
        event.resource_types,
        event.resource_name,
        event.resource_description,
        event.is_factory,
    )


class Thing:
    class Inner:
        pass


class EqMeta(type):
    """All classes using this metaclass compare (and hash) equal."""

    def __eq__(cls, other: object) -> bool:
        return isinstance(other, EqMeta)

    def __hash__(cls) -> int:
        return 1


class Left(metaclass=EqMeta):
    pass


class Right(metaclass=EqMeta):
    pass


class OddName(str):
    def __repr__(self) -> str:
        return "<odd>"


UNHASHABLE = Annotated[int, []]


class TestResourceRegistration:
    async def test_registration_and_event(self, context: Context) -> None:
        thing = Thing()
        async with record_events(context) as events:
            context.add_resource(thing, "t", [Thing, object], description="a thing")
            add_resource(thing.Inner(), types=(Thing.Inner,))

        assert context.get_resource_nowait(Thing, "t") is thing
        assert context.get_resource_nowait(object, "t") is thing
        assert await context.get_resource(object, "t") is thing
        assert isinstance(get_resource_nowait(Thing.Inner), Thing.Inner)
        assert [event_tuple(e) for e in events] == [
            ((Thing, object), "t", "a thing", False),
            ((Thing.Inner,), "default", None, False),
        ]
        assert all(e.source is context for e in events)

    async def test_get_resources_order(self, context: Context) -> None:
        context.add_resource(3, "c", [int, float])
        context.add_resource(1, "a")
        context.add_resource(2.5, "b", [float, int])
        assert list(context.get_resources(int).items()) == [
            ("c", 3),
            ("a", 1),
            ("b", 2.5),
        ]
        assert list(get_resources(float).items()) == [("c", 3), ("b", 2.5)]

    async def test_same_type_twice_in_types(self, context: Context) -> None:
        async with record_events(context) as events:
            context.add_resource(1, types=[int, int])

        assert events[0].resource_types == (int, int)
        assert context.get_resources(int) == {"default": 1}

    async def test_conflict_messages(self, context: Context) -> None:
        context.add_resource(Thing.Inner(), "x", [Thing.Inner, Thing])
        context.add_resource(1, "x")
        async with record_events(context) as events:
            with pytest.raises(ResourceConflict) as exc:
                context.add_resource(2, "x", [str, Thing, Thing.Inner, int])

            assert str(exc.value) == (
                f"this context already contains a resource of type "
                f"{__name__}.Thing using the name 'x'"
            )
            assert exc.value.__cause__ is None
            assert exc.value.__context__ is None

            with pytest.raises(ResourceConflict) as exc:
                context.add_resource(2, "x", Thing.Inner)

            assert str(exc.value) == (
                f"this context already contains a resource of type "
                f"{__name__}.Thing.Inner using the name 'x'"
            )

            with pytest.raises(ResourceConflict) as exc:
                context.add_resource(2, "x")

            assert str(exc.value) == (
                "this context already contains a resource of type int using the name "
                "'x'"
            )

        assert events == []
        with pytest.raises(ResourceNotFound):
            context.get_resource_nowait(str, "x")

    async def test_conflict_message_uses_repr_of_name(self, context: Context) -> None:
        context.add_resource(1, "odd")
        with pytest.raises(ResourceConflict) as exc:
            context.add_resource(2, OddName("odd"))

        assert str(exc.value).endswith("of type int using the name <odd>")

    async def test_conflict_message_with_braces(self, context: Context) -> None:
        Braces = type("{Weird}{0}", (), {"__module__": "{mod}"})
        context.add_resource(Braces())
        with pytest.raises(ResourceConflict) as exc:
            context.add_resource(Braces())

        assert str(exc.value) == (
            "this context already contains a resource of type {mod}.{Weird}{0} using "
            "the name 'default'"
        )
        context.add_resource_factory(lambda: 1, types=Braces)
        with pytest.raises(ResourceConflict) as exc:
            context.add_resource_factory(lambda: 1, types=Braces)

        assert str(exc.value) == (
            "this context already contains a resource factory for the type "
            "{mod}.{Weird}{0}"
        )

    async def test_conflict_names_the_new_type(self, context: Context) -> None:
        context.add_resource(1, types=Left)
        with pytest.raises(ResourceConflict) as exc:
            context.add_resource(2, types=[str, Right])

        assert str(exc.value) == (
            f"this context already contains a resource of type {__name__}.Right "
            f"using the name 'default'"
        )
        assert context.get_resource_nowait(Right) == 1
        assert context.get_resource_nowait(str, optional=True) is None

        context.add_resource_factory(lambda: 1, types=Left)
        with pytest.raises(ResourceConflict) as exc:
            context.add_resource_factory(lambda: 2, types=[str, Right])

        assert str(exc.value) == (
            f"this context already contains a resource factory for the type "
            f"{__name__}.Right"
        )

    async def test_unhashable_type(self) -> None:
        calls: list[str] = []
        async with Context() as ctx:
            async with record_events(ctx) as events:
                with pytest.raises(TypeError, match="unhashable type"):
                    ctx.add_resource(
                        1,
                        types=[int, UNHASHABLE],
                        teardown_callback=lambda: calls.append("teardown"),
                    )

                with pytest.raises(TypeError, match="unhashable type"):
                    ctx.add_resource_factory(lambda: 1, types=[float, UNHASHABLE])

            assert events == []
            assert ctx.get_resource_nowait(int, optional=True) is None
            assert ctx.get_resource_nowait(float, optional=True) is None

        assert calls == []

    async def test_teardown_callback_registered_before_resource(
        self, context: Context
    ) -> None:
        with pytest.raises(TypeError, match="callback must be a callable"):
            context.add_resource(1, teardown_callback=object())  # type: ignore[arg-type]

        assert context.get_resource_nowait(int, optional=True) is None
        # The name is still free
        context.add_resource(2)
        assert context.get_resource_nowait(int) == 2

    async def test_teardown_callbacks_run_in_reverse(self) -> None:
        calls: list[int] = []

        async def async_callback() -> None:
            calls.append(2)

        async with Context() as ctx:
            ctx.add_resource("a", "a", teardown_callback=lambda: calls.append(1))
            ctx.add_resource("b", "b", teardown_callback=async_callback)
            ctx.add_resource("c", "c")
            ctx.add_resource("d", "d", teardown_callback=lambda: calls.append(4))

        assert calls == [4, 2, 1]


class TestFactoryRegistration:
    async def test_registration_and_event(self, context: Context) -> None:
        counter = count(1)

        def factory() -> Union[int, float]:
            return next(counter)

        async with record_events(context) as events:
            context.add_resource_factory(factory, "f", description="counter")
            add_resource_factory(lambda: "s", types=[str])
            assert context.get_resource_nowait(float, "f") == 1
            assert await context.get_resource(int, "f") == 1
            assert await get_resource(str) == "s"

        assert [event_tuple(e) for e in events] == [
            ((int, float), "f", "counter", True),
            ((str,), "default", None, True),
            ((int, float), "f", "counter", False),
            ((str,), "default", None, False),
        ]

    async def test_conflicts(self, context: Context) -> None:
        context.add_resource_factory(lambda: 1, "n", types=[int, Thing])
        async with record_events(context) as events:
            with pytest.raises(ResourceConflict) as exc:
                context.add_resource_factory(lambda: 2, "n", types=[str, Thing, int])

            assert str(exc.value) == (
                f"this context already contains a resource factory for the type "
                f"{__name__}.Thing"
            )
            assert exc.value.__cause__ is None
            assert exc.value.__context__ is None

            with pytest.raises(ResourceConflict) as exc:
                context.add_resource_factory(lambda: 2, "n", types=int)

            assert str(exc.value) == (
                "this context already contains a resource factory for the type int"
            )

        assert events == []
        assert context.get_resource_nowait(str, "n", optional=True) is None
        assert context.get_resource_nowait(int, "n") == 1

    async def test_conflict_with_instance_as_type(self, context: Context) -> None:
        # Factory types are not validated; qualified_name() falls back to the class
        context.add_resource_factory(lambda: 1, types=["a", "b"])
        with pytest.raises(ResourceConflict) as exc:
            context.add_resource_factory(lambda: 1, types="b")

        assert str(exc.value) == (
            "this context already contains a resource factory for the type str"
        )

    async def test_resource_does_not_conflict_with_factory(
        self, context: Context
    ) -> None:
        context.add_resource_factory(lambda: 1, types=int)
        context.add_resource(2)
        assert context.get_resource_nowait(int) == 2

    async def test_generated_resource_conflicts_with_new_resource(
        self, context: Context
    ) -> None:
        context.add_resource_factory(lambda: 1, types=[int, float])
        assert context.get_resource_nowait(int) == 1
        with pytest.raises(ResourceConflict, match="of type float using the name"):
            context.add_resource(2.5)

    async def test_child_contexts(self, context: Context) -> None:
        counter = count(1)
        context.add_resource_factory(lambda: next(counter), types=int)
        context.add_resource("static")
        assert context.get_resource_nowait(int) == 1
        async with Context() as child:
            # Factories and static resources are inherited, generated ones are not
            assert child.get_resource_nowait(str) == "static"
            assert child.get_resource_nowait(int) == 2
            assert await child.get_resource(int) == 2
            child.add_resource_factory(lambda: b"x", types=bytes)
            with pytest.raises(ResourceConflict):
                child.add_resource_factory(lambda: 0, types=[bytes])

            with pytest.raises(ResourceConflict):
                child.add_resource_factory(lambda: 0, types=[int])

            async with Context() as grandchild:
                assert grandchild.get_resource_nowait(bytes) == b"x"
                assert await grandchild.get_resource(int) == 3

        # The child's factory did not leak to the parent
        assert await context.get_resource(bytes, optional=True) is None
        context.add_resource_factory(lambda: b"y", types=bytes)
        assert await context.get_resource(bytes) == b"y"
        assert context.get_resource_nowait(int) == 1

    async def test_async_factory(self, context: Context) -> None:
        async def factory() -> List[int]:
            return [1]

        context.add_resource_factory(factory)
        with pytest.raises(AsyncResourceError):
            context.get_resource_nowait(List[int])  # type: ignore[arg-type]

        first = await context.get_resource(List[int])  # type: ignore[arg-type]
        assert first == [1]
        assert context.get_resource_nowait(List[int]) is first  # type: ignore[arg-type]

    async def test_none_type_and_bad_name(self, context: Context) -> None:
        with pytest.raises(TypeError, match="None is not a valid resource type"):
            context.add_resource_factory(lambda: 1, types=[int, None])  # type: ignore[list-item]

        with pytest.raises(ValueError, match='"name" must be a nonempty string'):
            context.add_resource_factory(lambda: 1, "", types=[int, None])  # type: ignore[list-item]

        context.add_resource_factory(lambda: 1, types=[int])
        assert context.get_resource_nowait(int) == 1

    async def test_state_errors(self) -> None:
        ctx = Context()
        with pytest.raises(RuntimeError, match="has not been entered yet"):
            ctx.add_resource_factory(lambda: 1, types=int)

        seen: list[str] = []

        def callback() -> None:
            ctx.add_resource(1, "late")
            seen.append(str(ctx.get_resource_nowait(int, "late")))
            try:
                ctx.add_resource_factory(lambda: 1, types=int)
            except RuntimeError as exc:
                seen.append(str(exc))

        async with ctx:
            ctx.add_teardown_callback(callback)

        assert seen == ["1", "this context is being torn down"]
        with pytest.raises(RuntimeError, match="has already been closed"):
            ctx.add_resource(1)
