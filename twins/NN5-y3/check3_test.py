"""
Behaviour checks for refactoring 3 (teardown action validation moved to
``_concurrent.check_teardown_action``; the teardown closure of
``Context.start_service_task`` rewritten with separate ``except Exception`` /
``except BaseException`` clauses, a walrus assignment, renamed locals and hoisted name
constants).

The checks concentrate on the validation matrix, on how exceptions raised by teardown
actions are classified, and on the task names derived from the hoisted constants. Public
API only; must pass on both the unchanged and the refactored source.
"""

from __future__ import annotations

import logging
import sys
from functools import partial
from typing import Any

import anyio
import pytest
from anyio import fail_after, get_current_task
from anyio.abc import TaskStatus
from pytest import LogCaptureFixture

from asphalt.core import (
    Component,
    Context,
    add_teardown_callback,
    callable_name,
    start_background_task_factory,
    start_component,
    start_service_task,
)

if sys.version_info < (3, 11):
    from exceptiongroup import BaseExceptionGroup, ExceptionGroup

pytestmark = pytest.mark.anyio()

BAD_ACTION_MESSAGE = "teardown_action must be a callable, None, or the string 'cancel'"


def core_records(caplog: LogCaptureFixture) -> list[logging.LogRecord]:
    return [rec for rec in caplog.records if rec.name == "asphalt.core"]


def core_messages(caplog: LogCaptureFixture) -> list[str]:
    return [rec.getMessage() for rec in core_records(caplog)]


class FatalSignal(BaseException):
    pass


class Recorder:
    """A service + teardown action pair that records what happens to it."""

    def __init__(self) -> None:
        self.events: list[str] = []
        self.finish = anyio.Event()

    async def run(self) -> None:
        self.events.append("started")
        try:
            await self.finish.wait()
        except BaseException:
            self.events.append("cancelled")
            raise
        else:
            self.events.append("finished")

    def make_action(self, exc: BaseException | None, is_async: bool) -> Any:
        def sync_action() -> None:
            self.events.append("action")
            if exc is not None:
                raise exc

            self.finish.set()

        async def async_action() -> None:
            self.events.append("action")
            await anyio.sleep(0)
            if exc is not None:
                raise exc

            self.finish.set()

        return async_action if is_async else sync_action


class NoisyEq:
    """A callable that records every comparison made against it."""

    def __init__(self, log: list[str], stop: Any) -> None:
        self.log = log
        self.stop = stop

    def __eq__(self, other: object) -> bool:
        self.log.append(f"eq {other!r}")
        return NotImplemented

    def __ne__(self, other: object) -> bool:
        self.log.append(f"ne {other!r}")
        return NotImplemented

    __hash__ = object.__hash__

    def __call__(self) -> None:
        self.log.append("called")
        self.stop()


@pytest.mark.parametrize(
    "action",
    [
        pytest.param("cancel", id="cancel"),
        pytest.param(None, id="none"),
        pytest.param(lambda: None, id="lambda"),
        pytest.param(list, id="builtin_class"),
        pytest.param(partial(int, "5"), id="partial"),
        pytest.param(print, id="builtin_function"),
    ],
)
async def test_valid_teardown_actions_are_accepted(action: Any) -> None:
    async def service(*, task_status: TaskStatus[int]) -> None:
        task_status.started(7)

    with fail_after(3):
        async with Context() as ctx:
            assert (
                await ctx.start_service_task(service, "svc", teardown_action=action)
                == 7
            )
            await anyio.sleep(0.05)


@pytest.mark.parametrize(
    "action",
    [
        pytest.param("cancel ", id="trailing_space"),
        pytest.param(b"cancel", id="bytes"),
        pytest.param("none", id="none_string"),
        pytest.param(1.5, id="float"),
        pytest.param(True, id="true"),
        pytest.param([], id="empty_list"),
        pytest.param({"cancel"}, id="set"),
        pytest.param(NotImplemented, id="notimplemented"),
    ],
)
async def test_invalid_teardown_actions_are_rejected(
    action: Any, caplog: LogCaptureFixture
) -> None:
    caplog.set_level(logging.DEBUG, "asphalt.core")
    calls: list[str] = []

    async def service() -> None:
        calls.append("service")

    with fail_after(3):
        async with Context() as ctx:
            add_teardown_callback(lambda: calls.append("teardown"))
            for starter in (start_service_task, ctx.start_service_task):
                with pytest.raises(ValueError) as exc_info:
                    await starter(service, "svc", teardown_action=action)

                assert type(exc_info.value) is ValueError
                assert exc_info.value.args == (BAD_ACTION_MESSAGE,)

            await anyio.sleep(0.05)

    assert calls == ["teardown"]
    assert core_messages(caplog) == []


async def test_service_tasks_started_from_a_component(
    caplog: LogCaptureFixture,
) -> None:
    caplog.set_level(logging.DEBUG, "asphalt.core")
    events: list[str] = []
    finish = anyio.Event()

    async def service() -> None:
        await finish.wait()
        events.append("service finished")

    class ServiceComponent(Component):
        async def start(self) -> None:
            with pytest.raises(ValueError) as exc_info:
                await start_service_task(service, "bad", teardown_action=3)  # type: ignore[arg-type]

            assert str(exc_info.value) == BAD_ACTION_MESSAGE
            await start_service_task(service, "good", teardown_action=finish.set)

    with fail_after(3):
        async with Context():
            await start_component(ServiceComponent)
            events.append("component started")

    assert events == ["component started", "service finished"]
    messages = core_messages(caplog)
    assert "The root component started a service task (good)" in messages
    assert "The root component started a service task (bad)" not in messages
    assert "Background task (Service task: bad) starting" not in messages
    assert messages[-4:] == [
        f"Calling teardown callback ({callable_name(finish.set)}) for service task "
        f"'good'",
        "Waiting for service task 'good' to finish",
        "Background task (Service task: good) finished successfully",
        "Service task 'good' finished",
    ]


async def test_comparisons_made_against_a_callable_action() -> None:
    log: list[str] = []
    finish = anyio.Event()
    action = NoisyEq(log, finish.set)

    async def service(*, task_status: TaskStatus[None]) -> None:
        task_status.started()
        log.append("service started")
        await finish.wait()
        log.append("service finished")

    with fail_after(3):
        async with Context():
            await start_service_task(service, "svc", teardown_action=action)
            log.append("body done")

    # Exactly one "!=" at validation time and one "==" at teardown time
    assert log == [
        "ne 'cancel'",
        "service started",
        "body done",
        "eq 'cancel'",
        "called",
        "service finished",
    ]


@pytest.mark.parametrize("is_async", [False, True], ids=["sync", "async"])
@pytest.mark.parametrize(
    "exc_factory",
    [
        pytest.param(lambda: ValueError("bad value"), id="ValueError"),
        pytest.param(lambda: OSError(5, "io"), id="OSError"),
        pytest.param(lambda: StopIteration("odd"), id="StopIteration"),
        pytest.param(lambda: StopAsyncIteration("odd"), id="StopAsyncIteration"),
        pytest.param(lambda: AssertionError(), id="AssertionError"),
        pytest.param(
            lambda: ExceptionGroup("grp", [KeyError("k"), TypeError("t")]),
            id="ExceptionGroup",
        ),
    ],
)
async def test_exception_from_action_is_logged_and_task_cancelled(
    exc_factory: Any, is_async: bool, caplog: LogCaptureFixture
) -> None:
    caplog.set_level(logging.DEBUG, "asphalt.core")
    recorder = Recorder()
    error = exc_factory()
    action = recorder.make_action(error, is_async)
    with fail_after(3):
        async with Context():
            add_teardown_callback(lambda: recorder.events.append("earlier callback"))
            await start_service_task(recorder.run, "svc", teardown_action=action)

    assert recorder.events == ["started", "action", "cancelled", "earlier callback"]
    name = callable_name(action)
    assert core_messages(caplog) == [
        "Background task (Service task: svc) starting",
        f"Calling teardown callback ({name}) for service task 'svc'",
        f"Error calling teardown callback ({name}) for service task 'svc'",
        "Waiting for service task 'svc' to finish",
        "Background task (Service task: svc) finished successfully",
        "Service task 'svc' finished",
    ]
    record = core_records(caplog)[2]
    assert record.levelno == logging.ERROR
    assert record.exc_info is not None
    logged = record.exc_info[1]
    if is_async and isinstance(error, StopIteration):
        # PEP 479: StopIteration cannot escape a coroutine
        assert isinstance(logged, RuntimeError)
        assert logged.__cause__ is error
    else:
        assert logged is error


@pytest.mark.parametrize("is_async", [False, True], ids=["sync", "async"])
@pytest.mark.parametrize(
    "exc_factory",
    [
        pytest.param(lambda: FatalSignal("fatal"), id="custom"),
        pytest.param(lambda: KeyboardInterrupt(), id="KeyboardInterrupt"),
        pytest.param(lambda: SystemExit(3), id="SystemExit"),
        pytest.param(lambda: GeneratorExit(), id="GeneratorExit"),
        pytest.param(
            lambda: BaseExceptionGroup("grp", [FatalSignal("x"), ValueError("y")]),
            id="BaseExceptionGroup",
        ),
    ],
)
async def test_base_exception_from_action_is_swallowed_silently(
    exc_factory: Any, is_async: bool, caplog: LogCaptureFixture
) -> None:
    caplog.set_level(logging.DEBUG, "asphalt.core")
    recorder = Recorder()
    error = exc_factory()
    action = recorder.make_action(error, is_async)
    with fail_after(3):
        async with Context():
            add_teardown_callback(lambda: recorder.events.append("earlier callback"))
            await start_service_task(recorder.run, "svc", teardown_action=action)

    assert recorder.events == ["started", "action", "cancelled", "earlier callback"]
    name = callable_name(action)
    assert core_messages(caplog) == [
        "Background task (Service task: svc) starting",
        f"Calling teardown callback ({name}) for service task 'svc'",
        "Waiting for service task 'svc' to finish",
        "Background task (Service task: svc) finished successfully",
        "Service task 'svc' finished",
    ]
    assert all(rec.levelno == logging.DEBUG for rec in core_records(caplog))


@pytest.mark.parametrize("is_async", [False, True], ids=["sync", "async"])
async def test_successful_action_does_not_cancel(
    is_async: bool, caplog: LogCaptureFixture
) -> None:
    caplog.set_level(logging.DEBUG, "asphalt.core")
    recorder = Recorder()
    action = recorder.make_action(None, is_async)
    with fail_after(3):
        async with Context():
            assert (
                await start_service_task(recorder.run, "svc", teardown_action=action)
                is None
            )

    assert recorder.events == ["started", "action", "finished"]
    assert [rec.levelno for rec in core_records(caplog)] == [logging.DEBUG] * 5


async def test_falsy_and_awaitable_return_values_of_action() -> None:
    """The return value is only awaited when it is awaitable; it is never truth-tested."""
    events: list[str] = []

    class Weird:
        def __bool__(self) -> bool:
            events.append("bool() called")
            raise AssertionError("must not be truth-tested")

    finish = anyio.Event()

    async def service() -> None:
        await finish.wait()
        events.append("service finished")

    def action() -> Weird:
        finish.set()
        return Weird()

    with fail_after(3):
        async with Context():
            await start_service_task(service, "svc", teardown_action=action)

    assert events == ["service finished"]


async def test_task_names_and_non_string_service_name(
    caplog: LogCaptureFixture,
) -> None:
    caplog.set_level(logging.DEBUG, "asphalt.core")
    names: list[str | None] = []

    class Label:
        def __format__(self, spec: str) -> str:
            return f"formatted[{spec}]"

        def __str__(self) -> str:
            return "stringified"

        def __repr__(self) -> str:
            return "<Label>"

    async def service() -> None:
        names.append(get_current_task().name)
        await anyio.sleep_forever()

    with fail_after(3):
        async with Context():
            await start_service_task(service, "plain")
            await start_service_task(service, "")
            await start_service_task(service, "{braces} %s")
            await start_service_task(service, Label())  # type: ignore[arg-type]

    assert names == [
        "Service task: plain",
        "Service task: ",
        "Service task: {braces} %s",
        "Service task: formatted[]",
    ]
    messages = core_messages(caplog)
    assert "Cancelling service task '{braces} %s'" in messages
    assert "Cancelling service task <Label>" in messages
    assert "Service task <Label> finished" in messages


async def test_background_task_factory_name(caplog: LogCaptureFixture) -> None:
    caplog.set_level(logging.DEBUG, "asphalt.core")
    task_names: list[str | None] = []

    async def job() -> None:
        task_names.append(get_current_task().name)

    with fail_after(3):
        async with Context() as ctx:
            factory1 = await start_background_task_factory()
            factory2 = await ctx.start_background_task_factory(
                exception_handler=lambda exc: True
            )
            handle = await factory1.start_task(job)
            await handle.wait_finished()
            handle = await factory2.start_task(job, "named job")
            await handle.wait_finished()

    assert task_names == [callable_name(job), "named job"]
    messages = core_messages(caplog)
    for factory in (factory1, factory2):
        name = "Background task factory (" + hex(id(factory))[2:] + ")"
        assert f"Background task (Service task: {name}) starting" in messages
        assert f"Service task '{name}' finished" in messages

    # The second factory is shut down first
    finished = [msg for msg in messages if msg.startswith("Service task '")]
    assert finished == [
        f"Service task 'Background task factory ({id(factory2):x})' finished",
        f"Service task 'Background task factory ({id(factory1):x})' finished",
    ]


async def test_teardown_action_name_lookup_failure_propagates(
    caplog: LogCaptureFixture,
) -> None:
    """
    If the name of the teardown action cannot be determined, the error escapes from the
    teardown callback (the action is never called and the task is not waited for).
    """
    caplog.set_level(logging.DEBUG, "asphalt.core")
    calls: list[str] = []

    class Unnameable:
        def __call__(self) -> None:
            calls.append("called")

        def __getattr__(self, name: str) -> Any:
            if name == "__qualname__":
                raise ZeroDivisionError("no name for you")

            raise AttributeError(name)

    action = Unnameable()

    async def service() -> None:
        await anyio.sleep_forever()

    with fail_after(3):
        with pytest.raises(BaseException) as exc_info:
            async with Context():
                await start_service_task(service, "svc", teardown_action=action)

    exc: BaseException = exc_info.value
    while isinstance(exc, BaseExceptionGroup):
        assert len(exc.exceptions) == 1
        exc = exc.exceptions[0]

    assert isinstance(exc, ZeroDivisionError)
    assert calls == []
    assert "Waiting for service task 'svc' to finish" not in core_messages(caplog)
