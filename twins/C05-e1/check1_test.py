"""
Property check C05 (component trees start in order: construct all, prepare, children,
then start), exercised through the public API only.

Must pass both on the unchanged source and with refactor1.diff applied.

Scenario focus of this file: startup with the timeout watcher active (the default, an
explicit generous one) and disabled, while the phases take different amounts of time.
"""

from __future__ import annotations

from typing import Any

import anyio
import pytest
from anyio import fail_after, sleep

from asphalt.core import (
    Component,
    Context,
    add_resource,
    add_resource_factory,
    add_teardown_callback,
    get_resource,
    get_resource_nowait,
    start_component,
    start_service_task,
)

pytestmark = pytest.mark.anyio


@pytest.fixture(params=["asyncio", "trio"])
def anyio_backend(request: pytest.FixtureRequest) -> str:
    return request.param


# --------------------------------------------------------------------------------------
# Harness: a configurable component tree that records everything that happens
# --------------------------------------------------------------------------------------

EVENTS: list[tuple[str, str]] = []
TORN_DOWN: list[str] = []


class _Base(Component):
    """
    Configuration keys:

    label       unique name of the node (used in the recorded events)
    children    {alias: spec}
    prepare_delay / start_delay         seconds to sleep in the phase
    prepare_provides / start_provides   names of str resources added in the phase
    prepare_needs / start_needs         names of str resources awaited first in the phase
    prepare_needs_late / start_needs_late   ... awaited after providing its own
    prepare_teardown / start_teardown   register a teardown callback in the phase
    barrier     name of a rendezvous that all siblings sharing it must have reached in
                start() before any of them may continue (proves concurrency)
    """

    def __init__(self, label: str, **spec: Any) -> None:
        self.label = label
        self.spec = spec
        EVENTS.append(("init", label))
        for alias, child_spec in spec.get("children", {}).items():
            self.add_component(alias, **child_spec)

    async def _phase(self, phase: str) -> None:
        EVENTS.append((f"{phase}>", self.label))
        for name in self.spec.get(f"{phase}_needs", ()):
            value = await get_resource(str, name)
            assert value == f"res:{name}"

        delay = self.spec.get(f"{phase}_delay")
        if delay is not None:
            await sleep(delay)

        for name in self.spec.get(f"{phase}_provides", ()):
            add_resource(f"res:{name}", name)

        if phase == "start" and (barrier := self.spec.get("barrier")):
            await BARRIERS[barrier].arrive()

        for name in self.spec.get(f"{phase}_needs_late", ()):
            value = await get_resource(str, name)
            assert value == f"res:{name}"

        if self.spec.get(f"{phase}_teardown"):
            label = self.label
            add_teardown_callback(lambda: TORN_DOWN.append(f"{label}:{phase}"))

        EVENTS.append((f"{phase}<", self.label))


class NodePS(_Base):
    async def prepare(self) -> None:
        await self._phase("prepare")

    async def start(self) -> None:
        await self._phase("start")


class NodeP(_Base):
    async def prepare(self) -> None:
        await self._phase("prepare")


class NodeS(_Base):
    async def start(self) -> None:
        await self._phase("start")


class NodeNone(_Base):
    pass


class Barrier:
    def __init__(self, parties: int) -> None:
        self.parties = parties
        self.arrived = 0
        self.event = anyio.Event()

    async def arrive(self) -> None:
        self.arrived += 1
        if self.arrived == self.parties:
            self.event.set()

        await self.event.wait()


BARRIERS: dict[str, Barrier] = {}


def node(cls: type[_Base], label: str, **spec: Any) -> dict[str, Any]:
    return {"type": cls, "label": label, **spec}


def walk(spec: dict[str, Any]) -> list[dict[str, Any]]:
    found = [spec]
    for child in spec.get("children", {}).values():
        found.extend(walk(child))

    return found


def descendants(spec: dict[str, Any]) -> list[dict[str, Any]]:
    return walk(spec)[1:]


def has(spec: dict[str, Any], phase: str) -> bool:
    return getattr(spec["type"], phase) is not getattr(Component, phase)


def verify_order(root_spec: dict[str, Any], events: list[tuple[str, str]]) -> None:
    nodes = walk(root_spec)
    labels = [n["label"] for n in nodes]
    assert len(set(labels)) == len(labels)

    # The whole hierarchy is instantiated (each component once) before any prepare() or
    # start() runs
    assert sorted(e[1] for e in events[: len(nodes)]) == sorted(labels)
    assert all(e[0] == "init" for e in events[: len(nodes)])
    assert all(e[0] != "init" for e in events[len(nodes) :])

    # Each method exactly once (and never if not implemented)
    for n in nodes:
        for phase in ("prepare", "start"):
            expected = 1 if has(n, phase) else 0
            assert events.count((f"{phase}>", n["label"])) == expected
            assert events.count((f"{phase}<", n["label"])) == expected

    def index(kind: str, label: str) -> int:
        return events.index((kind, label))

    def first_activity(label: str) -> int | None:
        for i, (kind, lbl) in enumerate(events):
            if lbl == label and kind != "init":
                return i

        return None

    for n in nodes:
        if has(n, "prepare") and has(n, "start"):
            assert index("prepare<", n["label"]) < index("start>", n["label"])

        for d in descendants(n):
            # prepare() completes before any of the children (descendants) begin
            if has(n, "prepare") and (first := first_activity(d["label"])) is not None:
                assert index("prepare<", n["label"]) < first

            # start() is called only after the start() (and prepare()) of every
            # descendant has returned
            if has(n, "start"):
                for phase in ("prepare", "start"):
                    if has(d, phase):
                        assert index(f"{phase}<", d["label"]) < index(
                            "start>", n["label"]
                        )


async def run_tree(root_spec: dict[str, Any], **kwargs: Any) -> Component:
    """Start the tree, check the return value and the ordering, return the root."""
    config = {k: v for k, v in root_spec.items() if k != "type"}
    with fail_after(10):
        root = await start_component(root_spec["type"], config, **kwargs)

    assert type(root) is root_spec["type"]
    assert isinstance(root, _Base) and root.label == root_spec["label"]
    if has(root_spec, "start"):
        # start_component() returns only after the root's start() has returned
        assert EVENTS[-1] == ("start<", root_spec["label"])

    verify_order(root_spec, list(EVENTS))
    return root


@pytest.fixture(autouse=True)
def reset() -> None:
    EVENTS.clear()
    TORN_DOWN.clear()
    BARRIERS.clear()


# --------------------------------------------------------------------------------------
# Scenarios
# --------------------------------------------------------------------------------------


def three_level_tree() -> dict[str, Any]:
    return node(
        NodePS,
        "root",
        prepare_provides=["from_root_prepare"],
        prepare_delay=0.02,
        start_needs=["a_out", "b_out", "c1_out"],
        start_provides=["root_out"],
        children={
            "a": node(
                NodePS,
                "a",
                prepare_needs=["from_root_prepare"],
                prepare_delay=0.03,
                start_needs=["b_out"],  # waits for its sibling
                start_provides=["a_out"],
                start_teardown=True,
                children={
                    "a1": node(NodeS, "a1", start_delay=0.02, barrier="a-kids"),
                    "a2": node(NodePS, "a2", prepare_delay=0.01, barrier="a-kids"),
                    "a3": node(NodeNone, "a3"),
                },
            ),
            "b": node(
                NodeS,
                "b",
                start_delay=0.01,
                start_provides=["b_out"],
                start_needs_late=["c1_out"],  # waits for its nephew
            ),
            "c": node(
                NodeP,
                "c",
                prepare_provides=["c_prepared"],
                prepare_teardown=True,
                children={
                    "c1": node(
                        NodePS,
                        "c1",
                        prepare_needs=["c_prepared"],
                        start_delay=0.04,
                        start_provides=["c1_out"],
                    )
                },
            ),
        },
    )


@pytest.mark.parametrize(
    "kwargs",
    [
        pytest.param({}, id="default-timeout"),
        pytest.param({"timeout": 8}, id="timeout-8"),
        pytest.param({"timeout": 7.5}, id="timeout-float"),
        pytest.param({"timeout": None}, id="no-timeout"),
    ],
)
async def test_three_level_tree(kwargs: dict[str, Any]) -> None:
    BARRIERS["a-kids"] = Barrier(2)
    spec = three_level_tree()
    async with Context() as ctx:
        await run_tree(spec, **kwargs)

        # Everything the components registered is visible in the caller's context
        for name in (
            "from_root_prepare",
            "a_out",
            "b_out",
            "c_prepared",
            "c1_out",
            "root_out",
        ):
            assert get_resource_nowait(str, name) == f"res:{name}"
            assert ctx.get_resource_nowait(str, name) == f"res:{name}"

        # ...and is not torn down before that context is left
        assert TORN_DOWN == []

    assert sorted(TORN_DOWN) == ["a:start", "c:prepare"]


@pytest.mark.parametrize("timeout", [None, 9], ids=["no-timeout", "timeout-9"])
async def test_siblings_start_concurrently(timeout: float | None) -> None:
    """
    All children of a component must be in start() at the same time: each of the five
    siblings blocks until all five have arrived, and they depend on each other's
    resources in a chain that runs against the declaration order.
    """
    fanout = 5
    BARRIERS["kids"] = Barrier(fanout)
    children = {}
    for i in range(fanout):
        spec: dict[str, Any] = {"barrier": "kids", "start_provides": [f"r{i}"]}
        if i < fanout - 1:
            spec["start_needs_late"] = [f"r{i + 1}"]

        if i % 2:
            spec["start_delay"] = 0.01 * i

        children[f"kid{i}"] = node(NodeS if i % 2 else NodePS, f"kid{i}", **spec)

    root_spec = node(NodeS, "root", start_needs=["r0"], children=children)
    async with Context():
        await run_tree(root_spec, timeout=timeout)
        assert BARRIERS["kids"].arrived == fanout
        starts = [e for e in EVENTS if e[0] == "start>" and e[1].startswith("kid")]
        ends = [e for e in EVENTS if e[0] == "start<" and e[1].startswith("kid")]
        # every sibling entered start() before any sibling left it
        assert max(EVENTS.index(e) for e in starts) < min(
            EVENTS.index(e) for e in ends
        )


async def test_registrations_belong_to_callers_context() -> None:
    stopped: list[str] = []

    class Registrar(Component):
        def __init__(self, tag: str, nested: bool = False) -> None:
            self.tag = tag
            if nested:
                self.add_component("inner", Registrar, tag=f"{tag}_inner")

        async def prepare(self) -> None:
            add_resource(f"prepared {self.tag}", f"{self.tag}_prepared")

        async def start(self) -> None:
            tag = self.tag

            def factory() -> int:
                return len(tag)

            async def service(*, task_status: Any) -> None:
                task_status.started()
                try:
                    await anyio.sleep_forever()
                finally:
                    stopped.append(tag)

            add_resource_factory(factory, f"{tag}_factory", types=[int])
            add_teardown_callback(lambda: TORN_DOWN.append(tag))
            await start_service_task(service, f"service of {tag}")

    class Top(Component):
        def __init__(self) -> None:
            self.add_component("x", Registrar, tag="x", nested=True)
            self.add_component("y", Registrar, tag="y")

    async with Context() as outer:
        async with Context() as ctx:
            with fail_after(10):
                root = await start_component(Top)

            assert type(root) is Top
            for tag in ("x", "x_inner", "y"):
                assert ctx.get_resource_nowait(str, f"{tag}_prepared") == (
                    f"prepared {tag}"
                )
                assert ctx.get_resource_nowait(int, f"{tag}_factory") == len(tag)

            await sleep(0.02)
            assert TORN_DOWN == [] and stopped == []

        # Torn down with the context that was current during start_component()...
        assert sorted(TORN_DOWN) == ["x", "x_inner", "y"]
        assert sorted(stopped) == ["x", "x_inner", "y"]
        # ...and nothing leaked into the surrounding context
        assert outer.get_resource_nowait(str, "x_prepared", optional=True) is None


async def test_slow_prepare_holds_back_children() -> None:
    spec = node(
        NodeP,
        "root",
        prepare_delay=0.1,
        children={
            "only": node(
                NodePS,
                "only",
                children={"leaf": node(NodeS, "leaf", start_delay=0.05)},
            ),
        },
    )
    async with Context():
        await run_tree(spec)
        assert EVENTS[3:] == [
            ("prepare>", "root"),
            ("prepare<", "root"),
            ("prepare>", "only"),
            ("prepare<", "only"),
            ("start>", "leaf"),
            ("start<", "leaf"),
            ("start>", "only"),
            ("start<", "only"),
        ]
