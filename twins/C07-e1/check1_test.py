"""
Property C07 checks, focused on start_component() and the way it handles its
``timeout`` argument (int / float / None) together with failures in each phase.

Must pass both on the unchanged source and with refactor1.diff applied.
"""

from __future__ import annotations

from typing import Any

import pytest
from anyio import sleep

from asphalt.core import (
    Component,
    ComponentStartError,
    Context,
    add_resource,
    add_teardown_callback,
    get_resource_nowait,
    start_component,
)

pytestmark = pytest.mark.anyio


@pytest.fixture
def anyio_backend() -> str:
    return "asyncio"


class Boom(Exception):
    pass


def make_tree(events: list[str], fail_path: str | None, fail_phase: str | None) -> type:
    """
    Build a three level tree:

        (root) -> a -> a.x, a.y
               -> b

    Every component records what happens to it in ``events``.
    """

    class Node(Component):
        def __init__(self, path: str = "", children: Any = None, delay: float = 0.0):
            self.path = path
            self.delay = delay
            events.append(f"create:{path}")
            if fail_phase == "creating" and fail_path == path:
                raise Boom(path)

            for alias, child_conf in (children or {}).items():
                child_path = f"{path}.{alias}" if path else alias
                self.add_component(alias, Node, path=child_path, **child_conf)

        async def prepare(self) -> None:
            events.append(f"prepare:{self.path}")
            add_resource(f"res-{self.path}", f"prep_{self.path.replace('.', '_')}")
            add_teardown_callback(
                lambda: events.append(f"teardown-prepare:{self.path}")
            )
            if fail_phase == "preparing" and fail_path == self.path:
                raise Boom(self.path)

        async def start(self) -> None:
            events.append(f"start:{self.path}")
            add_teardown_callback(lambda: events.append(f"teardown-start:{self.path}"))
            try:
                await sleep(self.delay)
            except BaseException:
                events.append(f"cancelled:{self.path}")
                raise

            if fail_phase == "starting" and fail_path == self.path:
                raise Boom(self.path)

            events.append(f"started:{self.path}")

    return Node


TREE_CONFIG: dict[str, Any] = {
    "children": {
        "a": {
            "children": {
                "x": {"delay": 0.05},
                "y": {"delay": 0.3},
            }
        },
        "b": {"delay": 0.3},
    }
}


def ancestors(path: str) -> list[str]:
    parts = path.split(".") if path else []
    return [".".join(parts[:i]) for i in range(len(parts))]


@pytest.mark.parametrize("timeout", [None, 20, 5.5], ids=["none", "int", "float"])
@pytest.mark.parametrize(
    "fail_path, fail_phase",
    [
        ("a.x", "starting"),
        ("a.x", "preparing"),
        ("a", "preparing"),
        ("a", "starting"),
        ("a.y", "creating"),
        ("", "preparing"),
        ("", "starting"),
        ("b", "creating"),
    ],
)
async def test_single_failure(
    timeout: float | None, fail_path: str, fail_phase: str
) -> None:
    events: list[str] = []
    node_class = make_tree(events, fail_path, fail_phase)
    outer_teardown: list[str] = []
    async with Context():
        add_teardown_callback(lambda: outer_teardown.append("outer-first"))
        with pytest.raises(ComponentStartError) as exc_info:
            await start_component(node_class, dict(TREE_CONFIG), timeout=timeout)

        exc = exc_info.value
        assert exc.phase == fail_phase
        assert exc.path == fail_path
        assert exc.component_type is node_class
        assert isinstance(exc.__cause__, Boom)
        assert exc.__cause__.args == (fail_path,)

        # No ancestor had its start() run
        for ancestor in ancestors(fail_path):
            assert f"start:{ancestor}" not in events

        # Nothing has been torn down yet: still owned by the surrounding context
        assert not [e for e in events if e.startswith("teardown")]
        assert not outer_teardown
        for event in events:
            if event.startswith("prepare:"):
                path = event.split(":", 1)[1]
                name = f"prep_{path.replace('.', '_')}"
                assert get_resource_nowait(str, name) == f"res-{path}"

        # Everything that had begun start() but had not finished was stopped
        for event in list(events):
            if event.startswith("start:"):
                path = event.split(":", 1)[1]
                finished = (
                    f"started:{path}" in events
                    or f"cancelled:{path}" in events
                    or (path == fail_path and fail_phase == "starting")
                )
                assert finished, (path, events)

        # Nothing keeps running or begins to run afterwards
        snapshot = list(events)
        await sleep(0.5)
        assert events == snapshot

        if fail_phase == "creating":
            assert not [e for e in events if not e.startswith("create:")]

    # Torn down in reverse order of registration when the context is left
    registered = [
        e.replace("prepare:", "teardown-prepare:").replace("start:", "teardown-start:")
        for e in snapshot
        if e.startswith(("prepare:", "start:"))
    ]
    torn_down = [e for e in events if e.startswith("teardown")]
    assert torn_down == registered[::-1]
    assert outer_teardown == ["outer-first"]


@pytest.mark.parametrize("timeout", [0.15, 1], ids=["float", "int"])
async def test_timeout_strikes(timeout: float) -> None:
    events: list[str] = []
    node_class = make_tree(events, None, None)
    config: dict[str, Any] = {
        "children": {
            "a": {"children": {"x": {"delay": 0.02}, "y": {"delay": 30}}},
            "b": {"delay": 30},
        }
    }
    async with Context():
        with pytest.raises(TimeoutError):
            await start_component(node_class, config, timeout=timeout)

        assert "started:a.x" in events
        assert "cancelled:a.y" in events
        assert "cancelled:b" in events
        assert "start:a" not in events
        assert "start:" not in events
        assert not [e for e in events if e.startswith("teardown")]
        snapshot = list(events)
        await sleep(0.3)
        assert events == snapshot

    registered = [
        e.replace("prepare:", "teardown-prepare:").replace("start:", "teardown-start:")
        for e in snapshot
        if e.startswith(("prepare:", "start:"))
    ]
    assert [e for e in events if e.startswith("teardown")] == registered[::-1]


@pytest.mark.parametrize("timeout", [None, 0.4, 3], ids=["none", "float", "int"])
async def test_finishes_in_time(timeout: float | None) -> None:
    events: list[str] = []
    node_class = make_tree(events, None, None)
    config: dict[str, Any] = {
        "children": {
            "a": {"children": {"x": {"delay": 0.02}, "y": {"delay": 0.1}}},
            "b": {"delay": 0.05},
        },
        "delay": 0.05,
    }
    async with Context():
        component = await start_component(node_class, config, timeout=timeout)
        assert isinstance(component, node_class)
        assert not [e for e in events if e.startswith("cancelled")]
        for path in ("", "a", "a.x", "a.y", "b"):
            assert f"started:{path}" in events

        assert events[-1] == "started:"
        # Children start() strictly before the parent's start()
        assert events.index("started:a.y") < events.index("start:a")
        assert events.index("started:a") < events.index("start:")
        assert events.index("started:b") < events.index("start:")

        # The timeout must not fire after the fact
        snapshot = list(events)
        await sleep(0.6)
        assert events == snapshot
        assert not [e for e in events if e.startswith("teardown")]

    registered = [
        e.replace("prepare:", "teardown-prepare:").replace("start:", "teardown-start:")
        for e in snapshot
        if e.startswith(("prepare:", "start:"))
    ]
    assert [e for e in events if e.startswith("teardown")] == registered[::-1]
