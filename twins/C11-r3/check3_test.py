"""
Behaviour check for refactoring 3 (C11): ``Signal.dispatch``.

Exercises the dispatch path of bound signals through the public API: type check and its
exact message, what is (not) done to a rejected event, delivery order and isolation
with several subscribers per channel, queue-full warnings (category, text, reported
location, and the "warnings as errors" path), and subscribers whose receiving end is
gone.
"""

from __future__ import annotations

import time
import warnings

import pytest
from anyio import create_memory_object_stream, fail_after
from anyio.lowlevel import checkpoint

from asphalt.core import (
    Event,
    Signal,
    SignalQueueFull,
    UnboundSignal,
    stream_events,
)

pytestmark = pytest.mark.anyio


@pytest.fixture
def anyio_backend() -> str:
    return "asyncio"


class Tick(Event):
    def __init__(self, n: int = 0) -> None:
        self.n = n


class Tock(Event):
    def __init__(self, n: int = 0) -> None:
        self.n = n


class Clock:
    tick = Signal(Tick)
    tock = Signal(Tock)
    tick2 = Signal(Tick)


class Unrelated:
    pass


async def test_type_mismatch_message_and_no_side_effects() -> None:
    clock, other = Clock(), Clock()
    async with (
        clock.tick.stream_events() as tick_stream,
        clock.tock.stream_events() as tock_stream,
        other.tick.stream_events() as other_stream,
    ):
        bad = Tock(1)
        with pytest.raises(TypeError) as exc_info:
            clock.tick.dispatch(bad)  # type: ignore[arg-type]

        assert str(exc_info.value) == (
            f"Event type mismatch: event ({__name__}.Tock) is not a subclass of "
            f"{__name__}.Tick"
        )
        # the rejected event was not stamped ...
        for attr in ("source", "topic", "time"):
            assert not hasattr(bad, attr)

        # ... builtins are named without module, instances by their type
        with pytest.raises(TypeError) as exc_info:
            clock.tock.dispatch(42)  # type: ignore[arg-type]
        assert str(exc_info.value) == (
            f"Event type mismatch: event (int) is not a subclass of {__name__}.Tock"
        )
        with pytest.raises(TypeError) as exc_info:
            clock.tock.dispatch(Unrelated())  # type: ignore[arg-type]
        assert str(exc_info.value) == (
            f"Event type mismatch: event ({__name__}.Unrelated) is not a subclass of "
            f"{__name__}.Tock"
        )
        # a class object (not instance) of the right event type is also rejected
        with pytest.raises(TypeError, match=r"event \(.*\.Tick\) is not a subclass"):
            clock.tick.dispatch(Tick)  # type: ignore[arg-type]

        # ... and nothing was delivered anywhere: the next thing each stream sees is
        # its own sentinel
        s1, s2, s3 = Tick(100), Tock(200), Tick(300)
        clock.tick.dispatch(s1)
        clock.tock.dispatch(s2)
        other.tick.dispatch(s3)
        with fail_after(1):
            assert await tick_stream.__anext__() is s1
            assert await tock_stream.__anext__() is s2
            assert await other_stream.__anext__() is s3


def test_unbound_check_precedes_type_check() -> None:
    with pytest.raises(UnboundSignal):
        Clock.tick.dispatch(Tock())  # type: ignore[arg-type]
    with pytest.raises(UnboundSignal):
        Clock.tick.dispatch(Tick())


async def test_event_is_stamped_with_channel_identity() -> None:
    clock = Clock()
    event = Tick(7)
    before = time.time()
    clock.tick2.dispatch(event)  # no subscribers: still stamped
    after = time.time()
    assert event.source is clock
    assert event.topic == "tick2"
    assert before <= event.time <= after

    # redispatching the same event object on another channel restamps it
    other = Clock()
    async with other.tick.stream_events() as stream:
        other.tick.dispatch(event)
        with fail_after(1):
            assert await stream.__anext__() is event

    assert event.source is other
    assert event.topic == "tick"


async def test_all_subscribers_of_channel_get_event_in_order() -> None:
    clock, other = Clock(), Clock()
    async with (
        clock.tick.stream_events() as first,
        clock.tick.stream_events(lambda e: e.n % 2 == 0) as evens,
        stream_events([clock.tick, clock.tick2, other.tick]) as combined,
        clock.tick2.stream_events() as only_tick2,
    ):
        clock.tick.dispatch(Tick(1))
        clock.tick2.dispatch(Tick(2))
        other.tick.dispatch(Tick(3))
        clock.tick.dispatch(Tick(4))
        clock.tock.dispatch(Tock(5))
        await checkpoint()

        async def take(stream, count):  # type: ignore[no-untyped-def]
            result = []
            for _ in range(count):
                with fail_after(1):
                    event = await stream.__anext__()
                result.append((event.n, event.topic, event.source))
            return result

        assert await take(first, 2) == [(1, "tick", clock), (4, "tick", clock)]
        assert await take(evens, 1) == [(4, "tick", clock)]
        assert await take(only_tick2, 1) == [(2, "tick2", clock)]
        # NB: events are shared objects, restamped on each dispatch; each was
        # dispatched exactly once here so the stamps identify the channel.
        assert await take(combined, 4) == [
            (1, "tick", clock),
            (2, "tick2", clock),
            (3, "tick", other),
            (4, "tick", clock),
        ]


async def test_same_stream_subscribed_twice_to_one_channel() -> None:
    clock = Clock()
    async with stream_events([clock.tick, clock.tick]) as stream:
        event = Tick(1)
        clock.tick.dispatch(event)
        with fail_after(1):
            assert await stream.__anext__() is event
            assert await stream.__anext__() is event

    # both subscriptions are gone afterwards
    clock.tick.dispatch(Tick(2))


async def test_queue_full_warns_and_other_subscribers_still_served() -> None:
    clock, other = Clock(), Clock()
    async with (
        clock.tick.stream_events(max_queue_size=1) as small,
        clock.tick.stream_events(max_queue_size=5) as big,
        other.tick.stream_events(max_queue_size=1) as other_small,
    ):
        clock.tick.dispatch(Tick(1))
        with pytest.warns(SignalQueueFull) as record:
            clock.tick.dispatch(Tick(2))
        assert len(record) == 1
        assert str(record[0].message) == (
            "Queue full (1) when trying to send dispatched event to subscriber"
        )
        assert record[0].filename == __file__  # attributed to dispatch()'s caller

        # the other instance's full-sized queue was not touched by any of that
        with warnings.catch_warnings():
            warnings.simplefilter("error")
            other.tick.dispatch(Tick(10))

        with fail_after(1):
            assert (await small.__anext__()).n == 1
            assert (await big.__anext__()).n == 1
            assert (await big.__anext__()).n == 2
            assert (await other_small.__anext__()).n == 10

        # small queue has room again
        with warnings.catch_warnings():
            warnings.simplefilter("error")
            clock.tick.dispatch(Tick(3))
        with fail_after(1):
            assert (await small.__anext__()).n == 3
            assert (await big.__anext__()).n == 3


async def test_queue_full_warning_as_error_aborts_delivery_to_later_subscribers() -> (
    None
):
    clock = Clock()
    async with (
        clock.tick.stream_events(max_queue_size=5) as early,
        clock.tick.stream_events(max_queue_size=1) as small,
        clock.tick.stream_events(max_queue_size=5) as late,
    ):
        clock.tick.dispatch(Tick(1))
        with warnings.catch_warnings():
            warnings.simplefilter("error", SignalQueueFull)
            with pytest.raises(SignalQueueFull):
                clock.tick.dispatch(Tick(2))

        sentinel = Tick(99)
        with fail_after(1):
            assert (await small.__anext__()).n == 1  # make room
        clock.tick.dispatch(sentinel)
        with fail_after(1):
            assert [(await early.__anext__()).n for _ in range(3)] == [1, 2, 99]
            assert [(await small.__anext__()).n for _ in range(1)] == [99]
            assert [(await late.__anext__()).n for _ in range(2)] == [1, 99]


async def test_subscriber_with_closed_receiver_is_skipped_silently() -> None:
    """
    Internal error path (uses the private ``_subscribe`` hook, which no refactoring
    renames): a subscriber whose receiving end has been closed is ignored and does not
    prevent later subscribers from being served.
    """
    clock = Clock()
    dead_send, dead_receive = create_memory_object_stream[Tick](1)
    dead_receive.close()
    with dead_send, clock.tick._subscribe(dead_send):
        async with clock.tick.stream_events() as live:
            with warnings.catch_warnings():
                warnings.simplefilter("error")
                event = Tick(1)
                clock.tick.dispatch(event)

            with fail_after(1):
                assert await live.__anext__() is event


async def test_subscriptions_made_while_iterating_do_not_disturb_dispatch() -> None:
    """
    Subscribing/unsubscribing between dispatches changes only that channel's
    subscriber set.
    """
    clock = Clock()
    async with clock.tick.stream_events() as permanent:
        for n in range(3):
            async with clock.tick.stream_events() as temporary:
                clock.tick.dispatch(Tick(n))
                clock.tick2.dispatch(Tick(-1))
                with fail_after(1):
                    assert (await temporary.__anext__()).n == n

        with fail_after(1):
            assert [(await permanent.__anext__()).n for _ in range(3)] == [0, 1, 2]
