"""
Behaviour check for refactoring 1 (extracted helpers for type resolution and for the
effective resource name).

Exercises, through the public API only:
* the three equivalent ways of naming a component type (class, ``module:attr``
  reference, entry point name) and the default (type = alias)
* the errors raised for unresolvable / non-component types
* ``kind/name`` aliases: resources added as ``default`` in start() appear under
  ``name``; those added in prepare() or with an explicit name do not move
"""

from __future__ import annotations

import sys
from typing import Any
from unittest.mock import Mock

import pytest
from pytest import MonkeyPatch

from asphalt.core import (
    Component,
    ComponentStartError,
    Context,
    ResourceConflict,
    ResourceNotFound,
    add_resource,
    add_resource_factory,
    get_resource_nowait,
    get_resources,
    start_component,
)
from asphalt.core._component import component_types

if sys.version_info >= (3, 10):
    from importlib.metadata import EntryPoint
else:
    from importlib_metadata import EntryPoint

pytestmark = pytest.mark.anyio()

CREATED: list[tuple[str, dict[str, Any]]] = []


class Leaf(Component):
    def __init__(self, **kwargs: Any) -> None:
        self.kwargs = kwargs
        CREATED.append(("Leaf", kwargs))


class NotAComponent:
    pass


class Publisher(Component):
    """Adds resources in both prepare() and start()."""

    def __init__(self, tag: str = "x") -> None:
        self.tag = tag

    async def prepare(self) -> None:
        add_resource(f"prepared_{self.tag}", types=[str])
        add_resource_factory(lambda: 1.5, types=[float])

    async def start(self) -> None:
        add_resource(self.tag.encode(), types=[bytes])
        add_resource(f"explicit_{self.tag}".encode(), f"explicit_{self.tag}")
        add_resource_factory(lambda: 7, types=[int])
        add_resource_factory(lambda: 8, f"fexplicit_{self.tag}", types=[int])


@pytest.fixture(autouse=True)
def setup(monkeypatch: MonkeyPatch) -> None:
    CREATED.clear()
    leaf_ep = Mock(EntryPoint)
    leaf_ep.load.configure_mock(return_value=Leaf)
    pub_ep = Mock(EntryPoint)
    pub_ep.load.configure_mock(return_value=Publisher)
    bad_ep = Mock(EntryPoint)
    bad_ep.load.configure_mock(return_value=NotAComponent)
    monkeypatch.setattr(
        component_types,
        "_entrypoints",
        {"leaf": leaf_ep, "pub": pub_ep, "bad": bad_ep},
    )
    monkeypatch.setattr(component_types, "_resolved", {})


@pytest.mark.parametrize(
    "type_spec",
    [
        pytest.param(Leaf, id="class"),
        pytest.param(f"{__name__}:Leaf", id="reference"),
        pytest.param("leaf", id="entrypoint"),
    ],
)
async def test_three_ways_of_naming_a_type_are_equivalent(type_spec: Any) -> None:
    class Root(Component):
        def __init__(self) -> None:
            self.add_component("first", type_spec, a=1, nested={"x": 1, "y": 2})
            self.add_component("leaf/second", b=2)

    config = {
        "components": {
            "first": {"nested": {"y": 3}},
            "third": {"type": type_spec, "c": 3},
        }
    }
    async with Context():
        root = await start_component(Root, config)

    assert type(root) is Root
    assert CREATED == [
        ("Leaf", {"a": 1, "nested": {"x": 1, "y": 3}}),
        ("Leaf", {"b": 2}),
        ("Leaf", {"c": 3}),
    ]


@pytest.mark.parametrize(
    "root_spec",
    [
        pytest.param(Leaf, id="class"),
        pytest.param(f"{__name__}:Leaf", id="reference"),
        pytest.param("leaf", id="entrypoint"),
    ],
)
async def test_root_type_forms(root_spec: Any) -> None:
    async with Context():
        root = await start_component(root_spec, {"k": "v"})

    assert isinstance(root, Leaf)
    assert root.kwargs == {"k": "v"}


async def test_type_defaults_to_alias_and_alias_prefix() -> None:
    async with Context():
        await start_component(
            Component,
            {"components": {"leaf": {"n": 0}, "leaf/a": {"n": 1}, "leaf/a/b": None}},
        )

    assert CREATED == [("Leaf", {"n": 0}), ("Leaf", {"n": 1}), ("Leaf", {})]


async def test_unresolvable_and_wrong_types() -> None:
    async with Context():
        with pytest.raises(LookupError, match="no such entry point in"):
            await start_component(Component, {"components": {"nonexistent": None}})

        with pytest.raises(LookupError, match="could not import module"):
            await start_component(
                Component, {"components": {"x": {"type": "no_such_mod_xyz:Foo"}}}
            )

        with pytest.raises(LookupError, match="error looking up object"):
            await start_component(
                Component, {"components": {"x": {"type": f"{__name__}:Missing"}}}
            )

        with pytest.raises(TypeError) as exc:
            await start_component(Component, {"components": {"bad/x": None}})

        exc.match(r"^bad/x: the declared component type \('bad'\) resolved to")
        exc.match("which is not a subclass of Component$")

        with pytest.raises(TypeError) as exc:
            await start_component(NotAComponent)  # type: ignore[type-var]

        exc.match(r"^\(root\): the declared component type \(")

        with pytest.raises(TypeError) as exc:
            await start_component(
                Component, {"components": {"p": {"type": Component, "components": {"q": {"type": 5}}}}}
            )

        exc.match(r"^p\.q: the declared component type \(5\) resolved to 5 which")

    assert CREATED == []


async def test_constructor_failure_is_wrapped() -> None:
    async with Context():
        with pytest.raises(ComponentStartError) as exc:
            await start_component(
                Component, {"components": {"pub/z": {"unexpected": 1}}}
            )

    assert isinstance(exc.value.__cause__, TypeError)
    assert "pub/z" in str(exc.value)


async def test_prepare_resources_are_not_renamed_by_alias() -> None:
    class Root(Component):
        def __init__(self) -> None:
            self.add_component("pub/alpha", tag="a")
            self.add_component("pub/beta", tag="b")

    # Both children add (str, "default") and a (float, "default") factory in
    # prepare(); had those been renamed to "alpha"/"beta", there would be no conflict
    async with Context():
        with pytest.raises(ComponentStartError) as exc:
            await start_component(Root)

    assert isinstance(exc.value.__cause__, ResourceConflict)
    # which sibling loses depends on the scheduling order (random under trio)
    assert str(exc.value).startswith(
        ("error preparing component 'pub/alpha'", "error preparing component 'pub/beta'")
    )


async def test_alias_suffix_with_second_slash_is_used_verbatim() -> None:
    # "s/beta/gamma" -> default resource name "beta/gamma", which the context rejects
    class Root(Component):
        def __init__(self) -> None:
            self.add_component("pub/beta/gamma", tag="b")

    async with Context():
        with pytest.raises(ComponentStartError) as exc:
            await start_component(Root)

        assert get_resource_nowait(str) == "prepared_b"

    assert isinstance(exc.value.__cause__, ValueError)
    assert str(exc.value).startswith("error starting component 'pub/beta/gamma'")


async def test_default_resource_name_mapping() -> None:
    class Starter(Component):
        def __init__(self, tag: str) -> None:
            self.tag = tag

        async def start(self) -> None:
            add_resource(self.tag.encode(), types=[bytes])
            add_resource(f"explicit_{self.tag}".encode(), f"explicit_{self.tag}")
            add_resource_factory(lambda: 7, types=[int])
            add_resource_factory(lambda: 8, f"fexplicit_{self.tag}", types=[int])

    class Preparer(Component):
        async def prepare(self) -> None:
            add_resource("prepared", types=[str])
            add_resource_factory(lambda: 1.5, types=[float])

    class Root(Component):
        def __init__(self) -> None:
            self.add_component("s/alpha", Starter, tag="a")
            self.add_component("s/beta_gamma", Starter, tag="b")
            self.add_component("unnamed", Starter, tag="u")
            self.add_component("p/delta", Preparer)

        async def start(self) -> None:
            add_resource(3 + 4j)

    async with Context():
        await start_component(Root)
        assert dict(get_resources(bytes)) == {
            "alpha": b"a",
            "explicit_a": b"explicit_a",
            "beta_gamma": b"b",
            "explicit_b": b"explicit_b",
            "default": b"u",
            "explicit_u": b"explicit_u",
        }
        assert get_resource_nowait(int, "alpha") == 7
        assert get_resource_nowait(int, "beta_gamma") == 7
        assert get_resource_nowait(int, "default") == 7
        assert get_resource_nowait(int, "fexplicit_a") == 8
        assert get_resource_nowait(int, "fexplicit_b") == 8
        assert get_resource_nowait(int, "fexplicit_u") == 8
        # prepare() resources keep the name "default" despite the alias "p/delta"
        assert get_resource_nowait(str) == "prepared"
        assert get_resource_nowait(float) == 1.5
        with pytest.raises(ResourceNotFound):
            get_resource_nowait(str, "delta")

        with pytest.raises(ResourceNotFound):
            get_resource_nowait(float, "delta")

        assert dict(get_resources(complex)) == {"default": 3 + 4j}
