"""
Behaviour check for refactoring 2 (@context_teardown's wrapper restructured: nested
callback defined after the generator is created, try/except/else turned into early
return + fall-through).

Exercises property C01 through the public API, concentrating on the @context_teardown
route and how it interleaves with the other registration routes.
"""

from __future__ import annotations

from collections.abc import AsyncGenerator
from typing import Any

import pytest
from anyio import CancelScope, get_cancelled_exc_class
from anyio.lowlevel import checkpoint

from asphalt.core import (
    Context,
    NoCurrentContext,
    add_resource,
    add_teardown_callback,
    context_teardown,
    current_context,
)

pytestmark = pytest.mark.anyio


@pytest.fixture(params=["asyncio", "trio"])
def anyio_backend(request: pytest.FixtureRequest) -> str:
    return request.param


@pytest.fixture
async def root_context() -> Any:
    async with Context() as ctx:
        yield ctx


class MyBaseError(BaseException):
    pass


async def test_generator_teardown_interleaved_with_other_routes() -> None:
    events: list[str] = []
    received: dict[str, BaseException | None] = {}

    @context_teardown
    async def start(name: str, *, flag: bool = False) -> AsyncGenerator[None, Any]:
        events.append(f"{name} started flag={flag}")
        add_resource(name, name, teardown_callback=lambda: events.append(f"{name} res"))
        exc = yield
        received[name] = exc
        events.append(f"{name} teardown begin")
        await checkpoint()
        events.append(f"{name} teardown end")

    async def async_cb() -> None:
        events.append("async_cb begin")
        await checkpoint()
        events.append("async_cb end")

    assert start.__name__ == "start"
    assert start.__wrapped__ is not None  # type: ignore[attr-defined]

    async with Context() as ctx:
        ctx.add_teardown_callback(lambda: events.append("first"))
        assert await start("a") is None
        add_teardown_callback(async_cb)
        assert await start("b", flag=True) is None
        ctx.add_teardown_callback(lambda exc: events.append(f"last {exc}"), True)
        events.append("body done")

    assert ctx.closed
    assert received == {"a": None, "b": None}
    assert events == [
        "a started flag=False",
        "b started flag=True",
        "body done",
        "last None",
        "b teardown begin",
        "b teardown end",
        "b res",
        "async_cb begin",
        "async_cb end",
        "a teardown begin",
        "a teardown end",
        "a res",
        "first",
    ]


async def test_generator_receives_block_exception_and_it_propagates_bare() -> None:
    received: list[BaseException | None] = []

    @context_teardown
    async def start() -> AsyncGenerator[None, Any]:
        exc = yield
        received.append(exc)

    error = KeyError("x")
    with pytest.raises(KeyError) as exc_info:
        async with Context() as ctx:
            await start()
            await start()
            raise error

    assert exc_info.value is error
    assert received == [error, error]
    assert ctx.closed


async def test_generator_without_yield_registers_nothing() -> None:
    events: list[str] = []

    @context_teardown
    async def start(do_yield: bool) -> AsyncGenerator[None, Any]:
        events.append(f"start {do_yield}")
        if do_yield:
            yield
            events.append("torn down")

    async with Context() as ctx:
        ctx.add_teardown_callback(lambda: events.append("cb1"))
        assert await start(False) is None
        ctx.add_teardown_callback(lambda: events.append("cb2"))
        await start(True)
        await start(False)
        events.append("body done")

    assert events == [
        "start False",
        "start True",
        "start False",
        "body done",
        "torn down",
        "cb2",
        "cb1",
    ]


@pytest.mark.parametrize("exc_class", [ValueError, MyBaseError, StopIteration])
async def test_generator_raising_before_yield(
    exc_class: type[BaseException], root_context: Context
) -> None:
    events: list[str] = []

    @context_teardown
    async def start() -> AsyncGenerator[None, Any]:
        try:
            events.append("start")
            raise exc_class("early")
            yield
        finally:
            events.append("finally")

    # A StopIteration escaping an async generator is turned into RuntimeError by Python
    expected = RuntimeError if exc_class is StopIteration else exc_class
    with pytest.raises(expected) as exc_info:
        async with Context() as ctx:
            ctx.add_teardown_callback(lambda: events.append("cb"))
            try:
                await start()
            finally:
                events.append("after start")

    assert type(exc_info.value) is expected
    assert events == ["start", "finally", "after start", "cb"]
    assert ctx.closed


async def test_teardown_part_raising_is_grouped_and_rest_still_runs(
    root_context: Context,
) -> None:
    events: list[str] = []
    gen_error = MyBaseError("gen")
    cb_error = ValueError("cb")
    block_error = RuntimeError("block")

    @context_teardown
    async def start(error: BaseException | None) -> AsyncGenerator[None, Any]:
        try:
            exc = yield
            events.append(f"gen got {exc!r}")
            await checkpoint()
            if error:
                raise error
        finally:
            events.append("gen finally")

    def failing_cb() -> None:
        events.append("failing_cb")
        raise cb_error

    with pytest.raises(BaseExceptionGroup) as exc_info:
        async with Context() as ctx:
            await start(None)
            ctx.add_teardown_callback(failing_cb)
            await start(gen_error)
            ctx.add_teardown_callback(lambda: events.append("top"))
            raise block_error

    group = exc_info.value
    assert group.message == "Exceptions were raised during context teardown"
    assert group.exceptions == (gen_error, cb_error)
    assert group.__cause__ is block_error
    assert events == [
        "top",
        f"gen got {block_error!r}",
        "gen finally",
        "failing_cb",
        f"gen got {block_error!r}",
        "gen finally",
    ]
    assert ctx.closed


async def test_generator_yielding_twice_is_closed(root_context: Context) -> None:
    events: list[str] = []

    @context_teardown
    async def start() -> AsyncGenerator[None, Any]:
        try:
            yield
            events.append("after first yield")
            yield
            events.append("never reached")
        finally:
            events.append("finally")

    async with Context() as ctx:
        ctx.add_teardown_callback(lambda: events.append("bottom"))
        await start()

    assert events == ["after first yield", "finally", "bottom"]
    assert ctx.closed


async def test_generator_registering_callbacks_during_teardown() -> None:
    events: list[str] = []

    @context_teardown
    async def late() -> AsyncGenerator[None, Any]:
        events.append("late started")
        yield
        events.append("late torn down")

    @context_teardown
    async def start() -> AsyncGenerator[None, Any]:
        ctx = current_context()
        yield
        assert ctx.closed
        events.append("start teardown")
        ctx.add_teardown_callback(lambda: events.append("added in teardown"))
        await late()
        events.append("start teardown end")

    async with Context() as ctx:
        ctx.add_teardown_callback(lambda: events.append("bottom"))
        await start()

    assert events == [
        "start teardown",
        "late started",
        "start teardown end",
        "late torn down",
        "added in teardown",
        "bottom",
    ]


async def test_cancellation_reaches_generator() -> None:
    events: list[str] = []
    received: list[BaseException | None] = []

    @context_teardown
    async def start(name: str) -> AsyncGenerator[None, Any]:
        exc = yield
        received.append(exc)
        events.append(name)

    with CancelScope() as scope:
        async with Context() as ctx:
            await start("a")
            ctx.add_teardown_callback(lambda: events.append("cb"))
            await start("b")
            scope.cancel()
            await checkpoint()
            pytest.fail("should have been cancelled")

    assert scope.cancelled_caught
    assert events == ["b", "cb", "a"]
    assert isinstance(received[0], get_cancelled_exc_class())
    assert received[1] is received[0]
    assert ctx.closed


async def test_no_current_context() -> None:
    events: list[str] = []

    @context_teardown
    async def start() -> AsyncGenerator[None, Any]:
        events.append("started")
        try:
            yield
        finally:
            events.append("cleanup")

    with pytest.raises(NoCurrentContext):
        await start()

    assert events == []


def test_not_an_async_generator_function() -> None:
    async def coro_func() -> None:
        pass

    def gen_func() -> Any:
        yield

    for func in (coro_func, gen_func, len):
        with pytest.raises(TypeError, match="must be an async generator function"):
            context_teardown(func)  # type: ignore[arg-type]
