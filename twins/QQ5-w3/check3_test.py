"""Behaviour checks for refactoring 3 (PluginContainer loading / caching)."""

from __future__ import annotations

from typing import Any

import pytest

import asphalt.core._utils as utils_module
from asphalt.core import Component, PluginContainer


class BasePlugin:
    def __init__(self, **kwargs: Any) -> None:
        self.kwargs = kwargs


class GoodPlugin(BasePlugin):
    pass


class OtherPlugin(BasePlugin):
    pass


class Unrelated:
    pass


class FakeEntryPoint:
    def __init__(self, name: str, target: Any, log: list[str]) -> None:
        self.name = name
        self.target = target
        self.log = log

    def load(self) -> Any:
        self.log.append(self.name)
        if isinstance(self.target, BaseException):
            raise self.target

        return self.target


@pytest.fixture
def load_log() -> list[str]:
    return []


@pytest.fixture
def requested_groups() -> list[str]:
    return []


@pytest.fixture
def container(
    monkeypatch: pytest.MonkeyPatch, load_log: list[str], requested_groups: list[str]
) -> PluginContainer:
    def fake_entry_points(*, group: str) -> list[FakeEntryPoint]:
        requested_groups.append(group)
        return [
            FakeEntryPoint("good", GoodPlugin, load_log),
            FakeEntryPoint("other", OtherPlugin, load_log),
            FakeEntryPoint("unrelated", Unrelated, load_log),
            FakeEntryPoint("none", None, load_log),
            FakeEntryPoint("instance", GoodPlugin(), load_log),
            # Same name twice: the later one wins
            FakeEntryPoint("good", GoodPlugin, load_log),
        ]

    monkeypatch.setattr(utils_module, "entry_points", fake_entry_points)
    return PluginContainer("test.namespace", BasePlugin)


def test_construction(container: PluginContainer, requested_groups: list[str]) -> None:
    assert requested_groups == ["test.namespace"]
    assert container.namespace == "test.namespace"
    assert container.base_class is BasePlugin
    assert container.names == ["good", "other", "unrelated", "none", "instance"]
    assert container.names is not container.names
    assert repr(container) == (
        f"PluginContainer(namespace='test.namespace', "
        f"base_class={__name__}.BasePlugin)"
    )
    assert not hasattr(container, "__dict__")
    with pytest.raises(AttributeError):
        container.arbitrary = 1  # type: ignore[attr-defined]


def test_nothing_loaded_eagerly(container: PluginContainer, load_log: list[str]) -> None:
    container.names
    repr(container)
    assert load_log == []


def test_resolve_passthrough(container: PluginContainer, load_log: list[str]) -> None:
    marker = object()
    assert container.resolve(marker) is marker
    assert container.resolve(None) is None
    assert container.resolve(GoodPlugin) is GoodPlugin
    assert container.resolve(b"good") == b"good"
    assert load_log == []


def test_resolve_reference(container: PluginContainer, load_log: list[str]) -> None:
    assert container.resolve(f"{__name__}:GoodPlugin") is GoodPlugin
    assert container.resolve("asphalt.core:Component") is Component
    with pytest.raises(LookupError, match="could not import module"):
        container.resolve("no.such.module.anywhere:thing")

    with pytest.raises(LookupError, match="error looking up object"):
        container.resolve(f"{__name__}:Missing")

    assert load_log == []


def test_resolve_loads_once(container: PluginContainer, load_log: list[str]) -> None:
    assert container.resolve("good") is GoodPlugin
    assert container.resolve("good") is GoodPlugin
    assert container.resolve("other") is OtherPlugin
    assert container.resolve("good") is GoodPlugin
    assert load_log == ["good", "other"]


def test_resolve_str_subclass(container: PluginContainer, load_log: list[str]) -> None:
    class MyStr(str):
        pass

    assert container.resolve(MyStr("good")) is GoodPlugin
    assert container.resolve("good") is GoodPlugin
    assert load_log == ["good"]


def test_resolve_missing(container: PluginContainer, load_log: list[str]) -> None:
    with pytest.raises(LookupError) as exc:
        container.resolve("missing")

    assert type(exc.value) is LookupError
    assert str(exc.value) == "no such entry point in test.namespace: missing"
    with pytest.raises(LookupError, match="no such entry point in test.namespace: $"):
        container.resolve("")

    assert load_log == []


def test_none_valued_entry_point_is_cached(
    container: PluginContainer, load_log: list[str]
) -> None:
    # A loaded value of None is still a cached value: membership decides, not truth
    assert container.resolve("none") is None
    assert container.resolve("none") is None
    assert load_log == ["none"]
    container.all()
    assert load_log.count("none") == 1


def test_all_uses_cache_and_order(
    container: PluginContainer, load_log: list[str]
) -> None:
    assert container.resolve("other") is OtherPlugin
    values = container.all()
    assert values[:4] == [GoodPlugin, OtherPlugin, Unrelated, None]
    assert isinstance(values[4], GoodPlugin)
    assert len(values) == 5
    assert load_log == ["other", "good", "unrelated", "none", "instance"]
    again = container.all()
    assert again == values
    assert again is not values
    assert again[4] is values[4]
    assert load_log == ["other", "good", "unrelated", "none", "instance"]
    assert container.resolve("instance") is values[4]


def test_load_failure_is_not_cached_and_keeps_earlier_results(
    monkeypatch: pytest.MonkeyPatch,
) -> None:
    log: list[str] = []
    broken = FakeEntryPoint("broken", ImportError("cannot import plugin"), log)

    def fake_entry_points(*, group: str) -> list[FakeEntryPoint]:
        return [
            FakeEntryPoint("first", GoodPlugin, log),
            broken,
            FakeEntryPoint("last", OtherPlugin, log),
        ]

    monkeypatch.setattr(utils_module, "entry_points", fake_entry_points)
    container = PluginContainer("test.broken")
    with pytest.raises(ImportError, match="cannot import plugin"):
        container.all()

    assert log == ["first", "broken"]
    with pytest.raises(ImportError, match="cannot import plugin"):
        container.resolve("broken")

    assert log == ["first", "broken", "broken"]
    assert container.resolve("first") is GoodPlugin
    assert log == ["first", "broken", "broken"]

    # Once the entry point becomes loadable, it's loaded (and "first" is not reloaded)
    broken.target = Unrelated
    assert container.all() == [GoodPlugin, Unrelated, OtherPlugin]
    assert log == ["first", "broken", "broken", "broken", "last"]


def test_create_object(container: PluginContainer, load_log: list[str]) -> None:
    plugin = container.create_object("good", a=1, b="x")
    assert type(plugin) is GoodPlugin
    assert plugin.kwargs == {"a": 1, "b": "x"}
    plugin2 = container.create_object(OtherPlugin)
    assert type(plugin2) is OtherPlugin
    assert plugin2.kwargs == {}
    plugin3 = container.create_object(f"{__name__}:GoodPlugin", kind="abc")
    assert type(plugin3) is GoodPlugin
    assert plugin3.kwargs == {"kind": "abc"}
    assert type(container.create_object(BasePlugin)) is BasePlugin
    assert container.create_object("good") is not container.create_object("good")
    assert load_log == ["good"]


@pytest.mark.parametrize(
    "ref, name",
    [
        pytest.param("unrelated", f"{__name__}.Unrelated", id="wrong_class"),
        pytest.param("none", "NoneType", id="none"),
        pytest.param("instance", f"{__name__}.GoodPlugin", id="instance"),
        pytest.param(Unrelated, f"{__name__}.Unrelated", id="class_object"),
        pytest.param(int, "int", id="builtin"),
    ],
)
def test_create_object_wrong_type(
    container: PluginContainer, ref: Any, name: str
) -> None:
    with pytest.raises(TypeError) as exc:
        container.create_object(ref)

    assert str(exc.value) == f"{name} is not a subclass of {__name__}.BasePlugin"


def test_create_object_constructor_error_propagates(container: PluginContainer) -> None:
    class Picky(BasePlugin):
        def __init__(self, *, required: int) -> None:
            super().__init__(required=required)

    with pytest.raises(TypeError, match="required"):
        container.create_object(Picky)

    with pytest.raises(TypeError, match="unexpected"):
        container.create_object(Picky, required=1, unexpected=2)

    assert container.create_object(Picky, required=3).kwargs == {"required": 3}


def test_create_object_missing_entry_point(container: PluginContainer) -> None:
    with pytest.raises(LookupError, match="no such entry point in test.namespace: x"):
        container.create_object("x")


def test_create_object_without_base_class(
    monkeypatch: pytest.MonkeyPatch, load_log: list[str]
) -> None:
    monkeypatch.setattr(
        utils_module,
        "entry_points",
        lambda *, group: [FakeEntryPoint("good", GoodPlugin, load_log)],
    )
    container = PluginContainer("test.nobase")
    assert container.base_class is None
    assert repr(container) == (
        "PluginContainer(namespace='test.nobase', base_class=NoneType)"
    )
    with pytest.raises(AssertionError, match="base class has not been defined"):
        container.create_object("good")

    # The assertion fires before anything is resolved
    assert load_log == []
    assert container.resolve("good") is GoodPlugin
    assert container.all() == [GoodPlugin]
    assert load_log == ["good"]


def test_empty_namespace_real_entry_points() -> None:
    container = PluginContainer("asphalt.nonexistent.namespace.for.check3")
    assert container.names == []
    assert container.all() == []
    with pytest.raises(LookupError):
        container.resolve("anything")


def test_real_component_namespace_roundtrip() -> None:
    container = PluginContainer("asphalt.components", Component)
    for name in container.names:
        assert container.resolve(name) is container.resolve(name)

    assert len(container.all()) == len(container.names)
