"""Desugaring passes applied to every module before the rules run, so that equivalent
spellings look the same to the rules:

A. conditional expressions in statement position become if/else statements
       x = a if c else b          ->   if c: x = a
       return a if c else b            else: x = b
B. dict comprehensions that are the whole value of an assignment / return become loops
       d = {k: v for t in it if c} ->   d = {}; for t in it: if c: d[k] = v
C. (in inline.py) calls of private single-expression predicate helpers are replaced by the
   expression

These rewrites preserve evaluation order and results; nodes keep their line numbers.
"""
from __future__ import annotations

import ast
import copy
import itertools

_counter = itertools.count(1)


def _lower_ifexp_stmt(st):
    """-> list of statements replacing st, or None"""
    if isinstance(st, ast.Assign) and isinstance(st.value, ast.IfExp):
        e = st.value
        a_ = ast.copy_location(ast.Assign(targets=copy.deepcopy(st.targets), value=e.body, lineno=st.lineno), st)
        b_ = ast.copy_location(ast.Assign(targets=copy.deepcopy(st.targets), value=e.orelse, lineno=st.lineno), st)
        return [ast.copy_location(ast.If(test=e.test, body=[a_], orelse=[b_]), st)]
    if isinstance(st, ast.AnnAssign) and st.value is not None and isinstance(st.value, ast.IfExp) and isinstance(st.target, (ast.Name, ast.Attribute)):
        e = st.value
        decl = ast.copy_location(ast.AnnAssign(target=copy.deepcopy(st.target), annotation=st.annotation, value=None, simple=st.simple), st)
        a_ = ast.copy_location(ast.Assign(targets=[copy.deepcopy(st.target)], value=e.body, lineno=st.lineno), st)
        b_ = ast.copy_location(ast.Assign(targets=[copy.deepcopy(st.target)], value=e.orelse, lineno=st.lineno), st)
        return [decl, ast.copy_location(ast.If(test=e.test, body=[a_], orelse=[b_]), st)]
    if isinstance(st, ast.Return) and isinstance(st.value, ast.IfExp):
        e = st.value
        return [ast.copy_location(ast.If(test=e.test, body=[ast.copy_location(ast.Return(value=e.body), st)], orelse=[ast.copy_location(ast.Return(value=e.orelse), st)]), st)]
    if isinstance(st, ast.Expr) and isinstance(st.value, ast.IfExp):
        e = st.value
        return [ast.copy_location(ast.If(test=e.test, body=[ast.copy_location(ast.Expr(value=e.body), st)], orelse=[ast.copy_location(ast.Expr(value=e.orelse), st)]), st)]
    return None


class _Rename(ast.NodeTransformer):
    def __init__(self, mapping):
        self.mapping = mapping

    def visit_Name(self, node):
        if node.id in self.mapping:
            return ast.copy_location(ast.Name(id=self.mapping[node.id], ctx=node.ctx), node)
        return node


def _lower_dictcomp_stmt(st):
    target = None
    comp = None
    mode = None
    if isinstance(st, ast.Assign) and len(st.targets) == 1 and isinstance(st.value, ast.DictComp) and isinstance(st.targets[0], (ast.Name, ast.Attribute)):
        target, comp, mode = st.targets[0], st.value, "assign"
    elif isinstance(st, ast.AnnAssign) and isinstance(st.value, ast.DictComp) and isinstance(st.target, (ast.Name, ast.Attribute)):
        target, comp, mode = st.target, st.value, "annassign"
    elif isinstance(st, ast.Return) and isinstance(st.value, ast.DictComp):
        n = next(_counter)
        target, comp, mode = ast.Name(id=f"_cmp{n}", ctx=ast.Store()), st.value, "return"
    if comp is None:
        return None
    if any(g.is_async for g in comp.generators):
        return None
    n = next(_counter)
    names = set()
    for g in comp.generators:
        for x in ast.walk(g.target):
            if isinstance(x, ast.Name):
                names.add(x.id)
    mapping = {v: f"_c{n}_{v}" for v in names}
    ren = _Rename(mapping)
    key = ren.visit(copy.deepcopy(comp.key))
    value = ren.visit(copy.deepcopy(comp.value))
    load_target = copy.deepcopy(target)
    for x in ast.walk(load_target):
        if hasattr(x, "ctx"):
            x.ctx = ast.Load()
    store = ast.Assign(targets=[ast.Subscript(value=load_target, slice=key, ctx=ast.Store())], value=value, lineno=st.lineno)
    body = [ast.copy_location(store, st)]
    for i, g in reversed(list(enumerate(comp.generators))):
        it = copy.deepcopy(g.iter)
        if i > 0:
            it = ren.visit(it)
        tgt = ren.visit(copy.deepcopy(g.target))
        for cond in reversed(g.ifs):
            body = [ast.copy_location(ast.If(test=ren.visit(copy.deepcopy(cond)), body=body, orelse=[]), st)]
        body = [ast.copy_location(ast.For(target=tgt, iter=it, body=body, orelse=[], lineno=st.lineno), st)]
    st_target = copy.deepcopy(target)
    for x in ast.walk(st_target):
        if hasattr(x, "ctx") and x is st_target:
            x.ctx = ast.Store()
    if mode == "annassign":
        init = ast.copy_location(ast.AnnAssign(target=st_target, annotation=st.annotation, value=ast.Dict(keys=[], values=[]), simple=st.simple), st)
    else:
        init = ast.copy_location(ast.Assign(targets=[st_target], value=ast.Dict(keys=[], values=[]), lineno=st.lineno), st)
    out = [init] + body
    if mode == "return":
        out.append(ast.copy_location(ast.Return(value=ast.Name(id=target.id, ctx=ast.Load())), st))
    for s in out:
        ast.fix_missing_locations(s)
    return out


_tmp_counter = [0]


def _lower_idempotent_set(st):
    """`if X is not V: X = V; REST`  ->  `t = X is not V; X = V; if t: REST`
    (assigning a plain attribute / name the value it already has changes nothing, so the
    assignment can be made unconditional; only the bookkeeping stays conditional)."""
    if not isinstance(st, ast.If) or st.orelse or not st.body:
        return None
    t = st.test
    if not (isinstance(t, ast.Compare) and len(t.ops) == 1 and isinstance(t.ops[0], (ast.IsNot, ast.NotEq))):
        return None
    first = st.body[0]
    if not (isinstance(first, ast.Assign) and len(first.targets) == 1 and isinstance(first.targets[0], (ast.Name, ast.Attribute))):
        return None
    tgt, val = ast.unparse(first.targets[0]), ast.unparse(first.value)
    a_, b_ = ast.unparse(t.left), ast.unparse(t.comparators[0])
    if {a_, b_} != {tgt, val} or tgt == val:
        return None
    if not isinstance(first.value, (ast.Name, ast.Attribute, ast.Constant)):
        return None
    rest = st.body[1:]
    if not rest:
        return [first]
    _tmp_counter[0] += 1
    tmp = f"_norm{_tmp_counter[0]}_changed"
    out = [
        ast.copy_location(ast.Assign(targets=[ast.Name(id=tmp, ctx=ast.Store())], value=t, lineno=st.lineno), st),
        first,
        ast.copy_location(ast.If(test=ast.Name(id=tmp, ctx=ast.Load()), body=rest, orelse=[]), st),
    ]
    for s_ in out:
        ast.fix_missing_locations(s_)
    return out


def _rewrite_blocks(node) -> bool:
    changed = False
    for fld in ("body", "orelse", "finalbody"):
        block = getattr(node, fld, None)
        if not isinstance(block, list) or not block or not isinstance(block[0], ast.stmt):
            continue
        new_block = []
        for st in block:
            rep = _lower_ifexp_stmt(st) or _lower_dictcomp_stmt(st) or _lower_idempotent_set(st)
            if rep is not None:
                new_block.extend(rep)
                changed = True
            else:
                new_block.append(st)
        setattr(node, fld, new_block)
        for st in new_block:
            if _rewrite_blocks(st):
                changed = True
    if isinstance(node, ast.Try):
        for h in node.handlers:
            if _rewrite_blocks(h):
                changed = True
    if isinstance(node, ast.Match):  # pragma: no cover
        for c in node.cases:
            if _rewrite_blocks(c):
                changed = True
    return changed


def _annotate_raises(tree: ast.Module) -> None:
    """`exc = Cls(...)` ... `raise exc`: remember what the name is bound to (single binding)."""
    for fn in ast.walk(tree):
        if not isinstance(fn, (ast.FunctionDef, ast.AsyncFunctionDef)):
            continue
        binds: dict = {}
        for n in ast.walk(fn):
            if isinstance(n, ast.Assign) and len(n.targets) == 1 and isinstance(n.targets[0], ast.Name):
                binds.setdefault(n.targets[0].id, []).append(n.value)
            elif isinstance(n, (ast.AnnAssign, ast.AugAssign, ast.NamedExpr)) and isinstance(n.target, ast.Name):
                binds.setdefault(n.target.id, []).append(getattr(n, "value", None))
            elif isinstance(n, ast.ExceptHandler) and n.name:
                binds.setdefault(n.name, []).append(None)
            elif isinstance(n, (ast.For, ast.AsyncFor, ast.With, ast.AsyncWith)):
                for x in ast.walk(n.target if isinstance(n, (ast.For, ast.AsyncFor)) else ast.Tuple(elts=[i.optional_vars for i in n.items if i.optional_vars is not None])):
                    if isinstance(x, ast.Name):
                        binds.setdefault(x.id, []).append(None)
        for n in ast.walk(fn):
            if isinstance(n, ast.Raise) and isinstance(n.exc, ast.Name):
                vals = binds.get(n.exc.id, [])
                if len(vals) == 1 and isinstance(vals[0], ast.Call):
                    n._exc_resolved = vals[0]  # type: ignore[attr-defined]


def _chain_text(e):
    """`a.b.c` for an attribute chain rooted at a Name, else None."""
    parts = []
    while isinstance(e, ast.Attribute):
        parts.append(e.attr)
        e = e.value
    if isinstance(e, ast.Name):
        return ".".join([e.id] + list(reversed(parts)))
    return None


def _own_walk(fn):
    """Nodes of a function body without descending into nested defs / lambdas / classes."""
    stack = list(fn.body)
    while stack:
        n = stack.pop()
        yield n
        if isinstance(n, (ast.FunctionDef, ast.AsyncFunctionDef, ast.ClassDef, ast.Lambda)):
            continue
        stack.extend(ast.iter_child_nodes(n))


def _inline_local_aliases(tree: ast.Module) -> bool:
    """`pending = self._hooks` ... `pending.pop()`  ->  `self._hooks.pop()`.

    A local that is bound exactly once, at the top level of the function body, to an attribute
    chain rooted at a parameter, is the same object as the chain for as long as no prefix of the
    chain is rebound in the function; its later uses are replaced by the chain (the binding
    itself stays)."""
    changed = False
    for fn in ast.walk(tree):
        if not isinstance(fn, (ast.FunctionDef, ast.AsyncFunctionDef)):
            continue
        params = {a.arg for a in fn.args.posonlyargs + fn.args.args + fn.args.kwonlyargs}
        stores: dict = {}
        rebound_chains = set()
        declared = set()
        for n in _own_walk(fn):
            if isinstance(n, (ast.Global, ast.Nonlocal)):
                declared |= set(n.names)
            elif isinstance(n, ast.Name) and isinstance(n.ctx, (ast.Store, ast.Del)):
                stores[n.id] = stores.get(n.id, 0) + 1
            elif isinstance(n, ast.ExceptHandler) and n.name:
                stores[n.name] = stores.get(n.name, 0) + 1
            elif isinstance(n, ast.Attribute) and isinstance(n.ctx, (ast.Store, ast.Del)):
                c = _chain_text(n)
                if c:
                    rebound_chains.add(c)
        captured = {x.id for sub in _own_walk(fn) if isinstance(sub, (ast.FunctionDef, ast.AsyncFunctionDef, ast.Lambda)) for x in ast.walk(sub) if isinstance(x, ast.Name)}
        aliases = {}
        for st in _own_walk(fn):
            if isinstance(st, ast.Assign) and len(st.targets) == 1 and isinstance(st.targets[0], ast.Name):
                v = st.targets[0].id
                chain = _chain_text(st.value) if isinstance(st.value, ast.Attribute) else None
                if chain is None or stores.get(v) != 1 or v in declared or v in params or v in captured:
                    continue
                root = chain.split(".")[0]
                if root not in params or stores.get(root):
                    continue
                prefixes = {".".join(chain.split(".")[: i + 1]) for i in range(1, len(chain.split(".")))}
                if prefixes & rebound_chains:
                    continue
                aliases[v] = (st, st.value)
        if not aliases:
            continue

        class R(ast.NodeTransformer):
            def visit_FunctionDef(self, node):
                return node

            visit_AsyncFunctionDef = visit_FunctionDef
            visit_Lambda = visit_FunctionDef
            visit_ClassDef = visit_FunctionDef

            def visit_Name(self, node):
                nonlocal changed
                if isinstance(node.ctx, ast.Load) and node.id in aliases and node.lineno > aliases[node.id][0].lineno:
                    changed = True
                    return ast.copy_location(copy.deepcopy(aliases[node.id][1]), node)
                return node

        r = R()
        for i, st in enumerate(fn.body):
            fn.body[i] = r.visit(st)
    return changed


_CONST_VALUE = (ast.Constant,)


def _is_const_value(e) -> bool:
    if isinstance(e, ast.Constant):
        return not isinstance(e.value, (bytes,)) or True
    if isinstance(e, ast.UnaryOp) and isinstance(e.op, ast.USub) and isinstance(e.operand, ast.Constant):
        return True
    if isinstance(e, ast.Attribute):
        return _chain_text(e) is not None
    if isinstance(e, ast.Tuple):
        return all(_is_const_value(x) or isinstance(x, ast.Name) for x in e.elts)
    return False


def _inline_module_constants(tree: ast.Module) -> bool:
    """A module-level name bound exactly once to a literal (number, string, tuple of such, or a
    dotted name such as `signal.SIGTERM` / `ContextState.closing`) is replaced by the literal
    inside the functions of that module (hoisting a constant out of a function is a no-op)."""
    binds: dict = {}
    counts: dict = {}
    for st in tree.body:
        tg = None
        if isinstance(st, ast.Assign) and len(st.targets) == 1 and isinstance(st.targets[0], ast.Name):
            tg, val = st.targets[0].id, st.value
        elif isinstance(st, ast.AnnAssign) and isinstance(st.target, ast.Name) and st.value is not None:
            tg, val = st.target.id, st.value
        if tg is not None:
            counts[tg] = counts.get(tg, 0) + 1
            if _is_const_value(val):
                binds[tg] = val
    for n in ast.walk(tree):
        if isinstance(n, ast.Global):
            for x in n.names:
                counts[x] = 99
        elif isinstance(n, ast.Name) and isinstance(n.ctx, (ast.Store, ast.Del)) and n.id in binds:
            counts[n.id] = counts.get(n.id, 0) + 1
    # every Store counted twice for the binding itself (once above, once in the walk)
    consts = {k: v for k, v in binds.items() if counts.get(k) == 2 and k != "__all__" and not (k.startswith("__") and k.endswith("__"))}
    if not consts:
        return False
    changed = False
    for fn in ast.walk(tree):
        if not isinstance(fn, (ast.FunctionDef, ast.AsyncFunctionDef)):
            continue
        local = {a.arg for a in fn.args.posonlyargs + fn.args.args + fn.args.kwonlyargs}
        local |= {x.id for x in ast.walk(fn) if isinstance(x, ast.Name) and isinstance(x.ctx, (ast.Store, ast.Del))}

        class R(ast.NodeTransformer):
            def visit_Name(self, node):
                nonlocal changed
                if isinstance(node.ctx, ast.Load) and node.id in consts and node.id not in local:
                    changed = True
                    return ast.copy_location(copy.deepcopy(consts[node.id]), node)
                return node

        r = R()
        fn.body = [r.visit(st) for st in fn.body]
    return changed


def _flatten_star_tuples(tree: ast.Module) -> bool:
    """`f(*(a, b), c)` -> `f(a, b, c)`"""
    changed = False
    for n in ast.walk(tree):
        if isinstance(n, ast.Call) and any(isinstance(a, ast.Starred) and isinstance(a.value, (ast.Tuple, ast.List)) and not any(isinstance(e, ast.Starred) for e in a.value.elts) for a in n.args):
            new = []
            for a in n.args:
                if isinstance(a, ast.Starred) and isinstance(a.value, (ast.Tuple, ast.List)) and not any(isinstance(e, ast.Starred) for e in a.value.elts):
                    new.extend(a.value.elts)
                    changed = True
                else:
                    new.append(a)
            n.args = new
    return changed


def normalize_tree(tree: ast.Module) -> bool:
    _annotate_raises(tree)
    changed_any = False
    if _flatten_star_tuples(tree):
        changed_any = True
    if not getattr(tree, "_norm_consts_done", False):
        if _inline_module_constants(tree):
            changed_any = True
        tree._norm_consts_done = True  # type: ignore[attr-defined]
    for _ in range(4):  # aliases of aliases
        if not _inline_local_aliases(tree):
            break
        changed_any = True
    for _ in range(6):
        if not _rewrite_blocks(tree):
            break
        changed_any = True
    if changed_any:
        ast.fix_missing_locations(tree)
    return changed_any
