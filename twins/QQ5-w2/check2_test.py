"""Behaviour checks for refactoring 2 (Signal binding and dispatch phases)."""

from __future__ import annotations

import dataclasses
import gc
import sys
import time
import warnings
from typing import Any

import pytest
from anyio import WouldBlock, create_task_group, fail_after, wait_all_tasks_blocked

from asphalt.core import (
    Event,
    Signal,
    SignalQueueFull,
    UnboundSignal,
    stream_events,
    wait_event,
)

pytestmark = pytest.mark.anyio()


class DummyEvent(Event):
    def __init__(self, *args: Any) -> None:
        self.args = args


class OtherEvent(Event):
    pass


class Source:
    event_a = Signal(DummyEvent)
    event_b = Signal(DummyEvent)
    other = Signal(OtherEvent)


class TestBinding:
    def test_class_access_returns_declaration(self) -> None:
        assert Source.event_a is Source.__dict__["event_a"]
        assert Source.event_a is not Source.event_b

    def test_instance_access_is_cached_per_instance(self) -> None:
        first, second = Source(), Source()
        assert first.event_a is first.event_a
        assert first.event_a is not second.event_a
        assert first.event_a is not first.event_b
        assert first.event_a is not Source.event_a
        assert first.event_a.event_class is DummyEvent

    def test_dataclass_fields_unchanged(self) -> None:
        assert [f.name for f in dataclasses.fields(Signal)] == [
            "event_class",
            "_instance",
            "_topic",
            "_send_streams",
            "_bound_signals",
        ]

    def test_bound_signal_not_bound_again_through_class(self) -> None:
        source = Source()
        bound = source.event_a
        # Descriptor protocol applied by hand to the declaration
        assert Source.event_a.__get__(source, Source) is bound
        assert Source.event_a.__get__(None, Source) is Source.event_a

    def test_non_weakrefable_owner(self) -> None:
        class Slotted:
            __slots__ = ()
            sig = Signal(DummyEvent)

        with pytest.raises(TypeError, match="weak reference") as exc:
            Slotted().sig

        assert exc.value.__context__ is None

    def test_unhashable_owner(self) -> None:
        class Unhashable:
            sig = Signal(DummyEvent)

            def __eq__(self, other: object) -> bool:
                return self is other

        with pytest.raises(TypeError, match="unhashable"):
            Unhashable().sig

    def test_owner_garbage_collected(self) -> None:
        source = Source()
        bound = source.event_a
        del source
        gc.collect()
        event = DummyEvent()
        bound.dispatch(event)
        assert event.source is None
        assert event.topic == "event_a"


class TestDispatchErrors:
    def test_unbound_dispatch(self) -> None:
        with pytest.raises(UnboundSignal):
            Source.event_a.dispatch(DummyEvent())

    def test_unbound_check_precedes_type_check(self) -> None:
        with pytest.raises(UnboundSignal):
            Source.event_a.dispatch(OtherEvent())  # type: ignore[arg-type]

    def test_type_mismatch_leaves_event_untouched(self) -> None:
        source = Source()
        event = OtherEvent()
        with pytest.raises(TypeError) as exc:
            source.event_a.dispatch(event)  # type: ignore[arg-type]

        assert str(exc.value) == (
            f"Event type mismatch: event ({__name__}.OtherEvent) is not a subclass "
            f"of {__name__}.DummyEvent"
        )
        assert not hasattr(event, "source")
        assert not hasattr(event, "topic")
        assert not hasattr(event, "time")

    def test_non_event_object(self) -> None:
        with pytest.raises(TypeError, match=r"event \(int\) is not a subclass"):
            Source().event_a.dispatch(5)  # type: ignore[arg-type]

    async def test_type_mismatch_not_delivered(self) -> None:
        source = Source()
        async with source.event_a.stream_events() as stream:
            with pytest.raises(TypeError):
                source.event_a.dispatch(OtherEvent())  # type: ignore[arg-type]

            good = DummyEvent(1)
            source.event_a.dispatch(good)
            with fail_after(1):
                assert await stream.__anext__() is good

    async def test_unbound_stream_and_wait(self) -> None:
        with pytest.raises(UnboundSignal):
            async with stream_events([Source.event_a]):
                pytest.fail("should not get here")

        with pytest.raises(UnboundSignal):
            await wait_event([Source.event_a])

        with pytest.raises(UnboundSignal):
            await Source.event_a.wait_event()

    async def test_unbound_among_bound_unsubscribes_the_bound_one(self) -> None:
        source = Source()
        with pytest.raises(UnboundSignal):
            async with stream_events([source.event_a, Source.event_b]):
                pytest.fail("should not get here")

        # No subscriber is left behind on event_a: filling would otherwise warn
        with warnings.catch_warnings():
            warnings.simplefilter("error")
            for _ in range(100):
                source.event_a.dispatch(DummyEvent())


class TestDispatch:
    def test_dispatch_without_subscribers_stamps_event(self) -> None:
        source = Source()
        event = DummyEvent()
        before = time.time()
        assert source.event_b.dispatch(event) is None
        after = time.time()
        assert event.source is source
        assert event.topic == "event_b"
        assert before <= event.time <= after
        assert repr(event) == f"DummyEvent(source={source!r}, topic='event_b')"

    def test_redispatch_restamps(self) -> None:
        first, second = Source(), Source()
        event = DummyEvent()
        first.event_a.dispatch(event)
        second.event_b.dispatch(event)
        assert event.source is second
        assert event.topic == "event_b"

    async def test_delivery_to_all_subscribers(self) -> None:
        source = Source()
        async with source.event_a.stream_events() as stream1, stream_events(
            [source.event_a, source.event_b]
        ) as stream2:
            events = [DummyEvent(i) for i in range(3)]
            source.event_a.dispatch(events[0])
            source.event_b.dispatch(events[1])
            source.event_a.dispatch(events[2])
            with fail_after(1):
                assert await stream1.__anext__() is events[0]
                assert await stream1.__anext__() is events[2]
                assert [await stream2.__anext__() for _ in range(3)] == events

            assert [e.topic for e in events] == ["event_a", "event_b", "event_a"]

    async def test_same_signal_listed_twice_gets_event_twice(self) -> None:
        source = Source()
        async with stream_events([source.event_a, source.event_a]) as stream:
            event = DummyEvent()
            source.event_a.dispatch(event)
            with fail_after(1):
                assert await stream.__anext__() is event
                assert await stream.__anext__() is event

    async def test_filter(self) -> None:
        source = Source()
        async with source.event_a.stream_events(lambda e: e.args[0] % 2) as stream:
            for i in range(5):
                source.event_a.dispatch(DummyEvent(i))

            with fail_after(1):
                assert (await stream.__anext__()).args == (1,)
                assert (await stream.__anext__()).args == (3,)

    async def test_filter_exception_propagates_to_consumer(self) -> None:
        def bad_filter(event: DummyEvent) -> bool:
            raise RuntimeError("bad filter")

        source = Source()
        async with source.event_a.stream_events(bad_filter) as stream:
            source.event_a.dispatch(DummyEvent())
            with pytest.raises(RuntimeError, match="bad filter"):
                await stream.__anext__()

    async def test_wait_event(self) -> None:
        source = Source()
        received: list[DummyEvent] = []

        async def waiter() -> None:
            received.append(
                await wait_event(
                    [source.event_a, source.event_b], lambda e: e.args == (2,)
                )
            )

        async with create_task_group() as tg:
            tg.start_soon(waiter)
            await wait_all_tasks_blocked()
            source.event_a.dispatch(DummyEvent(1))
            wanted = DummyEvent(2)
            source.event_b.dispatch(wanted)
            source.event_a.dispatch(DummyEvent(2))

        assert received == [wanted]

    async def test_unsubscribed_after_exit(self) -> None:
        source = Source()
        async with source.event_a.stream_events(max_queue_size=1):
            pass

        with warnings.catch_warnings():
            warnings.simplefilter("error")
            source.event_a.dispatch(DummyEvent())
            source.event_a.dispatch(DummyEvent())

    async def test_unsubscribed_after_body_error(self) -> None:
        source = Source()
        with pytest.raises(KeyError):
            async with source.event_a.stream_events(max_queue_size=1):
                raise KeyError("boom")

        with warnings.catch_warnings():
            warnings.simplefilter("error")
            source.event_a.dispatch(DummyEvent())
            source.event_a.dispatch(DummyEvent())


class TestQueueFull:
    async def test_warning_message_and_location(self) -> None:
        source = Source()
        async with source.event_a.stream_events(max_queue_size=2) as stream:
            source.event_a.dispatch(DummyEvent(0))
            source.event_a.dispatch(DummyEvent(1))
            with warnings.catch_warnings(record=True) as caught:
                warnings.simplefilter("always")
                lineno = sys._getframe().f_lineno + 1
                source.event_a.dispatch(DummyEvent(2))

            assert len(caught) == 1
            warning = caught[0]
            assert warning.category is SignalQueueFull
            assert str(warning.message) == (
                "Queue full (2) when trying to send dispatched event to subscriber"
            )
            # Attributed to the caller of dispatch()
            assert warning.filename == __file__
            assert warning.lineno == lineno
            with fail_after(1):
                assert (await stream.__anext__()).args == (0,)
                assert (await stream.__anext__()).args == (1,)

    async def test_pytest_warns_and_other_subscribers_still_served(self) -> None:
        source = Source()
        async with source.event_a.stream_events(
            max_queue_size=1
        ) as small, source.event_a.stream_events(max_queue_size=5) as big:
            source.event_a.dispatch(DummyEvent(0))
            with pytest.warns(SignalQueueFull, match=r"Queue full \(1\)"):
                source.event_a.dispatch(DummyEvent(1))

            with fail_after(1):
                assert (await small.__anext__()).args == (0,)
                assert (await big.__anext__()).args == (0,)
                assert (await big.__anext__()).args == (1,)

    async def test_warning_as_error_aborts_delivery(self) -> None:
        source = Source()
        async with source.event_a.stream_events(
            max_queue_size=1
        ) as small, source.event_a.stream_events(max_queue_size=5) as big:
            source.event_a.dispatch(DummyEvent(0))
            with warnings.catch_warnings():
                warnings.simplefilter("error", SignalQueueFull)
                with pytest.raises(SignalQueueFull) as exc:
                    source.event_a.dispatch(DummyEvent(1))

            assert isinstance(exc.value.__context__, WouldBlock)
            with fail_after(1):
                assert (await small.__anext__()).args == (0,)
                assert (await big.__anext__()).args == (0,)

            # The second subscriber never got event 1: its queue is now empty
            marker = DummyEvent("marker")
            with warnings.catch_warnings():
                warnings.simplefilter("error")
                source.event_a.dispatch(marker)

            with fail_after(1):
                assert await big.__anext__() is marker

    async def test_zero_size_queue_with_waiting_receiver(self) -> None:
        source = Source()
        results: list[DummyEvent] = []

        async def receiver() -> None:
            async with source.event_a.stream_events(max_queue_size=0) as stream:
                results.append(await stream.__anext__())

        async with create_task_group() as tg:
            tg.start_soon(receiver)
            await wait_all_tasks_blocked()
            with warnings.catch_warnings():
                warnings.simplefilter("error")
                source.event_a.dispatch(DummyEvent("direct"))

        assert [e.args for e in results] == [("direct",)]

    async def test_zero_size_queue_without_waiting_receiver(self) -> None:
        source = Source()
        async with source.event_a.stream_events(max_queue_size=0):
            with pytest.warns(SignalQueueFull, match=r"Queue full \(0\)"):
                source.event_a.dispatch(DummyEvent())
