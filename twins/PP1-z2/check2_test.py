"""
Behaviour check for refactoring 2 (private helpers extracted from resolve_reference,
qualified_name / callable_name and merge_config; message templates hoisted to module
level).  Everything goes through the public ``asphalt.core`` API.
"""

from __future__ import annotations

import warnings
from functools import partial
from typing import Any

import pytest

from asphalt.core import (
    Component,
    Context,
    PluginContainer,
    callable_name,
    inject,
    merge_config,
    qualified_name,
    resolve_reference,
    resource,
    start_component,
)

pytestmark = pytest.mark.anyio


@pytest.fixture
def anyio_backend() -> str:
    return "asyncio"


created: dict[str, dict[str, Any]] = {}


class Leaf(Component):
    def __init__(self, tag: str = "untagged", **options: Any) -> None:
        self.options = options
        created[tag] = options


class NotAComponent:
    pass


class Parent(Component):
    def __init__(self) -> None:
        self.add_component(
            "first", Leaf, tag="first", a=1, nested={"x": 1, "deep": {"k": "orig"}}
        )
        self.add_component("second", f"{__name__}:Leaf", tag="second", b=2)


class Namespace:
    class Holder:
        leaf = Leaf
        value = 42

    @property
    def broken(self) -> Any:
        raise RuntimeError("property exploded")


namespace_instance = Namespace()


class StrSubclass(str):
    def __str__(self) -> str:
        return "custom-str"


# --- resolve_reference through the component machinery ------------------------------


async def test_start_component_by_reference_and_merged_child_config() -> None:
    created.clear()
    async with Context():
        component = await start_component(
            f"{__name__}:Parent",
            {
                "components": {
                    "first": {"a": 10, "nested": {"deep": {"extra": True}, "y": 2}},
                    "third": {
                        "type": f"{__name__}:Namespace.Holder.leaf",
                        "tag": "third",
                        "c": 3,
                    },
                }
            },
        )
        assert type(component) is Parent
        assert list(created) == ["first", "second", "third"]
        first = created["first"]
        assert first == {
            "a": 10,
            "nested": {"x": 1, "deep": {"k": "orig", "extra": True}, "y": 2},
        }
        assert list(first["nested"]) == ["x", "deep", "y"]
        assert created["second"] == {"b": 2}
        assert created["third"] == {"c": 3}


async def test_start_component_child_config_none_and_replacement() -> None:
    created.clear()
    async with Context():
        await start_component(
            Parent,
            {"components": {"second": {"b": {"now": "a dict"}, "tag": "2nd"}}},
        )
        assert created == {
            "first": {"a": 1, "nested": {"x": 1, "deep": {"k": "orig"}}},
            "2nd": {"b": {"now": "a dict"}},
        }
        # Overriding a child's configuration with None replaces it wholesale (including
        # its type), so the alias is then looked up as an entry point name
        with pytest.raises(LookupError) as exc:
            await start_component(Parent, {"components": {"first": None}})

        assert str(exc.value) == "no such entry point in asphalt.components: first"


@pytest.mark.parametrize(
    "ref, message, cause_type",
    [
        (
            "asphalt_no_such_module:Thing",
            "error resolving reference asphalt_no_such_module:Thing: could not import "
            "module",
            ModuleNotFoundError,
        ),
        (
            f"{__name__}:Missing",
            f"error resolving reference {__name__}:Missing: error looking up object",
            None,
        ),
        (
            f"{__name__}:Namespace.Holder.leaf.nope",
            f"error resolving reference {__name__}:Namespace.Holder.leaf.nope: error "
            f"looking up object",
            None,
        ),
    ],
)
async def test_start_component_bad_reference(
    ref: str, message: str, cause_type: type[BaseException] | None
) -> None:
    async with Context():
        with pytest.raises(LookupError) as exc:
            await start_component(ref)

    assert type(exc.value) is LookupError
    assert str(exc.value) == message
    if cause_type is None:
        assert exc.value.__cause__ is None
        assert type(exc.value.__context__) is AttributeError
        assert exc.value.__suppress_context__ is False
    else:
        assert type(exc.value.__cause__) is cause_type
        assert exc.value.__suppress_context__ is True


async def test_start_component_reference_to_non_component() -> None:
    async with Context():
        with pytest.raises(TypeError) as exc:
            await start_component(f"{__name__}:NotAComponent")

        assert str(exc.value) == (
            f"(root): the declared component type ('{__name__}:NotAComponent') "
            f"resolved to {NotAComponent!r} which is not a subclass of Component"
        )
        with pytest.raises(TypeError) as exc:
            await start_component(f"{__name__}:Namespace.Holder.value")

        assert "resolved to 42 which is not a subclass" in str(exc.value)


async def test_child_config_wrong_type_message() -> None:
    async with Context():
        with pytest.raises(TypeError) as exc:
            await start_component(Parent, {"components": {"first": [1, 2]}})

        assert str(exc.value) == (
            "first: component configuration must be either None or a dict (or any "
            "other mutable mapping type), not list"
        )
        with pytest.raises(TypeError) as exc:
            await start_component(Parent, {"components": {"second": NotAComponent()}})

        assert str(exc.value).endswith(f", not {__name__}.NotAComponent")


# --- resolve_reference directly -----------------------------------------------------


def test_resolve_reference_errors_from_attribute_access() -> None:
    # Exceptions other than AttributeError raised by the lookup are not translated
    with pytest.raises(RuntimeError, match="property exploded"):
        resolve_reference(f"{__name__}:namespace_instance.broken")

    with pytest.raises(LookupError) as exc:
        resolve_reference(f"{__name__}:namespace_instance.broken2")

    assert str(exc.value) == (
        f"error resolving reference {__name__}:namespace_instance.broken2: error "
        f"looking up object"
    )
    assert exc.value.__cause__ is None
    assert str(exc.value.__context__) == (
        "'Namespace' object has no attribute 'broken2'"
    )


def test_resolve_reference_import_error_chain() -> None:
    with pytest.raises(LookupError) as exc:
        resolve_reference("asphalt.core._no_such_submodule:x.y")

    cause = exc.value.__cause__
    assert isinstance(cause, ModuleNotFoundError)
    assert cause.name == "asphalt.core._no_such_submodule"
    assert exc.value.__context__ is cause
    assert exc.value.args == (
        "error resolving reference asphalt.core._no_such_submodule:x.y: could not "
        "import module",
    )
    # ValueError (empty module name) and TypeError (relative import without package)
    # are not ImportErrors and pass through
    with pytest.raises(ValueError, match="Empty module name"):
        resolve_reference(":x")

    with pytest.raises(TypeError, match="relative import"):
        resolve_reference("..x:y")


def test_resolve_reference_str_subclass() -> None:
    ref = StrSubclass(f"{__name__}:Leaf")
    assert resolve_reference(ref) is Leaf
    plain = StrSubclass("nothing to resolve")
    assert resolve_reference(plain) is plain
    with pytest.raises(LookupError) as exc:
        resolve_reference(StrSubclass(f"{__name__}:Nope"))

    assert str(exc.value) == (
        "error resolving reference custom-str: error looking up object"
    )
    with pytest.raises(LookupError) as exc:
        resolve_reference(StrSubclass("no_such_module_abc:Nope"))

    assert str(exc.value) == (
        "error resolving reference custom-str: could not import module"
    )


def test_resolve_reference_values() -> None:
    assert resolve_reference(f"{__name__}:Namespace.Holder.value") == 42
    assert resolve_reference(f"{__name__}:Namespace.Holder") is Namespace.Holder
    assert resolve_reference(f"{__name__}:namespace_instance") is namespace_instance
    assert resolve_reference("math:pi.real.__class__") is float
    assert resolve_reference(12) == 12
    assert resolve_reference("braces {0} {ref}") == "braces {0} {ref}"
    with pytest.raises(LookupError) as exc:
        resolve_reference("math:{0}{ref}{}")

    assert str(exc.value) == (
        "error resolving reference math:{0}{ref}{}: error looking up object"
    )
    with pytest.raises(LookupError) as exc:
        resolve_reference("{0}%s:x")

    assert str(exc.value) == (
        "error resolving reference {0}%s:x: could not import module"
    )


# --- PluginContainer ---------------------------------------------------------------


def test_plugin_container_resolve_and_create() -> None:
    container = PluginContainer("asphalt.nonexistent.namespace", Component)
    assert container.resolve(f"{__name__}:Leaf") is Leaf
    assert container.resolve(Leaf) is Leaf
    with pytest.raises(LookupError) as exc:
        container.resolve(f"{__name__}:Gone")

    assert str(exc.value) == (
        f"error resolving reference {__name__}:Gone: error looking up object"
    )
    with pytest.raises(LookupError) as exc:
        container.resolve("gone")

    assert str(exc.value) == (
        "no such entry point in asphalt.nonexistent.namespace: gone"
    )
    leaf = container.create_object(f"{__name__}:Leaf", q=1)
    assert type(leaf) is Leaf and leaf.options == {"q": 1}
    with pytest.raises(TypeError) as exc2:
        container.create_object(f"{__name__}:NotAComponent")

    assert str(exc2.value) == (
        f"{__name__}.NotAComponent is not a subclass of asphalt.core.Component"
    )
    with pytest.raises(TypeError) as exc2:
        container.create_object(f"{__name__}:Namespace.Holder.value")

    assert str(exc2.value) == "int is not a subclass of asphalt.core.Component"
    assert repr(container) == (
        "PluginContainer(namespace='asphalt.nonexistent.namespace', "
        "base_class=asphalt.core.Component)"
    )
    assert repr(PluginContainer("asphalt.nonexistent.namespace")) == (
        "PluginContainer(namespace='asphalt.nonexistent.namespace', "
        "base_class=NoneType)"
    )


# --- naming helpers ----------------------------------------------------------------


class WeirdModule:
    """A class pretending to live in ``builtins``."""


WeirdModule.__module__ = "builtins"


class CallableObject:
    def __call__(self, x: int) -> int:
        return x


def module_level(x: int) -> int:
    return x


module_level_fake_builtin = lambda: None  # noqa: E731
module_level_fake_builtin.__module__ = "builtins"
module_level_fake_builtin.__qualname__ = "some.qual.name"
module_level_fake_builtin.__name__ = "shortname"


def test_name_helpers_builtins_branch() -> None:
    assert qualified_name(WeirdModule) == "WeirdModule"
    assert qualified_name(WeirdModule()) == "WeirdModule"
    assert callable_name(WeirdModule) == "WeirdModule"
    assert callable_name(module_level_fake_builtin) == "shortname"
    assert callable_name(partial(module_level_fake_builtin)) == "shortname"
    assert qualified_name(module_level_fake_builtin) == "function"
    assert qualified_name(dict.fromkeys) == "builtin_function_or_method"
    assert callable_name(dict.fromkeys) == "None.dict.fromkeys"
    assert callable_name(print) == "print"


def test_name_helpers_regular_branch() -> None:
    assert qualified_name(CallableObject) == f"{__name__}.CallableObject"
    assert callable_name(CallableObject()) == f"{__name__}.CallableObject"
    assert callable_name(CallableObject().__call__) == (
        f"{__name__}.CallableObject.__call__"
    )
    # only the outermost partial is unwrapped; partial() flattens nested partials of
    # plain partial objects by itself
    nested = partial(partial(module_level, 1))
    assert callable_name(nested) == f"{__name__}.module_level"

    # a partial carrying instance attributes is not flattened by partial(), and
    # callable_name() unwraps exactly one level
    inner = partial(module_level, 1)
    inner.marker = True  # type: ignore[attr-defined]
    outer = partial(inner)
    assert outer.func is inner
    assert callable_name(outer) == "functools.partial"
    assert callable_name(inner) == f"{__name__}.module_level"

    class PartialSubclass(partial):  # type: ignore[type-arg]
        pass

    assert callable_name(PartialSubclass(CallableObject())) == (
        f"{__name__}.CallableObject"
    )
    with pytest.raises(AttributeError):
        callable_name(str.join)  # method descriptor: no __module__


def test_inject_messages_use_callable_name() -> None:
    with pytest.raises(TypeError) as exc:

        @inject
        def missing_annotation(foo=resource()) -> None:  # type: ignore[no-untyped-def]
            pass

    assert str(exc.value) == (
        f"Dependency for parameter 'foo' of function "
        f"'{__name__}.test_inject_messages_use_callable_name.<locals>."
        f"missing_annotation' is missing the type annotation"
    )
    with pytest.raises(TypeError) as exc:

        @inject
        def forgot_parens(foo: int = resource) -> None:  # type: ignore[assignment]
            pass

    assert str(exc.value).startswith(
        f"Default value for parameter 'foo' of function {__name__}."
        f"test_inject_messages_use_callable_name.<locals>.forgot_parens was the "
    )
    with warnings.catch_warnings(record=True) as caught:
        warnings.simplefilter("always")
        assert inject(module_level) is module_level

    assert [str(w.message) for w in caught] == [
        f"{__name__}.module_level does not have any injectable resources declared"
    ]


# --- merge_config ------------------------------------------------------------------


class DictSubclass(dict):  # type: ignore[type-arg]
    pass


def test_merge_config_dict_subclasses_and_sharing() -> None:
    sub = DictSubclass(a=1)
    result = merge_config({"k": sub}, {"k": {"b": 2}})
    assert type(result["k"]) is dict and result["k"] == {"a": 1, "b": 2}
    assert sub == {"a": 1}
    override = DictSubclass(b=2)
    result = merge_config({"k": {"a": 1}}, {"k": override})
    assert type(result["k"]) is dict and result["k"] == {"a": 1, "b": 2}
    result = merge_config({"k": 1}, {"k": override})
    assert result["k"] is override
    result = merge_config({}, {"k": override})
    assert result["k"] is override
    # a key present with value None vs absent behave alike
    assert merge_config({"k": None}, {"k": {"a": 1}}) == {"k": {"a": 1}}
    # non-string keys are fine too
    assert merge_config({1: {2: 3}}, {1: {4: 5}, None: 0}) == {  # type: ignore[dict-item]
        1: {2: 3, 4: 5},
        None: 0,
    }


def test_merge_config_three_levels_partial_sharing() -> None:
    untouched = {"u": [1]}
    original = {"l1": {"l2": {"l3": {"v": 1}}, "untouched": untouched}}
    overrides = {"l1": {"l2": {"l3": {"w": 2}, "new": {"n": 1}}}}
    result = merge_config(original, overrides)
    assert result == {
        "l1": {
            "l2": {"l3": {"v": 1, "w": 2}, "new": {"n": 1}},
            "untouched": {"u": [1]},
        }
    }
    assert result["l1"]["untouched"] is untouched
    assert result["l1"]["l2"]["new"] is overrides["l1"]["l2"]["new"]
    assert original == {"l1": {"l2": {"l3": {"v": 1}}, "untouched": {"u": [1]}}}
    assert overrides == {"l1": {"l2": {"l3": {"w": 2}, "new": {"n": 1}}}}


def test_merge_config_unhashable_key_error() -> None:
    class BadMapping:
        def __bool__(self) -> bool:
            return True

        def items(self) -> Any:
            return [([], 1)]

    with pytest.raises(TypeError, match="unhashable"):
        merge_config({"a": 1}, BadMapping())  # type: ignore[arg-type]
