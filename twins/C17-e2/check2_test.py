"""
Property C17 (merge_config is a pure, right-biased deep merge), checked through the
public API. Must pass on the unchanged source and with refactor2.diff applied.
"""

from __future__ import annotations

import copy
import itertools
import random
from typing import Any

import pytest

from asphalt.core import merge_config


def expected_merge(original: Any, overrides: Any) -> dict[str, Any]:
    original = {} if original is None else original
    overrides = {} if overrides is None else overrides
    result: dict[str, Any] = {}
    for key in itertools.chain(original, overrides):
        if key in result:
            continue
        elif key in original and key in overrides:
            left, right = original[key], overrides[key]
            if isinstance(left, dict) and isinstance(right, dict):
                result[key] = expected_merge(left, right)
            else:
                result[key] = right
        elif key in overrides:
            result[key] = overrides[key]
        else:
            result[key] = original[key]

    return result


LEAVES: list[Any] = [None, 1, "text", [1, {"in_list": 2}], [], {}, 3.5, ("t",)]
KEYS = ["components", "logging", "asphalt.core", "a.b", "a", "b", "type"]


def build(rng: random.Random, depth: int) -> dict[str, Any]:
    result: dict[str, Any] = {}
    for key in rng.sample(KEYS, rng.randint(0, 5)):
        if depth and rng.random() < 0.5:
            result[key] = build(rng, depth - 1)
        else:
            result[key] = copy.deepcopy(rng.choice(LEAVES))

    return result


@pytest.mark.parametrize("seed", range(250))
def test_random_pairs(seed: int) -> None:
    rng = random.Random(1000 + seed)
    args = [build(rng, 4), build(rng, 4)]
    none_roll = rng.random()
    if none_roll < 0.05:
        args[0] = None  # type: ignore[call-overload]
    elif none_roll < 0.1:
        args[1] = None  # type: ignore[call-overload]

    snapshots = copy.deepcopy(args)
    result = merge_config(args[0], args[1])
    assert result == expected_merge(*snapshots)
    assert type(result) is dict
    assert args == snapshots
    assert result is not args[0] and result is not args[1]


@pytest.mark.parametrize("seed", range(40))
def test_chained_merges_like_multiple_config_files(seed: int) -> None:
    rng = random.Random(5000 + seed)
    layers = [build(rng, 3) for _ in range(4)]
    snapshots = copy.deepcopy(layers)

    config: dict[str, Any] = {}
    expected: dict[str, Any] = {}
    for layer, snapshot in zip(layers, snapshots):
        previous = config
        previous_snapshot = copy.deepcopy(previous)
        config = merge_config(config, layer)
        expected = expected_merge(expected, snapshot)
        assert config == expected
        # the previous accumulated result is an argument too: it must be untouched
        assert previous == previous_snapshot

    assert layers == snapshots


def test_same_object_as_both_arguments() -> None:
    config = {"a": {"b": {"c": [1]}, "d": 2}, "e": None, "f.g": {}}
    snapshot = copy.deepcopy(config)
    result = merge_config(config, config)
    assert result == snapshot
    assert config == snapshot
    assert result is not config
    assert result["a"] is not config["a"]
    assert result["a"]["b"] is not config["a"]["b"]


def test_shared_subdictionary_in_inputs() -> None:
    shared = {"level": "INFO", "handlers": {"console": {"class": "x"}}}
    original = {"one": shared, "two": shared}
    overrides = {"one": {"level": "DEBUG"}, "two": {"handlers": {"console": None}}}
    result = merge_config(original, overrides)
    assert result == {
        "one": {"level": "DEBUG", "handlers": {"console": {"class": "x"}}},
        "two": {"level": "INFO", "handlers": {"console": None}},
    }
    assert shared == {"level": "INFO", "handlers": {"console": {"class": "x"}}}
    assert original == {"one": shared, "two": shared}
    assert overrides == {
        "one": {"level": "DEBUG"},
        "two": {"handlers": {"console": None}},
    }


@pytest.mark.parametrize(
    "original, overrides, expected",
    [
        pytest.param({"k": {"a": 1}}, {"k": 1}, {"k": 1}, id="dict_vs_scalar"),
        pytest.param({"k": 1}, {"k": {"a": 1}}, {"k": {"a": 1}}, id="scalar_vs_dict"),
        pytest.param({"k": {"a": 1}}, {"k": None}, {"k": None}, id="dict_vs_none"),
        pytest.param({"k": None}, {"k": {"a": 1}}, {"k": {"a": 1}}, id="none_vs_dict"),
        pytest.param({"k": {"a": 1}}, {"k": []}, {"k": []}, id="dict_vs_list"),
        pytest.param({"k": [1, 2]}, {"k": [3]}, {"k": [3]}, id="list_vs_list"),
        pytest.param({"k": {"a": 1}}, {"k": {}}, {"k": {"a": 1}}, id="dict_vs_empty"),
        pytest.param({"k": {}}, {"k": {"a": 1}}, {"k": {"a": 1}}, id="empty_vs_dict"),
        pytest.param({"k": {}}, {"k": {}}, {"k": {}}, id="empty_vs_empty"),
        pytest.param(
            {"k": [{"a": 1}]}, {"k": [{"b": 2}]}, {"k": [{"b": 2}]}, id="dicts_in_lists"
        ),
        pytest.param(
            {"x": {"y": 1}}, {"x.y": 2}, {"x": {"y": 1}, "x.y": 2}, id="dotted_key"
        ),
        pytest.param(None, None, {}, id="both_none"),
        pytest.param(None, {"x.y": {"z": 1}}, {"x.y": {"z": 1}}, id="original_none"),
        pytest.param({"x.y": {"z": 1}}, None, {"x.y": {"z": 1}}, id="overrides_none"),
    ],
)
def test_collision_table(original: Any, overrides: Any, expected: Any) -> None:
    snapshots = copy.deepcopy((original, overrides))
    result = merge_config(original, overrides)
    assert result == expected
    assert type(result) is dict
    assert (original, overrides) == snapshots
    assert result is not original
    assert result is not overrides
