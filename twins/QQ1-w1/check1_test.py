"""Behaviour checks for refactoring 1 (name validation helper, keyword construction)."""

from __future__ import annotations

import itertools
from contextlib import asynccontextmanager
from typing import Any, AsyncIterator, List

import pytest
from anyio import fail_after

from asphalt.core import (
    Context,
    ResourceConflict,
    ResourceEvent,
    add_resource,
    add_resource_factory,
    get_resource_nowait,
)

pytestmark = pytest.mark.anyio

NAME_MESSAGE = (
    '"name" must be a nonempty string consisting only of alphanumeric '
    "characters and underscores"
)


class Marker:
    pass


_marker_counter = itertools.count()


@asynccontextmanager
async def recording(ctx: Context) -> AsyncIterator[Any]:
    """Yield a coroutine function returning all events dispatched so far."""
    async with ctx.resource_added.stream_events() as stream:
        async def drain() -> List[ResourceEvent]:
            marker_name = f"marker{next(_marker_counter)}"
            ctx.add_resource(Marker(), marker_name)
            events: List[ResourceEvent] = []
            with fail_after(3):
                async for event in stream:
                    if event.resource_name == marker_name:
                        return events
                    events.append(event)
            raise AssertionError("unreachable")

        yield drain


@pytest.fixture
def anyio_backend() -> str:
    return "asyncio"


@pytest.mark.parametrize("bad_name", ["", "foo bar", "a-b", "x.y", "tab\t", " lead"])
async def test_bad_names_rejected_identically(bad_name: str) -> None:
    async with Context() as ctx, recording(ctx) as drain:
        with pytest.raises(ValueError) as exc1:
            ctx.add_resource(1, bad_name)
        assert str(exc1.value) == NAME_MESSAGE
        with pytest.raises(ValueError) as exc2:
            ctx.add_resource_factory(lambda: 1, bad_name, types=[int])
        assert str(exc2.value) == NAME_MESSAGE
        assert type(exc1.value) is ValueError and type(exc2.value) is ValueError
        assert await drain() == []
        assert ctx.get_resources(int) == {}


@pytest.mark.parametrize("good_name", ["default", "a_b", "A1", "_", "ünï", "9"])
async def test_good_names_accepted(good_name: str) -> None:
    async with Context() as ctx:
        ctx.add_resource(5, good_name)
        ctx.add_resource_factory(lambda: "s", good_name, types=str)
        assert ctx.get_resource_nowait(int, good_name) == 5
        assert ctx.get_resource_nowait(str, good_name) == "s"


async def test_validation_order_add_resource() -> None:
    async with Context() as ctx:
        # types error wins over None value and bad name
        with pytest.raises(TypeError, match="types must be a type or sequence"):
            ctx.add_resource(None, "bad name", types=[1])  # type: ignore[list-item]
        # None value wins over bad name
        with pytest.raises(ValueError, match='"value" must not be None'):
            ctx.add_resource(None, "bad name")
        # bad name wins over conflict and bad teardown callback
        ctx.add_resource(1)
        with pytest.raises(ValueError, match='"name" must be'):
            ctx.add_resource(1, "", teardown_callback=5)  # type: ignore[arg-type]
        # conflict wins over bad teardown callback
        with pytest.raises(ResourceConflict) as exc:
            ctx.add_resource(2, teardown_callback=5)  # type: ignore[arg-type]
        assert str(exc.value) == (
            "this context already contains a resource of type int using the name "
            "'default'"
        )
        # bad teardown callback: resource not added, no event
        async with recording(ctx) as drain:
            with pytest.raises(TypeError, match="callback must be a callable"):
                ctx.add_resource("x", teardown_callback=5)  # type: ignore[arg-type]
            assert ctx.get_resource_nowait(str, optional=True) is None
            assert await drain() == []

    # State check comes before everything
    with pytest.raises(RuntimeError, match="has already been closed"):
        ctx.add_resource(None, "bad name")
    with pytest.raises(RuntimeError, match="has already been closed"):
        ctx.add_resource_factory(lambda: 1, "bad name")


async def test_validation_order_factory() -> None:
    ctx = Context()
    with pytest.raises(RuntimeError, match="has not been entered yet"):
        ctx.add_resource_factory(lambda: 1, "")
    async with ctx:
        # bad name wins over missing type hints
        with pytest.raises(ValueError, match='"name" must be'):
            ctx.add_resource_factory(lambda: 1, "no good")
        with pytest.raises(ValueError, match="no resource types specified"):
            ctx.add_resource_factory(lambda: 1, "good")


async def test_event_and_container_contents() -> None:
    async with Context() as ctx, recording(ctx) as drain:
        calls: List[str] = []
        ctx.add_resource(
            4,
            "four",
            [int, float],
            description="a number",
            teardown_callback=lambda: calls.append("td"),
        )
        events = await drain()
        assert len(events) == 1
        event = events[0]
        assert event.resource_types == (int, float)
        assert event.resource_name == "four"
        assert event.resource_description == "a number"
        assert event.is_factory is False
        assert event.source is ctx
        assert event.topic == "resource_added"
        assert ctx.get_resource_nowait(int, "four") == 4
        assert ctx.get_resource_nowait(float, "four") == 4
        assert ctx.get_resources(float) == {"four": 4}
        # partial conflict on the second type
        with pytest.raises(ResourceConflict, match="of type float using the name"):
            ctx.add_resource(4.5, "four", [str, float])
        assert ctx.get_resource_nowait(str, "four", optional=True) is None
        assert await drain() == []
        assert calls == []

    assert calls == ["td"]


async def test_module_level_shortcuts() -> None:
    async with Context():
        with pytest.raises(ValueError) as exc:
            add_resource(1, "not ok")
        assert str(exc.value) == NAME_MESSAGE
        with pytest.raises(ValueError) as exc:
            add_resource_factory(lambda: 1, "not ok", types=int)
        assert str(exc.value) == NAME_MESSAGE
        add_resource(1, "ok")
        assert get_resource_nowait(int, "ok") == 1
