"""Behaviour checks for refactoring 1 (``asphalt run`` command, _cli.py)."""

from __future__ import annotations

from pathlib import Path
from typing import Any
from unittest.mock import patch

import click
import pytest
from click.testing import CliRunner

from asphalt.core import _cli


@pytest.fixture
def runner() -> CliRunner:
    return CliRunner()


def invoke(
    runner: CliRunner,
    files: dict[str, str],
    args: list[str],
    env: dict[str, str] | None = None,
    standalone: bool = True,
) -> tuple[Any, Any]:
    with runner.isolated_filesystem(), patch(
        "asphalt.core._cli.run_application"
    ) as run_app:
        for name, content in files.items():
            Path(name).write_text(content)

        result = runner.invoke(
            _cli.run, args, env=env or {}, standalone_mode=standalone
        )

    return result, run_app


BASIC = """\
component:
  type: mod:Comp
  a:
    b: 1
  "dotted.key":
    x: 1
logging:
  version: 1
"""


def test_overrides_nested_escaped_and_ordered(runner: CliRunner) -> None:
    result, run_app = invoke(
        runner,
        {"c.yml": BASIC},
        [
            "c.yml",
            "--set",
            "component.a.c=[1, 2]",
            "--set",
            r"component.dotted\.key.y=foo=bar",
            "--set",
            "component.new.deep.er=null",
            "--set",
            "component.a.c=later",
            "--set",
            "max_threads=5",
            "--set",
            r"top\.level={k: v}",
        ],
    )
    assert result.exit_code == 0, result.output
    run_app.assert_called_once_with(
        "mod:Comp",
        {
            "a": {"b": 1, "c": "later"},
            "dotted.key": {"x": 1, "y": "foo=bar"},
            "new": {"deep": {"er": None}},
        },
        logging={"version": 1},
        max_threads=5,
        backend="asyncio",
        backend_options={},
        **{"top.level": {"k": "v"}},
    )


def test_multiple_files_merged_and_backend_options(runner: CliRunner) -> None:
    second = """\
backend: trio
backend_options:
  foo: 1
component:
  a:
    z: 9
  extra: true
start_timeout: 3
"""
    result, run_app = invoke(runner, {"1.yml": BASIC, "2.yml": second}, ["1.yml", "2.yml"])
    assert result.exit_code == 0, result.output
    run_app.assert_called_once_with(
        "mod:Comp",
        {"a": {"b": 1, "z": 9}, "dotted.key": {"x": 1}, "extra": True},
        logging={"version": 1},
        start_timeout=3,
        backend="trio",
        backend_options={"foo": 1},
    )


def test_override_missing_equals(runner: CliRunner) -> None:
    result, run_app = invoke(runner, {"c.yml": BASIC}, ["c.yml", "--set", "foobar"])
    assert result.exit_code == 1
    assert result.output == "Error: Configuration must be set with '=', got: foobar\n"
    assert not run_app.called

    result, _ = invoke(
        runner, {"c.yml": BASIC}, ["c.yml", "--set", "foobar"], standalone=False
    )
    assert type(result.exception) is click.ClickException
    assert result.exception.message == (
        "Configuration must be set with '=', got: foobar"
    )


def test_overrides_processed_strictly_in_order(runner: CliRunner) -> None:
    # The value of the first override is parsed (failing on the missing file) before
    # the second override is even looked at...
    result, run_app = invoke(
        runner,
        {"c.yml": BASIC},
        ["c.yml", "--set", "x=!TextFile nonexistent.txt", "--set", "bad"],
    )
    assert isinstance(result.exception, FileNotFoundError)
    assert not run_app.called

    # ...and the other way around
    result, run_app = invoke(
        runner,
        {"c.yml": BASIC},
        ["c.yml", "--set", "bad", "--set", "x=!TextFile nonexistent.txt"],
    )
    assert result.exit_code == 1
    assert result.output == "Error: Configuration must be set with '=', got: bad\n"

    # The first override is applied before the second one is parsed
    result, run_app = invoke(
        runner,
        {"c.yml": BASIC},
        [
            "c.yml",
            "--set",
            "component.a=5",
            "--set",
            "component.a.b=!TextFile nonexistent.txt",
        ],
    )
    assert isinstance(result.exception, FileNotFoundError)

    # A path error in the first override wins over a parse error in the second one
    result, run_app = invoke(
        runner,
        {"c.yml": BASIC},
        [
            "c.yml",
            "--set",
            "component.a.b.c=5",
            "--set",
            "component.q=!TextFile nonexistent.txt",
        ],
    )
    assert result.exit_code == 1
    assert result.output == (
        "Error: Cannot apply override for 'component.a.b.c': value at "
        "component ⟶ a ⟶ b is not a mapping, but int\n"
    )


def test_override_bad_path(runner: CliRunner) -> None:
    config = """\
component:
  type: mod:Comp
  listvalue: []
"""
    result, run_app = invoke(
        runner,
        {"c.yml": config},
        ["c.yml", "--set", r"component.listvalue.f\.oo.bar=1"],
    )
    assert result.exit_code == 1
    assert result.output == (
        "Error: Cannot apply override for 'component.listvalue.f\\\\.oo.bar': value "
        "at component ⟶ listvalue is not a mapping, but list\n"
    )
    assert not run_app.called


def test_document_root_not_a_dict(runner: CliRunner) -> None:
    result, run_app = invoke(runner, {"c.yml": "- 1\n- 2\n"}, ["c.yml"])
    assert isinstance(result.exception, AssertionError)
    assert str(result.exception) == "the document root element must be a dictionary"
    assert not run_app.called


def test_services_not_a_dict(runner: CliRunner) -> None:
    result, run_app = invoke(runner, {"c.yml": "services: [1]\n"}, ["c.yml"])
    assert result.exit_code == 1
    assert result.output == 'Error: The "services" key must be a dict, not list\n'
    assert not run_app.called


def test_no_services(runner: CliRunner) -> None:
    for args in (["c.yml"], ["-s", "foo", "c.yml"], []):
        result, run_app = invoke(runner, {"c.yml": "max_threads: 3\n"}, args)
        assert result.exit_code == 1
        assert result.output == "Error: No services have been defined\n"
        assert not run_app.called


MULTI = """\
max_threads: 15
component:
  type: mod:Top
  toplevel: 1
services:
  web:
    max_threads: 30
    component:
      type: mod:Web
      port: 80
  worker:
    component:
      queue: jobs
"""


def test_service_selection(runner: CliRunner) -> None:
    # Top level "component" becomes the "default" service
    result, run_app = invoke(runner, {"c.yml": MULTI}, ["c.yml"])
    assert result.exit_code == 0, result.output
    run_app.assert_called_once_with(
        "mod:Top",
        {"toplevel": 1},
        max_threads=15,
        backend="asyncio",
        backend_options={},
    )

    result, run_app = invoke(runner, {"c.yml": MULTI}, ["-s", "web", "c.yml"])
    assert result.exit_code == 0, result.output
    run_app.assert_called_once_with(
        "mod:Web", {"port": 80}, max_threads=30, backend="asyncio", backend_options={}
    )

    # Environment variable selects the service; -s takes precedence over it
    result, run_app = invoke(
        runner, {"c.yml": MULTI}, ["c.yml"], env={"ASPHALT_SERVICE": "web"}
    )
    run_app.assert_called_once_with(
        "mod:Web", {"port": 80}, max_threads=30, backend="asyncio", backend_options={}
    )
    result, run_app = invoke(
        runner,
        {"c.yml": MULTI},
        ["-s", "default", "c.yml"],
        env={"ASPHALT_SERVICE": "web"},
    )
    run_app.assert_called_once_with(
        "mod:Top",
        {"toplevel": 1},
        max_threads=15,
        backend="asyncio",
        backend_options={},
    )

    # An empty service name falls back to the environment / default logic
    result, run_app = invoke(
        runner, {"c.yml": MULTI}, ["-s", "", "c.yml"], env={"ASPHALT_SERVICE": ""}
    )
    run_app.assert_called_once_with(
        "mod:Top",
        {"toplevel": 1},
        max_threads=15,
        backend="asyncio",
        backend_options={},
    )


def test_service_not_defined(runner: CliRunner) -> None:
    result, run_app = invoke(runner, {"c.yml": MULTI}, ["-s", "foobar", "c.yml"])
    assert result.exit_code == 1
    assert result.output == "Error: Service 'foobar' has not been defined\n"
    assert not run_app.called

    result, _ = invoke(
        runner, {"c.yml": MULTI}, ["c.yml"], env={"ASPHALT_SERVICE": "nope"},
        standalone=False,
    )
    assert type(result.exception) is click.ClickException
    assert result.exception.message == "Service 'nope' has not been defined"
    assert result.exception.__cause__ is None
    assert result.exception.__suppress_context__ is True


def test_single_service_and_no_default(runner: CliRunner) -> None:
    single = """\
services:
  only:
    component:
      type: mod:Only
"""
    result, run_app = invoke(runner, {"c.yml": single}, ["c.yml"])
    assert result.exit_code == 0, result.output
    run_app.assert_called_once_with(
        "mod:Only", {}, backend="asyncio", backend_options={}
    )

    multiple = """\
services:
  one:
    component:
      type: mod:One
  two:
    component:
      type: mod:Two
"""
    result, run_app = invoke(runner, {"c.yml": multiple}, ["c.yml"])
    assert result.exit_code == 1
    assert result.output == (
        "Error: Multiple services present in configuration file but no default "
        "service has been defined and no service was explicitly selected with -s / "
        "--service\n"
    )
    assert not run_app.called


def test_missing_component_and_type(runner: CliRunner) -> None:
    result, run_app = invoke(runner, {"c.yml": "services:\n  default:\n"}, ["c.yml"])
    assert result.exit_code == 1
    assert result.output == (
        "Error: Service configuration is missing the 'component' key\n"
    )
    assert not run_app.called

    result, _ = invoke(
        runner, {"c.yml": "services:\n  default:\n"}, ["c.yml"], standalone=False
    )
    assert type(result.exception) is click.ClickException
    assert type(result.exception.__cause__) is KeyError
    assert result.exception.__cause__.args == ("component",)

    config = "services:\n  default:\n    component: {}\n"
    result, run_app = invoke(runner, {"c.yml": config}, ["c.yml"])
    assert result.exit_code == 1
    assert result.output == (
        "Error: Root component configuration is missing the 'type' key\n"
    )
    assert not run_app.called

    result, _ = invoke(runner, {"c.yml": config}, ["c.yml"], standalone=False)
    assert type(result.exception) is click.ClickException
    assert type(result.exception.__cause__) is KeyError
    assert result.exception.__cause__.args == ("type",)


def test_component_not_a_mapping(runner: CliRunner) -> None:
    result, run_app = invoke(runner, {"c.yml": "component: just a string\n"}, ["c.yml"])
    assert isinstance(result.exception, AttributeError)
    assert "pop" in str(result.exception)
    assert not run_app.called

    # The service configuration itself is not a mapping
    result, run_app = invoke(runner, {"c.yml": "services:\n  default: 5\n"}, ["c.yml"])
    assert isinstance(result.exception, AttributeError)
    assert not run_app.called
