#!/usr/bin/env python3
"""Confirm a sub-agent's seeded change and record it under /verif/seeded/<id>/.

usage: tools/confirm_seed.py <PROP> <N> [--id NAME] [--src /tmp/wt-<PROP>/_seeded]

Steps (all in a scratch worktree that is removed afterwards; /repo is only touched by
`git apply` + `git checkout -- .` around the static checks):
  1. demo passes on unchanged HEAD           2. patch applies
  3. baseline suite with patch: 287 pass + 4 expected failures
  4. demo fails with patch                   5. which static checks fire on /repo + patch
"""
import json
import os
import re
import shutil
import subprocess
import sys

VERIF = os.path.dirname(os.path.dirname(os.path.abspath(__file__)))
REPO = "/repo"
EXPECTED_FAIL = {"test_run_bad_override", "test_run_bad_path", "test_run_missing_root_component_config", "test_run_missing_root_component_type"}


def sh(cmd, cwd=None, env=None, timeout=1800):
    e = dict(os.environ)
    if env:
        e.update(env)
    r = subprocess.run(cmd, shell=True, cwd=cwd, env=e, capture_output=True, text=True, timeout=timeout)
    return r.returncode, r.stdout + r.stderr


def main():
    prop, n = sys.argv[1].upper(), sys.argv[2]
    src = f"/tmp/wt-{prop}/_seeded"
    sid = f"{prop}-s{n}"
    if "--src" in sys.argv:
        src = sys.argv[sys.argv.index("--src") + 1]
    if "--id" in sys.argv:
        sid = sys.argv[sys.argv.index("--id") + 1]
    diff = os.path.join(src, f"change{n}.diff")
    demo = None
    for cand in (f"demo{n}_test.py", f"demo{n}.py", f"test_demo{n}.py"):
        if os.path.exists(os.path.join(src, cand)):
            demo = os.path.join(src, cand)
    assert os.path.exists(diff), diff
    assert demo, "demo not found"
    wt = f"/tmp/confirm-{sid}"
    sh(f"git -C {REPO} worktree remove --force {wt}")
    rc, out = sh(f"git -C {REPO} worktree add -q --detach {wt} HEAD")
    assert rc == 0, out
    result = {"id": sid, "property": prop}
    try:
        os.makedirs(f"{wt}/_seeded", exist_ok=True)
        shutil.copy(demo, f"{wt}/_seeded/")
        dname = os.path.basename(demo)
        env = {"PYTHONPATH": f"{wt}/src"}
        demo_cmd = f"/venv/bin/python -m pytest -q -p no:cacheprovider --timeout=300 _seeded/{dname}"
        rc0, out0 = sh(demo_cmd, cwd=wt, env=env)
        result["demo_without_change"] = {"exit": rc0, "tail": out0.strip().splitlines()[-1:]}
        rc, out = sh(f"git apply {diff}", cwd=wt)
        result["patch_applies"] = rc == 0
        if rc != 0:
            result["error"] = out
            print(json.dumps(result, indent=1))
            return 1
        rc1, out1 = sh("/venv/bin/python -m pytest -q -p no:cacheprovider --timeout=900 -x --deselect tests/test_cli.py::test_run_bad_override --deselect tests/test_cli.py::test_run_bad_path --deselect tests/test_cli.py::test_run_missing_root_component_config --deselect tests/test_cli.py::test_run_missing_root_component_type", cwd=wt, env=env)
        tail = out1.strip().splitlines()[-1] if out1.strip() else ""
        m = re.search(r"(\d+) passed", tail)
        result["suite_with_change"] = {"exit": rc1, "tail": tail, "passed": int(m.group(1)) if m else 0}
        rc2, out2 = sh(demo_cmd, cwd=wt, env=env)
        result["demo_with_change"] = {"exit": rc2, "tail": out2.strip().splitlines()[-1:]}
    finally:
        sh(f"git -C {REPO} worktree remove --force {wt}")
    ok = result["demo_without_change"]["exit"] == 0 and result["suite_with_change"]["exit"] == 0 and result["suite_with_change"]["passed"] >= 287 and result["demo_with_change"]["exit"] != 0
    result["confirmed"] = ok
    fired = {}
    if "--no-repo" in sys.argv:
        # parallel confirmation phase: the static checks are run afterwards
        # (tools/seed_repo_checks.py applies each kept patch to /repo in turn)
        return _finish(result, ok, fired, sid, prop, n, diff, demo, src)
    # static checks on /repo + patch
    rc, out = sh(f"git -C {REPO} status --porcelain")
    assert not out.strip(), "/repo is dirty"
    try:
        rc, out = sh(f"git -C {REPO} apply {diff}")
        assert rc == 0, out
        manifest = json.load(open(os.path.join(VERIF, "MANIFEST.json")))
        for chk in manifest["checks"]:
            pid = chk["property_id"]
            rc, out = sh(chk["quick_cmd"], cwd=VERIF)
            lines = [l.strip() for l in out.splitlines() if l.startswith("VIOLATION") or l.startswith("  C") or l.startswith("ANALYSIS-ERROR")]
            if rc != 0:
                fired[pid] = {"exit": rc, "lines": lines[:8]}
    finally:
        sh(f"git -C {REPO} checkout -- .")
        # restore evidence of the clean tree for the checks that fired
        for pid in fired:
            sh(f"./check {pid}", cwd=VERIF)
    return _finish(result, ok, fired, sid, prop, n, diff, demo, src)


def _finish(result, ok, fired, sid, prop, n, diff, demo, src):
    result["checks_fired"] = fired
    result["detected_by_own_property"] = prop in fired and fired[prop]["exit"] == 1
    print(json.dumps(result, indent=1))
    if ok:
        dst = os.path.join(VERIF, "seeded", sid)
        os.makedirs(dst, exist_ok=True)
        shutil.copy(diff, os.path.join(dst, "patch.diff"))
        shutil.copy(demo, os.path.join(dst, os.path.basename(demo)))
        notes = os.path.join(src, "notes.md")
        if os.path.exists(notes):
            shutil.copy(notes, os.path.join(dst, "agent_notes.md"))
        meta = {
            "id": sid,
            "breaks_property": prop,
            "change_number": int(n),
            "source": "independent sub-agent given only the property text and a scratch worktree",
            "what_it_needs_to_manifest": "see agent_notes.md",
            "confirmed": {
                "demo_passes_without_change": result["demo_without_change"],
                "suite_with_change": result["suite_with_change"],
                "demo_fails_with_change": result["demo_with_change"],
                "commands": [
                    "git worktree add --detach /tmp/confirm-<id> HEAD; PYTHONPATH=<wt>/src /venv/bin/python -m pytest _seeded/<demo>",
                    "git apply patch.diff; PYTHONPATH=<wt>/src /venv/bin/python -m pytest (4 env-dependent test_cli failures deselected)",
                    "git -C /repo apply patch.diff; every MANIFEST quick_cmd; git -C /repo checkout -- .",
                ],
            },
            "static_checks_fired": fired,
            "detected_by_own_property_check": result["detected_by_own_property"],
        }
        json.dump(meta, open(os.path.join(dst, "meta.json"), "w"), indent=1)
    return 0 if ok else 1


if __name__ == "__main__":
    sys.exit(main())
