#!/usr/bin/env python3
"""Re-evaluate every kept seeded change against all 19 checks (in memory) and refresh
`static_checks_fired` / `detected_by_own_property_check` in its meta.json."""
import glob, json, os, sys
from concurrent.futures import ProcessPoolExecutor
VERIF = os.path.dirname(os.path.dirname(os.path.abspath(__file__)))
sys.path.insert(0, VERIF)
from sa.driver import PROPS, analyse_variant, repo_root
from sa.loader import Project
from selftest.udiff import apply_unified

def job(args):
    sid, diff, prop, sources = args
    ov = apply_unified(sources, diff)
    if ov is None:
        return sid, prop, "n/a", []
    v, rep = analyse_variant(prop, ov)
    if isinstance(rep, str):
        return sid, prop, v, [rep[:200]]
    lines = [f"{i.rule} {i.site} in {i.function}: {i.why[:220]}" for i in rep.instances if i.verdict == "VIOLATION"]
    return sid, prop, v, lines

def main():
    project = Project(repo_root(), inline=False)
    sources = {m.relpath: m.src for m in project.modules.values()}
    jobs, metas = [], {}
    for mp in sorted(glob.glob(os.path.join(VERIF, "seeded", "*", "meta.json"))):
        m = json.load(open(mp))
        metas[m["id"]] = (mp, m)
        diff = open(os.path.join(os.path.dirname(mp), "patch.diff")).read()
        for p in PROPS:
            jobs.append((m["id"], diff, p, sources))
    res = {}
    with ProcessPoolExecutor(max_workers=16) as ex:
        for sid, prop, v, lines in ex.map(job, jobs, chunksize=4):
            if v != "holds":
                res.setdefault(sid, {})[prop] = {"exit": 1 if v == "violation" else 2, "verdict": v, "lines": lines[:6]}
    missed = []
    for sid, (mp, m) in metas.items():
        fired = res.get(sid, {})
        m["static_checks_fired"] = fired
        m["detected_by_own_property_check"] = fired.get(m["breaks_property"], {}).get("exit") == 1
        if not m["detected_by_own_property_check"]:
            missed.append(sid)
        json.dump(m, open(mp, "w"), indent=1)
    print(f"{len(metas)} seeded changes; detected by their own property's check: {len(metas) - len(missed)}; missed: {missed}")

if __name__ == "__main__":
    main()
