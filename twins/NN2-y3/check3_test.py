"""
Behaviour checks for refactoring 3 (``context_teardown`` restructuring: module
level generator helpers, early returns, reordered functions, renamed private
attribute).

Everything is exercised through the public API only.
"""

from __future__ import annotations

import sys
from collections.abc import AsyncGenerator
from typing import Any, Optional

import anyio
import pytest
from anyio import CancelScope, get_cancelled_exc_class
from anyio.lowlevel import checkpoint

from asphalt.core import (
    Component,
    Context,
    NoCurrentContext,
    add_resource,
    add_teardown_callback,
    context_teardown,
    current_context,
    get_resource_nowait,
    start_component,
)

if sys.version_info < (3, 11):
    from exceptiongroup import BaseExceptionGroup, ExceptionGroup

pytestmark = pytest.mark.anyio()

TEARDOWN_MESSAGE = "Exceptions were raised during context teardown"


class TestDecoration:
    @pytest.mark.parametrize(
        "func",
        [
            pytest.param(lambda: None, id="lambda"),
            pytest.param(len, id="builtin"),
            pytest.param(int, id="class"),
        ],
    )
    def test_not_async_generator_function(self, func: Any) -> None:
        with pytest.raises(TypeError, match=" must be an async generator function$"):
            context_teardown(func)

    def test_sync_generator_function(self) -> None:
        def generator() -> Any:
            yield

        with pytest.raises(TypeError) as exc_info:
            context_teardown(generator)  # type: ignore[arg-type]

        assert str(exc_info.value).endswith(
            "test_sync_generator_function.<locals>.generator must be an async "
            "generator function"
        )

    def test_coroutine_function(self) -> None:
        async def start() -> None:
            pass

        with pytest.raises(TypeError, match="start must be an async generator"):
            context_teardown(start)  # type: ignore[arg-type]

    def test_decorating_does_not_call(self) -> None:
        called = []

        async def start() -> AsyncGenerator[None, Optional[BaseException]]:
            called.append(1)
            yield

        wrapper = context_teardown(start)
        assert not called
        assert wrapper.__wrapped__ is start  # type: ignore[attr-defined]
        assert wrapper.__name__ == "start"
        assert wrapper.__qualname__ == start.__qualname__
        assert wrapper.__module__ == __name__


class TestWrapperCall:
    async def test_no_current_context(self) -> None:
        called = []

        @context_teardown
        async def start() -> AsyncGenerator[None, Optional[BaseException]]:
            called.append(1)
            yield

        with pytest.raises(NoCurrentContext):
            await start()

        assert not called

    async def test_bad_arguments(self) -> None:
        @context_teardown
        async def start(a: int) -> AsyncGenerator[None, Optional[BaseException]]:
            yield

        events: list[str] = []
        async with Context() as ctx:
            ctx.add_teardown_callback(lambda: events.append("only"))
            with pytest.raises(TypeError, match="missing 1 required positional"):
                await start()  # type: ignore[call-arg]

        assert events == ["only"]

    async def test_bad_arguments_without_context(self) -> None:
        @context_teardown
        async def start(a: int) -> AsyncGenerator[None, Optional[BaseException]]:
            yield

        # The context lookup comes first
        with pytest.raises(NoCurrentContext):
            await start()  # type: ignore[call-arg]

    async def test_runs_until_first_yield(self) -> None:
        events: list[Any] = []

        @context_teardown
        async def start(
            *args: Any, **kwargs: Any
        ) -> AsyncGenerator[None, Optional[BaseException]]:
            events.append(("start", args, kwargs))
            await checkpoint()
            events.append("before yield")
            exc = yield
            events.append(("teardown", exc))
            await checkpoint()
            events.append("done")

        async with Context():
            result = await start(1, 2, x=3)
            assert result is None
            assert events == [("start", (1, 2), {"x": 3}), "before yield"]

        assert events == [
            ("start", (1, 2), {"x": 3}),
            "before yield",
            ("teardown", None),
            "done",
        ]

    async def test_exception_is_sent(self) -> None:
        received: list[Any] = []
        error = RuntimeError("body failed")

        @context_teardown
        async def start() -> AsyncGenerator[None, Optional[BaseException]]:
            exc = yield
            received.append(exc)

        with pytest.raises(RuntimeError) as exc_info:
            async with Context():
                await start()
                raise error

        assert exc_info.value is error
        assert received == [error]

    async def test_generator_without_yield_reached(self) -> None:
        events: list[str] = []

        @context_teardown
        async def start(flag: bool) -> AsyncGenerator[None, Optional[BaseException]]:
            events.append("start")
            if flag:
                yield

            events.append("end")

        async with Context():
            assert await start(False) is None
            assert events == ["start", "end"]

        # No teardown callback was registered
        assert events == ["start", "end"]

    async def test_error_before_yield(self) -> None:
        events: list[str] = []
        error = ValueError("startup failed")

        @context_teardown
        async def start() -> AsyncGenerator[None, Optional[BaseException]]:
            try:
                events.append("start")
                raise error
                yield
            finally:
                events.append("finally")

        async with Context() as ctx:
            ctx.add_teardown_callback(lambda: events.append("other"))
            with pytest.raises(ValueError) as exc_info:
                await start()

            assert exc_info.value is error
            assert events == ["start", "finally"]

        assert events == ["start", "finally", "other"]

    async def test_cancelled_before_yield(self) -> None:
        events: list[Any] = []
        cancelled_exc_class = get_cancelled_exc_class()

        @context_teardown
        async def start() -> AsyncGenerator[None, Optional[BaseException]]:
            try:
                events.append("start")
                await anyio.sleep_forever()
                yield
                events.append("never")
            except BaseException as exc:
                events.append(type(exc))
                raise

        async with Context():
            with CancelScope() as scope:
                scope.cancel()
                await start()

            assert scope.cancelled_caught
            assert events == ["start", cancelled_exc_class]

        assert events == ["start", cancelled_exc_class]

    async def test_lifo_with_other_callbacks(self) -> None:
        events: list[str] = []

        @context_teardown
        async def start(name: str) -> AsyncGenerator[None, Optional[BaseException]]:
            events.append(f"{name} up")
            yield
            events.append(f"{name} down")

        async with Context():
            add_teardown_callback(lambda: events.append("cb1"))
            await start("a")
            add_teardown_callback(lambda: events.append("cb2"))
            await start("b")

        assert events == ["a up", "b up", "b down", "cb2", "a down", "cb1"]

    async def test_registered_in_context_current_at_call_time(self) -> None:
        events: list[str] = []

        @context_teardown
        async def start(name: str) -> AsyncGenerator[None, Optional[BaseException]]:
            yield
            events.append(f"{name} down in {current_context() is expected[name]}")

        expected: dict[str, Context] = {}
        async with Context() as outer:
            expected["outer"] = outer
            await start("outer")
            async with Context() as inner:
                expected["inner"] = inner
                await start("inner")

            assert events == ["inner down in True"]

        assert events == ["inner down in True", "outer down in True"]


class TestTeardownPhase:
    async def test_second_yield(self) -> None:
        events: list[Any] = []

        @context_teardown
        async def start() -> AsyncGenerator[None, Optional[BaseException]]:
            try:
                yield
                events.append("after first")
                yield
                events.append("never")
            except GeneratorExit:
                events.append("closed")
                raise
            finally:
                events.append("finally")

        async with Context():
            await start()

        assert events == ["after first", "closed", "finally"]

    async def test_error_after_yield(self) -> None:
        events: list[str] = []
        error = ValueError("teardown failed")
        original = RuntimeError("original")

        @context_teardown
        async def start() -> AsyncGenerator[None, Optional[BaseException]]:
            try:
                exc = yield
                events.append(f"got {exc}")
                raise error
            finally:
                events.append("finally")

        async with Context():
            with pytest.raises(ExceptionGroup) as exc_info:
                async with Context() as ctx:
                    ctx.add_teardown_callback(lambda: events.append("still runs"))
                    await start()
                    raise original

        assert events == ["got original", "finally", "still runs"]
        assert exc_info.value.message == TEARDOWN_MESSAGE
        assert exc_info.value.exceptions == (error,)
        assert exc_info.value.__cause__ is original

    async def test_generator_ignoring_close(self) -> None:
        @context_teardown
        async def start() -> AsyncGenerator[None, Optional[BaseException]]:
            yield
            try:
                yield
            except GeneratorExit:
                yield

        async with Context():
            with pytest.raises(ExceptionGroup) as exc_info:
                async with Context():
                    await start()

        assert len(exc_info.value.exceptions) == 1
        assert isinstance(exc_info.value.exceptions[0], RuntimeError)
        assert "ignored GeneratorExit" in str(exc_info.value.exceptions[0])

    async def test_cancelled_during_teardown(self) -> None:
        events: list[Any] = []
        cancelled_exc_class = get_cancelled_exc_class()

        @context_teardown
        async def start() -> AsyncGenerator[None, Optional[BaseException]]:
            try:
                yield
                events.append("teardown start")
                await anyio.sleep_forever()
                events.append("never")
            except BaseException as exc:
                events.append(type(exc))
                raise
            finally:
                events.append("finally")

        outcome: list[BaseException] = []
        async with Context():
            with CancelScope() as scope:
                try:
                    async with Context() as ctx:
                        await start()
                        ctx.add_teardown_callback(scope.cancel)
                except BaseException as exc:
                    outcome.append(exc)
                    raise

            assert scope.cancelled_caught

        assert events == ["teardown start", cancelled_exc_class, "finally"]
        assert len(outcome) == 1
        assert isinstance(outcome[0], BaseExceptionGroup)
        assert [type(exc) for exc in outcome[0].exceptions] == [cancelled_exc_class]

    async def test_generator_swallowing_sent_exception(self) -> None:
        results: list[Any] = []

        @context_teardown
        async def start() -> AsyncGenerator[None, Optional[BaseException]]:
            exc = yield
            results.append(exc)
            return

        error = KeyError("k")
        with pytest.raises(KeyError) as exc_info:
            async with Context():
                await start()
                raise error

        # The exception is only sent as a value, not thrown into the generator
        assert exc_info.value is error
        assert results == [error]

    async def test_multiple_calls_are_independent(self) -> None:
        events: list[str] = []

        @context_teardown
        async def start(name: str) -> AsyncGenerator[None, Optional[BaseException]]:
            yield
            events.append(name)
            if name == "b":
                raise ValueError(name)

        async with Context():
            with pytest.raises(ExceptionGroup) as exc_info:
                async with Context():
                    await start("a")
                    await start("b")
                    await start("c")

        assert events == ["c", "b", "a"]
        assert [str(exc) for exc in exc_info.value.exceptions] == ["b"]


class TestInComponents:
    async def test_component_start(self) -> None:
        events: list[Any] = []

        class Service:
            pass

        class MyComponent(Component):
            @context_teardown
            async def start(self) -> AsyncGenerator[None, Optional[BaseException]]:
                service = Service()
                add_resource(service)
                events.append("started")
                exc = yield
                events.append(("stopped", exc))

        async with Context():
            await start_component(MyComponent)
            assert isinstance(get_resource_nowait(Service), Service)
            assert events == ["started"]

        assert events == ["started", ("stopped", None)]

    async def test_method_binding(self) -> None:
        events: list[Any] = []

        class Thing:
            @context_teardown
            async def setup(
                self, value: int
            ) -> AsyncGenerator[None, Optional[BaseException]]:
                events.append((self, value))
                yield
                events.append("down")

        thing = Thing()
        async with Context():
            await thing.setup(5)

        assert events == [(thing, 5), "down"]
