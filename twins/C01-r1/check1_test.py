"""
Behaviour check for refactoring 1 (the callback-calling part of
Context._run_teardown_callbacks extracted into a helper; loop idiom changed).

Exercises property C01 only through the public API.
"""

from __future__ import annotations

from typing import Any

import anyio
import pytest
from anyio import CancelScope, get_cancelled_exc_class
from anyio.lowlevel import checkpoint

from asphalt.core import Context, add_resource, add_teardown_callback, context_teardown

pytestmark = pytest.mark.anyio


@pytest.fixture(params=["asyncio", "trio"])
def anyio_backend(request: pytest.FixtureRequest) -> str:
    return request.param


class MyBaseError(BaseException):
    pass


@pytest.fixture
async def root_context() -> Any:
    """
    A root context owns a task group, which wraps anything group-like passing through
    it. Tests that inspect the teardown exception group directly therefore use a child
    context of this one.
    """
    async with Context() as ctx:
        yield ctx


def find_teardown_group(exc: BaseException) -> BaseExceptionGroup[Any]:
    """Find the (single) teardown exception group within ``exc``."""
    found: list[BaseExceptionGroup[Any]] = []

    def visit(e: BaseException) -> None:
        if isinstance(e, BaseExceptionGroup):
            if e.message == "Exceptions were raised during context teardown":
                found.append(e)
            else:
                for sub in e.exceptions:
                    visit(sub)

    visit(exc)
    assert len(found) == 1
    return found[0]


class Recorder:
    """Creates callbacks that record start/end, to detect overlap and ordering."""

    def __init__(self) -> None:
        self.events: list[tuple[str, Any]] = []
        self.running = 0
        self.max_running = 0
        self.received: dict[Any, BaseException | None] = {}

    def _enter(self, key: Any) -> None:
        self.running += 1
        self.max_running = max(self.max_running, self.running)
        self.events.append(("start", key))

    def _leave(self, key: Any) -> None:
        self.events.append(("end", key))
        self.running -= 1

    def sync(self, key: Any, raises: BaseException | None = None) -> Any:
        def callback() -> None:
            self._enter(key)
            try:
                if raises is not None:
                    raise raises
            finally:
                self._leave(key)

        return callback

    def sync_exc(self, key: Any, raises: BaseException | None = None) -> Any:
        def callback(exc: BaseException | None) -> None:
            self._enter(key)
            self.received[key] = exc
            try:
                if raises is not None:
                    raise raises
            finally:
                self._leave(key)

        return callback

    def async_(self, key: Any, raises: BaseException | None = None) -> Any:
        async def callback() -> None:
            self._enter(key)
            try:
                with CancelScope(shield=True):
                    await checkpoint()
                    await anyio.sleep(0.01)

                if raises is not None:
                    raise raises
            finally:
                self._leave(key)

        return callback

    def async_exc(self, key: Any, raises: BaseException | None = None) -> Any:
        async def callback(exc: BaseException | None) -> None:
            self._enter(key)
            self.received[key] = exc
            try:
                with CancelScope(shield=True):
                    await checkpoint()

                if raises is not None:
                    raise raises
            finally:
                self._leave(key)

        return callback

    @property
    def order(self) -> list[Any]:
        return [key for kind, key in self.events if kind == "start"]

    def assert_serial(self) -> None:
        assert self.max_running <= 1
        # every start is directly followed by its own end
        assert len(self.events) % 2 == 0
        for i in range(0, len(self.events), 2):
            assert self.events[i][0] == "start"
            assert self.events[i + 1] == ("end", self.events[i][1])


async def test_clean_exit_all_kinds_lifo() -> None:
    rec = Recorder()
    async with Context() as ctx:
        ctx.add_teardown_callback(rec.sync(1))
        ctx.add_teardown_callback(rec.async_(2))
        ctx.add_teardown_callback(rec.sync_exc(3), True)
        add_teardown_callback(rec.async_exc(4), pass_exception=True)
        add_resource("x", teardown_callback=rec.async_(5))
        ctx.add_resource(5, teardown_callback=rec.sync(6))
        assert not ctx.closed

    assert ctx.closed
    assert rec.order == [6, 5, 4, 3, 2, 1]
    rec.assert_serial()
    assert rec.received == {4: None, 3: None}


async def test_no_callbacks() -> None:
    async with Context() as ctx:
        pass

    assert ctx.closed

    with pytest.raises(KeyError) as exc_info:
        async with Context() as ctx:
            raise KeyError("foo")

    assert type(exc_info.value) is KeyError
    assert ctx.closed


async def test_block_exception_passed_and_propagated_bare() -> None:
    rec = Recorder()
    error = ValueError("boom")
    with pytest.raises(ValueError) as exc_info:
        async with Context() as ctx:
            ctx.add_teardown_callback(rec.sync_exc("a"), True)
            ctx.add_teardown_callback(rec.async_("b"))
            ctx.add_teardown_callback(rec.async_exc("c"), True)
            raise error

    assert exc_info.value is error
    assert ctx.closed
    assert rec.order == ["c", "b", "a"]
    rec.assert_serial()
    assert rec.received == {"a": error, "c": error}


@pytest.mark.parametrize("block_fails", [False, True])
async def test_raising_callbacks_do_not_stop_the_rest(block_fails: bool, root_context: Context) -> None:
    rec = Recorder()
    block_error = RuntimeError("block")
    errors = [
        ValueError("e1"),
        MyBaseError("e2"),
        StopIteration("e3"),
        StopAsyncIteration("e4"),
        SystemExit(3),
        GeneratorExit(),
        LookupError("e7"),
    ]
    with pytest.raises(BaseExceptionGroup) as exc_info:
        async with Context() as ctx:
            ctx.add_teardown_callback(rec.sync(1, errors[0]))
            ctx.add_teardown_callback(rec.async_(2, errors[1]))
            ctx.add_teardown_callback(rec.sync(3, errors[2]))
            ctx.add_teardown_callback(rec.sync_exc(4, errors[3]), True)
            ctx.add_teardown_callback(rec.sync(5))
            ctx.add_teardown_callback(rec.async_exc(6, errors[4]), True)
            ctx.add_teardown_callback(rec.sync_exc(7, errors[5]), True)
            ctx.add_teardown_callback(rec.async_(8))
            ctx.add_teardown_callback(rec.async_(9, errors[6]))
            if block_fails:
                raise block_error

    assert ctx.closed
    assert rec.order == [9, 8, 7, 6, 5, 4, 3, 2, 1]
    rec.assert_serial()
    expected_exc = block_error if block_fails else None
    assert rec.received == {4: expected_exc, 6: expected_exc, 7: expected_exc}

    group = exc_info.value
    assert type(group) is BaseExceptionGroup
    assert group.message == "Exceptions were raised during context teardown"
    # Same objects, in the order in which the callbacks ran (= reverse registration)
    assert len(group.exceptions) == len(errors)
    for actual, expected in zip(group.exceptions, reversed(errors)):
        assert actual is expected

    assert group.__cause__ is expected_exc


async def test_only_ordinary_exceptions_gives_plain_exception_group(root_context: Context) -> None:
    e1, e2 = ValueError("e1"), KeyError("e2")
    rec = Recorder()
    with pytest.raises(ExceptionGroup) as exc_info:
        async with Context() as ctx:
            ctx.add_teardown_callback(rec.sync(1, e1))
            ctx.add_teardown_callback(rec.sync(2))
            ctx.add_teardown_callback(rec.async_(3, e2))

    assert exc_info.value.exceptions == (e2, e1)
    assert rec.order == [3, 2, 1]
    assert ctx.closed


async def test_callbacks_registered_during_teardown(root_context: Context) -> None:
    rec = Recorder()
    ctx = Context()

    def registering_sync() -> None:
        rec._enter("reg_sync")
        assert ctx.closed
        # Both of these must run right after this callback, last added first
        ctx.add_teardown_callback(rec.sync("late1"))
        ctx.add_teardown_callback(rec.async_exc("late2"), True)
        rec._leave("reg_sync")

    async def registering_async() -> None:
        rec._enter("reg_async")
        await checkpoint()
        ctx.add_teardown_callback(registering_sync)
        ctx.add_resource("res", teardown_callback=rec.async_("late_res"))
        rec._leave("reg_async")

    async def last_one_registers_more() -> None:
        # This is the bottom of the stack; registering here must extend the teardown
        rec._enter("bottom")
        ctx.add_teardown_callback(rec.sync("after_bottom", LookupError("late")))
        rec._leave("bottom")

    with pytest.raises(ExceptionGroup) as exc_info:
        async with ctx:
            ctx.add_teardown_callback(last_one_registers_more)
            ctx.add_teardown_callback(rec.sync("first"))
            ctx.add_teardown_callback(registering_async)
            ctx.add_teardown_callback(rec.sync("top"))

    assert rec.order == [
        "top",
        "reg_async",
        "late_res",
        "reg_sync",
        "late2",
        "late1",
        "first",
        "bottom",
        "after_bottom",
    ]
    rec.assert_serial()
    assert rec.received == {"late2": None}
    assert len(exc_info.value.exceptions) == 1
    assert isinstance(exc_info.value.exceptions[0], LookupError)
    assert ctx.closed
    with pytest.raises(RuntimeError, match="already been closed"):
        ctx.add_teardown_callback(rec.sync("too late"))


async def test_custom_awaitable_and_non_awaitable_return_values(root_context: Context) -> None:
    events: list[str] = []

    class Awaitable:
        def __init__(self, name: str, fail: bool = False) -> None:
            self.name = name
            self.fail = fail

        def __await__(self) -> Any:
            events.append(f"{self.name} awaited")
            yield from checkpoint().__await__()
            if self.fail:
                raise OSError(self.name)

            events.append(f"{self.name} done")
            return "ignored"

    def returns_awaitable() -> Awaitable:
        events.append("cb1")
        return Awaitable("aw1")

    def returns_failing_awaitable(exc: BaseException | None) -> Awaitable:
        events.append("cb2")
        return Awaitable("aw2", fail=True)

    def returns_value() -> int:
        events.append("cb3")
        return 42

    with pytest.raises(ExceptionGroup) as exc_info:
        async with Context() as ctx:
            ctx.add_teardown_callback(returns_awaitable)
            ctx.add_teardown_callback(returns_failing_awaitable, True)
            ctx.add_teardown_callback(returns_value)

    assert events == ["cb3", "cb2", "aw2 awaited", "cb1", "aw1 awaited", "aw1 done"]
    assert len(exc_info.value.exceptions) == 1
    assert isinstance(exc_info.value.exceptions[0], OSError)


async def test_wrong_signature_callback_is_collected_like_any_error(root_context: Context) -> None:
    rec = Recorder()

    def needs_arg(exc: BaseException | None) -> None:
        pytest.fail("should not be callable without arguments")

    def takes_none() -> None:
        pytest.fail("should not be callable with an argument")

    with pytest.raises(ExceptionGroup) as exc_info:
        async with Context() as ctx:
            ctx.add_teardown_callback(rec.sync(1))
            ctx.add_teardown_callback(needs_arg)  # called with no args
            ctx.add_teardown_callback(takes_none, True)  # called with 1 arg
            ctx.add_teardown_callback(rec.sync(2))

    assert rec.order == [2, 1]
    assert [type(e) for e in exc_info.value.exceptions] == [TypeError, TypeError]


async def test_cancellation() -> None:
    rec = Recorder()
    with CancelScope() as scope:
        async with Context() as ctx:
            ctx.add_teardown_callback(rec.sync(1))
            ctx.add_teardown_callback(rec.async_exc(2), True)
            ctx.add_teardown_callback(rec.async_(3))
            ctx.add_teardown_callback(rec.sync_exc(4), True)
            scope.cancel()
            await checkpoint()
            pytest.fail("should have been cancelled")

    assert scope.cancelled_caught
    assert ctx.closed
    assert rec.order == [4, 3, 2, 1]
    rec.assert_serial()
    assert isinstance(rec.received[2], get_cancelled_exc_class())
    assert rec.received[4] is rec.received[2]


async def test_nested_contexts_and_context_teardown_route() -> None:
    rec = Recorder()

    @context_teardown
    async def start(name: str) -> Any:
        add_teardown_callback(rec.sync(f"{name}-inner-before"))
        exc = yield
        rec._enter(name)
        rec.received[name] = exc
        await checkpoint()
        rec._leave(name)

    error = ZeroDivisionError("x")
    with pytest.raises(ZeroDivisionError) as exc_info:
        async with Context() as outer:
            outer.add_teardown_callback(rec.sync("outer1"))
            await start("outer-gen")
            async with Context() as inner:
                await start("inner-gen")
                inner.add_teardown_callback(rec.async_("inner1"))
                raise error

    assert exc_info.value is error
    assert inner.closed and outer.closed
    assert rec.order == [
        "inner1",
        "inner-gen",
        "inner-gen-inner-before",
        "outer-gen",
        "outer-gen-inner-before",
        "outer1",
    ]
    rec.assert_serial()
    assert rec.received == {"inner-gen": error, "outer-gen": error}


async def test_root_context_raising_callbacks() -> None:
    rec = Recorder()
    e1, e2 = ValueError("e1"), KeyError("e2")
    with pytest.raises(BaseExceptionGroup) as exc_info:
        async with Context() as ctx:
            ctx.add_teardown_callback(rec.sync(1, e1))
            ctx.add_teardown_callback(rec.async_(2))
            ctx.add_teardown_callback(rec.async_exc(3, e2), True)

    group = find_teardown_group(exc_info.value)
    assert group.exceptions == (e2, e1)
    assert rec.order == [3, 2, 1]
    rec.assert_serial()
    assert rec.received == {3: None}
    assert ctx.closed
