"""
Property C09 checks (emphasis: exact handle set, wait_finished, cancel isolation).

Must pass on the unchanged source and with refactor1.diff applied.
"""

from __future__ import annotations

import sys
from typing import Any, NoReturn

import pytest
from anyio import Event, fail_after, sleep, wait_all_tasks_blocked
from anyio.abc import TaskStatus

from asphalt.core import (
    Context,
    add_resource,
    current_context,
    get_resource_nowait,
    start_background_task_factory,
)

if sys.version_info < (3, 11):
    from exceptiongroup import ExceptionGroup

pytestmark = pytest.mark.anyio()


@pytest.fixture(params=["asyncio", "trio"])
def anyio_backend(request: Any) -> str:
    return request.param


def flatten(exc: BaseException) -> list[BaseException]:
    if isinstance(exc, BaseExceptionGroup):
        result: list[BaseException] = []
        for sub in exc.exceptions:
            result.extend(flatten(sub))
        return result
    return [exc]


async def test_handle_set_tracks_every_outcome() -> None:
    """all_task_handles() == exactly the unfinished tasks, for each kind of ending."""
    handled: list[Exception] = []
    release_ok = Event()
    release_fail = Event()

    def handler(exc: Exception) -> bool:
        handled.append(exc)
        return True

    async def returns() -> str:
        await release_ok.wait()
        return "value"

    async def raises() -> NoReturn:
        await release_fail.wait()
        raise RuntimeError("boom")

    async def forever() -> None:
        await sleep(3600)

    async with Context():
        factory = await start_background_task_factory(exception_handler=handler)
        assert factory.all_task_handles() == set()
        h_ret = await factory.start_task(returns, "returns")
        assert factory.all_task_handles() == {h_ret}
        h_raise = factory.start_task_soon(raises, "raises")
        # start_task_soon: tracked from the moment it was spawned
        assert factory.all_task_handles() == {h_ret, h_raise}
        h_cancel = await factory.start_task(forever, "forever")
        h_other = factory.start_task_soon(forever)
        assert factory.all_task_handles() == {h_ret, h_raise, h_cancel, h_other}

        # The returned set is a snapshot, not a live view
        snapshot = factory.all_task_handles()
        snapshot.clear()
        assert len(factory.all_task_handles()) == 4

        with fail_after(5):
            release_ok.set()
            await h_ret.wait_finished()
            assert factory.all_task_handles() == {h_raise, h_cancel, h_other}

            release_fail.set()
            await h_raise.wait_finished()
            assert factory.all_task_handles() == {h_cancel, h_other}
            assert len(handled) == 1 and str(handled[0]) == "boom"

            # cancel() ends only that task
            h_cancel.cancel()
            await h_cancel.wait_finished()
            await wait_all_tasks_blocked()
            assert factory.all_task_handles() == {h_other}

            # waiting on an already finished task returns at once, repeatedly
            await h_ret.wait_finished()
            await h_cancel.wait_finished()

            h_other.cancel()
            await h_other.wait_finished()
            assert factory.all_task_handles() == set()

    assert len(handled) == 1


async def test_cancel_is_isolated_and_does_not_reach_handler() -> None:
    handled: list[Exception] = []
    progress: dict[str, int] = {"a": 0, "b": 0, "c": 0}
    stop = Event()

    def handler(exc: Exception) -> bool:
        handled.append(exc)
        return False

    def make(key: str) -> Any:
        async def worker() -> None:
            while not stop.is_set():
                progress[key] += 1
                await sleep(0.01)

        return worker

    async with Context():
        factory = await start_background_task_factory(exception_handler=handler)
        handles = {key: await factory.start_task(make(key), key) for key in progress}
        handles["b"].cancel()
        with fail_after(5):
            await handles["b"].wait_finished()

        frozen = progress["b"]
        before = (progress["a"], progress["c"])
        await sleep(0.1)
        assert progress["b"] == frozen
        assert progress["a"] > before[0] and progress["c"] > before[1]
        assert factory.all_task_handles() == {handles["a"], handles["c"]}
        # cancelling twice / cancelling a finished task is harmless
        handles["b"].cancel()
        assert factory.all_task_handles() == {handles["a"], handles["c"]}
        stop.set()

    # Cancellation through the handle is not an Exception: the handler never saw it,
    # and nothing propagated out of the root context
    assert handled == []


async def test_start_value_and_nested_spawn_inherit_factory_context() -> None:
    """Tasks spawned from another task / a subcontext still inherit the factory's."""
    seen: dict[str, Any] = {}

    async def inner() -> None:
        seen["inner_str"] = get_resource_nowait(str)
        seen["inner_int"] = get_resource_nowait(int, optional=True)
        seen["inner_float"] = get_resource_nowait(float, optional=True)
        seen["inner_ctx"] = current_context()

    async def outer(task_status: TaskStatus[str]) -> None:
        add_resource(1.5)  # lives in outer's own fresh context only
        seen["outer_ctx"] = current_context()
        task_status.started("started-value")
        handle = await factory.start_task(inner, "inner")
        await handle.wait_finished()

    async with Context() as root:
        add_resource("factory-visible")
        factory = await start_background_task_factory()
        async with Context() as sub:
            add_resource(42)  # only the spawner's context has this
            handle = await factory.start_task(outer, "outer")
            assert handle.start_value == "started-value"
            with fail_after(5):
                await handle.wait_finished()

        assert factory.all_task_handles() == set()

    assert seen["inner_str"] == "factory-visible"
    assert seen["inner_int"] is None
    assert seen["inner_float"] is None
    assert seen["inner_ctx"] is not seen["outer_ctx"]
    for ctx in (seen["inner_ctx"], seen["outer_ctx"]):
        assert ctx is not root and ctx is not sub
        assert ctx.parent is not sub
        assert ctx.parent is seen["inner_ctx"].parent


async def test_teardown_waits_and_unhandled_error_propagates_once() -> None:
    calls: list[Exception] = []
    finished: list[str] = []
    gate_first = Event()
    gate_second = Event()

    def handler(exc: Exception) -> bool:
        calls.append(exc)
        return isinstance(exc, KeyError)  # swallow KeyError only

    async def slow(name: str) -> None:
        await gate_first.wait()
        finished.append(name)

    async def fail(gate: Event, exc: Exception) -> NoReturn:
        await gate.wait()
        raise exc

    async def opener() -> None:
        await sleep(0.05)
        gate_first.set()
        await sleep(0.05)
        gate_second.set()

    with pytest.raises(ExceptionGroup) as excinfo:
        async with Context():
            factory = await start_background_task_factory(exception_handler=handler)
            factory.start_task_soon(lambda: slow("s1"), "s1")
            await factory.start_task(lambda: slow("s2"), "s2")
            factory.start_task_soon(
                lambda: fail(gate_first, KeyError("swallowed")), "f1"
            )
            factory.start_task_soon(
                lambda: fail(gate_second, ValueError("escapes")), "f2"
            )
            factory.start_task_soon(opener, "opener")
            assert len(factory.all_task_handles()) == 5
            # leaving the block tears the owning context down while all 5 are running

    leaves = flatten(excinfo.value)
    assert [type(exc) for exc in leaves] == [ValueError]
    assert str(leaves[0]) == "escapes"
    assert [type(exc).__name__ for exc in calls] == ["KeyError", "ValueError"]
    assert leaves[0] is calls[1]
    # teardown waited for (did not cancel) the tasks that were still running
    assert sorted(finished) == ["s1", "s2"]
    assert factory.all_task_handles() == set()


async def test_teardown_waits_for_running_tasks_without_cancelling() -> None:
    finished: list[int] = []

    async def worker(index: int) -> None:
        await sleep(0.02 * (index + 1))
        finished.append(index)

    async with Context():
        add_resource("x")
        async with Context():
            factory = await start_background_task_factory()
            handles = [factory.start_task_soon(lambda i=i: worker(i)) for i in range(4)]
            assert factory.all_task_handles() == set(handles)

        # inner context torn down -> all tasks ran to completion
        assert sorted(finished) == [0, 1, 2, 3]
        assert factory.all_task_handles() == set()
        with fail_after(1):
            for handle in handles:
                await handle.wait_finished()
