"""
Property C12: current_context() follows strict per-task stack discipline.

This file must pass both on the unchanged source and with refactor3.diff applied
(Context() validates its ``parent`` argument; __aexit__() refuses to run unless the
context is open).
"""

from __future__ import annotations

import sys
from collections.abc import AsyncGenerator
from contextlib import AsyncExitStack, asynccontextmanager
from typing import Any

import anyio
import pytest
from anyio import (
    CancelScope,
    create_task_group,
    fail_after,
    get_cancelled_exc_class,
)
from anyio.abc import TaskStatus
from anyio.lowlevel import checkpoint

from asphalt.core import (
    Component,
    Context,
    NoCurrentContext,
    current_context,
    start_component,
)

if sys.version_info < (3, 11):
    from exceptiongroup import BaseExceptionGroup

pytestmark = pytest.mark.anyio


@pytest.fixture(params=["asyncio", "trio"])
def anyio_backend(request: pytest.FixtureRequest) -> str:
    return request.param


def no_context() -> bool:
    try:
        current_context()
    except NoCurrentContext:
        return True

    return False


class RequestContext(Context):
    """A user defined subclass, as used by e.g. web framework integrations."""

    def __init__(self, request_id: int, parent: Context | None = None) -> None:
        super().__init__(parent)
        self.request_id = request_id


@asynccontextmanager
async def two_levels() -> AsyncGenerator[tuple[Context, Context], None]:
    before = None if no_context() else current_context()
    async with Context() as first, RequestContext(1) as second:
        assert first.parent is before
        assert second.parent is first
        yield first, second
        assert current_context() is second


async def test_exit_stack_driven_nesting() -> None:
    assert no_context()
    async with AsyncExitStack() as stack:
        contexts: list[Context] = []
        for i in range(6):
            ctx = await stack.enter_async_context(
                RequestContext(i) if i % 2 else Context()
            )
            if contexts:
                assert ctx.parent is contexts[-1]
            else:
                assert ctx.parent is None

            contexts.append(ctx)
            assert current_context() is ctx

        observed: list[Context] = []
        for ctx in reversed(contexts):
            stack.callback(lambda: observed.append(current_context()))

    # The callbacks were pushed after all the contexts were entered, so they all run
    # before the first context exits
    assert observed == [contexts[-1]] * 6
    assert no_context()
    assert all(ctx.closed for ctx in contexts)


async def test_partial_unwind_restores_each_level() -> None:
    async with Context() as root:
        async with AsyncExitStack() as outer_stack:
            a = await outer_stack.enter_async_context(Context())
            async with AsyncExitStack() as inner_stack:
                b = await inner_stack.enter_async_context(Context())
                c = await inner_stack.enter_async_context(Context())
                assert (a.parent, b.parent, c.parent) == (root, a, b)
                assert current_context() is c

            assert current_context() is a
            d = await outer_stack.enter_async_context(Context())
            assert d.parent is a
            assert current_context() is d

        assert current_context() is root

    assert no_context()


async def test_explicit_parent_does_not_change_current_stack() -> None:
    async with Context() as left:
        pass

    async with Context() as right:
        # Parent given explicitly: resources come from there, but the *current context*
        # stack is still per task and strictly LIFO
        async with Context(left) as child:
            assert child.parent is left
            assert current_context() is child
            grandchild = Context()
            assert grandchild.parent is child
            async with grandchild:
                assert current_context() is grandchild

            assert current_context() is child

        assert current_context() is right
        assert Context().parent is right
        assert Context(None).parent is right

    assert no_context()
    assert Context().parent is None


async def test_context_manager_helpers_and_exceptions() -> None:
    async with Context() as root:
        async with two_levels() as (first, second):
            assert current_context() is second

        assert current_context() is root

        with pytest.raises(ZeroDivisionError):
            async with two_levels():
                1 / 0

        assert current_context() is root

        async def returns_early() -> int:
            async with two_levels() as (_, second):
                for i in range(3):
                    async with RequestContext(i) as ctx:
                        assert ctx.parent is second
                        if i == 1:
                            return i

            return -1

        assert await returns_early() == 1
        assert current_context() is root

    assert no_context()


async def test_teardown_raising_on_every_level() -> None:
    order: list[tuple[str, bool]] = []

    def make_callback(name: str, ctx: Context, fail: bool) -> Any:
        async def callback() -> None:
            await checkpoint()
            order.append((name, current_context() is ctx))
            if fail:
                raise RuntimeError(name)

        return callback

    async with Context() as root:
        with pytest.raises(BaseExceptionGroup) as excinfo:
            async with Context() as a:
                a.add_teardown_callback(make_callback("a", a, True))
                async with Context() as b:
                    b.add_teardown_callback(make_callback("b1", b, True))
                    b.add_teardown_callback(make_callback("b2", b, False))
                    async with Context() as c:
                        c.add_teardown_callback(make_callback("c", c, True))

                    pytest.fail("teardown of c should have raised")

        assert excinfo.group_contains(RuntimeError, match="^a$")
        assert current_context() is root
        assert a.closed and b.closed and c.closed

    assert order == [("c", True), ("b2", True), ("b1", True), ("a", True)]
    assert no_context()


async def test_cancellation_during_body_and_teardown() -> None:
    events: list[str] = []

    async def slow_teardown() -> None:
        try:
            await anyio.sleep(10)
        except get_cancelled_exc_class():
            events.append("teardown cancelled")
            raise

    async with Context() as root:
        # Cancelled in the body, then again in the teardown callback
        with CancelScope() as scope:
            async with Context() as a:
                async with Context() as b:
                    b.add_teardown_callback(slow_teardown)
                    scope.cancel()
                    await checkpoint()
                    pytest.fail("not cancelled")

        assert events == ["teardown cancelled"]
        assert a.closed and b.closed
        assert current_context() is root

        # Body finishes, cancellation hits only during the teardown
        with pytest.raises(TimeoutError):
            with fail_after(0.01):
                async with Context() as c:
                    c.add_teardown_callback(slow_teardown)

        assert events == ["teardown cancelled"] * 2
        assert c.closed
        assert current_context() is root

    assert no_context()


async def test_started_tasks_and_concurrent_stacks() -> None:
    trace: dict[int, list[bool]] = {}

    async def server(
        index: int, spawn_ctx: Context, *, task_status: TaskStatus[Context]
    ) -> None:
        checks = trace.setdefault(index, [])
        checks.append(current_context() is spawn_ctx)
        async with RequestContext(index) as mine:
            checks.append(mine.parent is spawn_ctx)
            task_status.started(mine)
            for _ in range(4):
                await anyio.sleep(0.001 * (index % 3))
                checks.append(current_context() is mine)
                async with Context() as sub:
                    await checkpoint()
                    checks.append(current_context() is sub and sub.parent is mine)

                checks.append(current_context() is mine)

        checks.append(current_context() is spawn_ctx)

    async with Context() as root:
        async with create_task_group() as tg:
            started: list[Context] = []
            for i in range(3):
                started.append(await tg.start(server, i, root))
                assert current_context() is root

            async with Context() as other:
                for i in range(3, 6):
                    started.append(await tg.start(server, i, other))
                    assert current_context() is other

                # Wait for the tasks spawned under "other" before it closes
                while any(not ctx.closed for ctx in started[3:]):
                    await anyio.sleep(0.001)

            assert current_context() is root

        assert len({id(ctx) for ctx in started}) == 6
        assert current_context() is root

    assert sorted(trace) == list(range(6))
    for index, checks in trace.items():
        assert len(checks) == 3 + 4 * 3, index
        assert all(checks), (index, checks)

    assert no_context()


async def test_components_see_start_component_context() -> None:
    parents: list[Context | None] = []
    currents: list[Context] = []

    class Worker(Component):
        async def prepare(self) -> None:
            parents.append(RequestContext(0).parent)
            currents.append(current_context())

        async def start(self) -> None:
            parents.append(Context().parent)
            mine = current_context()
            currents.append(mine)
            async with Context() as inner:
                await anyio.sleep(0.001)
                assert current_context() is inner
                parents.append(inner.parent)

            assert current_context() is mine

    class Container(Component):
        def __init__(self) -> None:
            for i in range(3):
                self.add_component(f"worker{i}", Worker)

    async with Context() as ctx:
        await start_component(Container)
        assert current_context() is ctx
        async with Context() as later:
            await start_component(Worker)
            assert current_context() is later

        assert current_context() is ctx

    assert len(parents) == 12
    assert all(parent is ctx for parent in parents[:9])
    assert all(parent is later for parent in parents[9:])
    # The component contexts themselves are never what user code gets as a parent
    assert ctx not in currents and later not in currents
    assert no_context()
