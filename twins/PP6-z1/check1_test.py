"""
Behaviour checks for refactoring 1 (everyday clean-up of ``_init_component`` and of the
report assembly in ``_watch_component_tree_startup``).

Everything goes through the public API (``start_component``, ``Component``, ``Context``
and the resource functions). The file passes on the unchanged source and with
refactor1.diff applied.
"""

from __future__ import annotations

import logging
import re
from typing import Any

import anyio
import pytest
from pytest import LogCaptureFixture

from asphalt.core import (
    Component,
    ComponentStartError,
    Context,
    add_resource,
    get_resource,
    get_resource_nowait,
    get_resources,
    start_component,
)

pytestmark = pytest.mark.anyio()

created: list[str] = []


@pytest.fixture(autouse=True)
def reset_created() -> None:
    created.clear()


class Recorder(Component):
    """Records the order of instantiation and its keyword arguments."""

    def __init__(self, tag: str = "?", **kwargs: Any) -> None:
        self.tag = tag
        self.kwargs = kwargs
        created.append(tag)


class Provider(Component):
    """Publishes one string in prepare() and one in start(), both as "default"."""

    def __init__(self, value: str = "v") -> None:
        self.value = value
        created.append(f"provider:{value}")

    async def prepare(self) -> None:
        add_resource(f"{self.value}-prepared", types=[str])

    async def start(self) -> None:
        add_resource(self.value.encode(), types=[bytes])


class Exploding(Component):
    def __init__(self, **kwargs: Any) -> None:
        created.append("exploding")
        raise ValueError("cannot construct")


class Container(Component):
    def __init__(self, tag: str = "container") -> None:
        created.append(tag)
        self.add_component("first", Recorder, tag="first", a=1, nested={"x": 1, "y": 2})
        self.add_component("second", Recorder, tag="second")


async def test_default_resource_name_comes_from_alias() -> None:
    config = {
        "components": {
            "plain": {"type": Provider, "value": "p"},
            "anything/alt": {"type": Provider, "value": "q"},
            "anything/alt_2": {"type": Provider, "value": "r"},
        }
    }
    expected_names = {
        "plain": "default",
        "anything/alt": "alt",
        "anything/alt_2": "alt_2",
    }
    # Every prepare() publishes str/"default", so each child gets a context of its own
    for alias, child in config["components"].items():
        async with Context():
            await start_component(Component, {"components": {alias: child}})
            value = child["value"]
            # prepare() always publishes under "default"
            assert get_resource_nowait(str) == f"{value}-prepared"
            # start() publishes under the name taken from the alias
            assert sorted(get_resources(bytes)) == [expected_names[alias]]
            assert get_resource_nowait(bytes, expected_names[alias]) == value.encode()

    assert created == ["provider:p", "provider:q", "provider:r"]

    # Names derived from such aliases are not valid resource names, so start() fails
    for alias in ("anything/deep/er", "trailing/"):
        async with Context():
            with pytest.raises(ComponentStartError) as exc_info:
                await start_component(
                    Component, {"components": {alias: {"type": Provider}}}
                )

            assert exc_info.value.phase == "starting"
            assert exc_info.value.path == alias
            assert isinstance(exc_info.value.__cause__, ValueError)
            # prepare() went through with the literal default name
            assert get_resource_nowait(str) == "v-prepared"
            assert get_resources(bytes) == {}


async def test_type_derived_from_alias_reference() -> None:
    """The part of the alias before the slash is used as the component type."""
    alias = f"{__name__}:Provider/special"
    async with Context():
        await start_component(Component, {"components": {alias: {"value": "z"}}})
        assert get_resource_nowait(bytes, "special") == b"z"
        assert get_resource_nowait(bytes, optional=True) is None

    # An explicit string type containing a slash is cut at the first slash too, but the
    # default resource name still comes from the alias
    async with Context():
        await start_component(
            Component,
            {
                "components": {
                    "foo/bar": {"type": f"{__name__}:Provider/ignored/x"},
                }
            },
        )
        assert get_resources(bytes) == {"bar": b"v"}


async def test_overrides_merge_and_creation_order(caplog: LogCaptureFixture) -> None:
    caplog.set_level(logging.DEBUG, "asphalt.core")
    async with Context():
        root = await start_component(
            Container,
            {
                "tag": "root",
                "components": {
                    "second": {"tag": "second-overridden", "extra": True},
                    "third": {"type": Recorder, "tag": "third"},
                    "first": {"nested": {"y": 3, "z": 4}},
                    "sub": {
                        "type": Container,
                        "tag": "sub",
                        "components": {"second": {}},
                    },
                },
            },
        )

    assert isinstance(root, Container)
    # Hard-coded children keep their position; new ones from the config come after them
    assert created == [
        "root",
        "first",
        "second-overridden",
        "third",
        "sub",
        "first",
        "second",
    ]
    prefix = f"{__name__}."
    assert [msg for msg in caplog.messages if msg.startswith("Creat")] == [
        f"Creating the root component ({prefix}Container)",
        f"Created the root component ({prefix}Container)",
        f"Creating component 'first' ({prefix}Recorder)",
        f"Created component 'first' ({prefix}Recorder)",
        f"Creating component 'second' ({prefix}Recorder)",
        f"Created component 'second' ({prefix}Recorder)",
        f"Creating component 'third' ({prefix}Recorder)",
        f"Created component 'third' ({prefix}Recorder)",
        f"Creating component 'sub' ({prefix}Container)",
        f"Created component 'sub' ({prefix}Container)",
        f"Creating component 'sub.first' ({prefix}Recorder)",
        f"Created component 'sub.first' ({prefix}Recorder)",
        f"Creating component 'sub.second' ({prefix}Recorder)",
        f"Created component 'sub.second' ({prefix}Recorder)",
    ]


async def test_merged_kwargs_reach_the_child() -> None:
    seen: dict[str, dict[str, Any]] = {}

    class Spy(Component):
        def __init__(self, name: str, **kwargs: Any) -> None:
            seen[name] = kwargs

    class Parent(Component):
        def __init__(self) -> None:
            self.add_component("a", Spy, name="a", opts={"x": 1, "y": 2}, keep=1)
            self.add_component("b", Spy, name="b")

    caller_config = {"components": {"a": {"opts": {"y": 5}, "more": 2}, "b": {}}}
    async with Context():
        await start_component(Parent, caller_config)

    assert seen == {"a": {"opts": {"x": 1, "y": 5}, "keep": 1, "more": 2}, "b": {}}
    # Neither the top level mapping nor the child configurations of the caller change
    assert caller_config == {
        "components": {"a": {"opts": {"y": 5}, "more": 2}, "b": {}}
    }


async def test_bad_nested_child_config_after_sibling_created() -> None:
    config = {
        "components": {
            "ok": {"type": Recorder, "tag": "ok"},
            "box": {
                "type": Recorder,
                "tag": "box",
                "components": {
                    "inner1": {"type": Recorder, "tag": "inner1"},
                    "inner2": 17,
                    "inner3": {"type": Recorder, "tag": "inner3"},
                },
            },
            "never": {"type": Recorder, "tag": "never"},
        }
    }
    async with Context():
        with pytest.raises(TypeError) as exc_info:
            await start_component(Recorder, {"tag": "root", **config})

    assert str(exc_info.value) == (
        "box.inner2: component configuration must be either None or a dict (or any "
        "other mutable mapping type), not int"
    )
    assert created == ["root", "ok", "box", "inner1"]


async def test_bad_nested_type_and_constructor_failure() -> None:
    async with Context():
        with pytest.raises(TypeError) as exc_info:
            await start_component(
                Recorder,
                {
                    "tag": "root",
                    "components": {
                        "a": {"type": Recorder, "tag": "a"},
                        "b/name": {"type": dict},
                    },
                },
            )

    assert str(exc_info.value) == (
        "b/name: the declared component type (<class 'dict'>) resolved to "
        "<class 'dict'> which is not a subclass of Component"
    )
    assert created == ["root", "a"]

    created.clear()
    async with Context():
        with pytest.raises(ComponentStartError) as start_exc:
            await start_component(
                Container,
                {
                    "tag": "root",
                    "components": {
                        "second": {
                            "type": Container,
                            "components": {"second": {"type": Exploding}},
                        },
                        "zzz": {"type": Recorder, "tag": "zzz"},
                    },
                },
            )

    exc = start_exc.value
    assert exc.phase == "creating"
    assert exc.path == "second.second"
    assert exc.component_type is Exploding
    assert isinstance(exc.__cause__, ValueError)
    assert str(exc) == (
        f"error creating component 'second.second' ({__name__}.Exploding): "
        f"ValueError: cannot construct"
    )
    # "second" in the hard-coded config carries tag="second", merged into the override
    assert created == ["root", "first", "second", "first", "exploding"]


async def test_non_string_alias_from_config() -> None:
    async with Context():
        with pytest.raises(TypeError):
            await start_component(
                Recorder,
                {
                    "tag": "root",
                    "components": {
                        "a": {"type": Recorder, "tag": "a"},
                        5: {"type": Recorder, "tag": "five"},
                        "z": {"type": Recorder, "tag": "z"},
                    },
                },
            )

    assert created == ["root", "a"]


class Stalling(Component):
    cancelled: list[str] = []

    def __init__(self, name: str, where: str = "start") -> None:
        self.name = name
        self.where = where

    async def _stall(self) -> None:
        try:
            await get_resource(float, "never-published")
        except BaseException:
            Stalling.cancelled.append(self.name)
            raise

    async def prepare(self) -> None:
        if self.where == "prepare":
            await self._stall()

    async def start(self) -> None:
        if self.where == "start":
            await self._stall()


class Tree(Component):
    def __init__(self) -> None:
        self.add_component("done", Component)
        self.add_component("slow", Stalling, name="slow")
        self.add_component("mid")
        self.add_component("quick", Recorder, tag="quick")


class Mid(Component):
    def __init__(self) -> None:
        self.add_component("leaf/one", Stalling, name="leaf", where="prepare")
        self.add_component("ok", Component)


async def test_timeout_report(caplog: LogCaptureFixture) -> None:
    Stalling.cancelled = []
    caplog.set_level(logging.INFO, "asphalt.core")
    async with Context():
        with pytest.raises(TimeoutError) as exc_info:
            await start_component(
                Tree, {"components": {"mid": {"type": Mid}}}, timeout=0.2
            )

    assert str(exc_info.value) == "timeout starting component tree"
    assert sorted(Stalling.cancelled) == ["leaf", "slow"]
    assert len(caplog.records) == 1
    record = caplog.records[0]
    assert record.levelno == logging.ERROR
    assert record.name == "asphalt.core"
    message = caplog.messages[0]
    status_title = "Current status of the components still waiting to finish startup"
    stack_title = "Stack summaries of components still waiting to start"
    expected_head = (
        "Timeout waiting for the component tree to start\n"
        "\n"
        f"{status_title}\n"
        f"{'-' * len(status_title)}\n"
        "\n"
        "(root): starting children\n"
        "  slow: starting\n"
        "  mid: starting children\n"
        "    leaf/one: preparing\n"
        "\n"
        f"{stack_title}\n"
        f"{'-' * len(stack_title)}\n"
        "\n"
        f"slow ({__name__}.Stalling):\n"
        '  File "'
    )
    assert message.startswith(expected_head)
    assert not message.endswith("\n")
    titles = re.findall(r"^(\S+) \((\S+)\):$", message, flags=re.MULTILINE)
    assert titles == [
        ("slow", f"{__name__}.Stalling"),
        ("mid.leaf/one", f"{__name__}.Stalling"),
    ]
    # Sections are separated by exactly one blank line
    assert f"\n\nmid.leaf/one ({__name__}.Stalling):\n  File " in message
    assert "\n\n\n" not in message
    assert ", in start\n" in message
    assert ", in prepare\n" in message
    assert ", in _stall\n" in message


@pytest.mark.parametrize("timeout", [None, 0, 5])
async def test_no_report_when_startup_completes(
    timeout: float | None, caplog: LogCaptureFixture
) -> None:
    class Slowish(Component):
        async def start(self) -> None:
            await anyio.sleep(0.15)
            add_resource("ready")

    caplog.set_level(logging.INFO, "asphalt.core")
    async with Context():
        component = await start_component(Slowish, timeout=timeout)
        assert isinstance(component, Slowish)
        assert get_resource_nowait(str) == "ready"

    assert caplog.messages == []


async def test_none_override_replaces_hard_coded_child_config() -> None:
    class Parent(Component):
        def __init__(self) -> None:
            created.append("parent")
            self.add_component("a", Recorder, tag="a")
            self.add_component("b", Recorder, tag="b")

    async with Context():
        with pytest.raises(LookupError) as exc_info:
            await start_component(Parent, {"components": {"b": None}})

    # The None override wipes the hard-coded type, so the alias is used as the type
    assert str(exc_info.value) == "no such entry point in asphalt.components: b"
    assert created == ["parent", "a"]
