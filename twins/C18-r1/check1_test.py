"""
Behaviour check for refactoring 1 (extraction of Context._store_generated_resource).

Exercises the C18 property for factory generated resources through the public API:
exactly one ResourceEvent per first generation, on the context where it happened and on
no other one, carrying (types, name, description, is_factory=False); nothing for failed
generations or lookups of existing resources.
"""

from __future__ import annotations

from itertools import count
from typing import Any, Union

import anyio
import pytest
from anyio import create_task_group, wait_all_tasks_blocked
from anyio.abc import TaskStatus

from asphalt.core import (
    AsyncResourceError,
    Context,
    ResourceEvent,
    ResourceNotFound,
)

pytestmark = pytest.mark.anyio()


class Recorder:
    def __init__(self) -> None:
        self.events: dict[str, list[ResourceEvent]] = {}
        self.contexts: dict[str, Context] = {}

    async def listen(
        self, label: str, ctx: Context, *, task_status: TaskStatus[None]
    ) -> None:
        self.events[label] = []
        self.contexts[label] = ctx
        async with ctx.resource_added.stream_events() as stream:
            task_status.started()
            async for event in stream:
                self.events[label].append(event)

    async def take(self) -> dict[str, list[tuple[Any, ...]]]:
        """Return and clear what every listener has seen so far."""
        await wait_all_tasks_blocked()
        result: dict[str, list[tuple[Any, ...]]] = {}
        for label, events in self.events.items():
            for event in events:
                assert event.source is self.contexts[label]
                assert event.topic == "resource_added"

            result[label] = [
                (
                    e.resource_types,
                    e.resource_name,
                    e.resource_description,
                    e.is_factory,
                )
                for e in events
            ]
            events.clear()

        return result


async def test_generation_events_across_tree() -> None:
    rec = Recorder()
    counter = count(1)

    def sync_factory() -> Union[int, float]:  # noqa: UP007
        return next(counter)

    async def async_factory() -> str:
        await anyio.sleep(0)
        return f"s{next(counter)}"

    async with create_task_group() as tg, Context() as root:
        await tg.start(rec.listen, "root", root)
        root.add_resource_factory(sync_factory, description="numbers")
        root.add_resource_factory(async_factory, "txt", description=None)
        assert await rec.take() == {
            "root": [
                ((int, float), "default", "numbers", True),
                ((str,), "txt", None, True),
            ]
        }

        async with Context() as child, Context() as sibling_holder:
            # sibling_holder is a child of child (current context); make a true
            # sibling of "child" explicitly
            async with Context(root) as sibling:
                await tg.start(rec.listen, "child", child)
                await tg.start(rec.listen, "grandchild", sibling_holder)
                await tg.start(rec.listen, "sibling", sibling)

                # First generation through get_resource_nowait in child
                assert child.get_resource_nowait(float) == 1
                assert await rec.take() == {
                    "root": [],
                    "child": [((int, float), "default", "numbers", False)],
                    "grandchild": [],
                    "sibling": [],
                }

                # Looking it up again (either type, either API) announces nothing
                assert child.get_resource_nowait(int) == 1
                assert await child.get_resource(float) == 1
                assert await rec.take() == {
                    "root": [],
                    "child": [],
                    "grandchild": [],
                    "sibling": [],
                }

                # Async factory through get_resource in the grandchild
                assert await sibling_holder.get_resource(str, "txt") == "s2"
                assert await sibling_holder.get_resource(str, "txt") == "s2"
                assert sibling_holder.get_resource_nowait(str, "txt") == "s2"
                assert await rec.take() == {
                    "root": [],
                    "child": [],
                    "grandchild": [((str,), "txt", None, False)],
                    "sibling": [],
                }

                # Sync factory through get_resource in the sibling and in the root
                assert await sibling.get_resource(int) == 3
                assert root.get_resource_nowait(int) == 4
                assert await rec.take() == {
                    "root": [((int, float), "default", "numbers", False)],
                    "child": [],
                    "grandchild": [],
                    "sibling": [((int, float), "default", "numbers", False)],
                }

                # Generated resources are not inherited: a context created after the
                # root generation generates (and announces) its own
                async with Context(root) as late:
                    await tg.start(rec.listen, "late", late)
                    assert late.get_resource_nowait(float) == 5
                    taken = await rec.take()
                    assert taken.pop("late") == [
                        ((int, float), "default", "numbers", False)
                    ]
                    assert all(not events for events in taken.values())
                    del rec.events["late"]

        tg.cancel_scope.cancel()


@pytest.mark.parametrize("nowait", [True, False], ids=["nowait", "async"])
async def test_partial_type_overlap_keeps_existing_resource(nowait: bool) -> None:
    rec = Recorder()

    def factory() -> Union[int, float, str]:  # noqa: UP007
        return 7

    async with create_task_group() as tg, Context() as root:
        root.add_resource_factory(factory, "x", description="overlap")
        async with Context() as child:
            await tg.start(rec.listen, "root", root)
            await tg.start(rec.listen, "child", child)
            child.add_resource(5, "x", description="plain")
            assert await rec.take() == {
                "root": [],
                "child": [((int,), "x", "plain", False)],
            }

            if nowait:
                assert child.get_resource_nowait(float, "x") == 7
            else:
                assert await child.get_resource(float, "x") == 7

            # The event carries all the registered types of the factory
            assert await rec.take() == {
                "root": [],
                "child": [((int, float, str), "x", "overlap", False)],
            }

            # ...but the plain int resource was not replaced, and nothing is announced
            assert child.get_resource_nowait(int, "x") == 5
            assert await child.get_resource(str, "x") == 7
            assert child.get_resources(float) == {"x": 7}
            assert await rec.take() == {"root": [], "child": []}

        tg.cancel_scope.cancel()


async def test_failed_generation_and_lookups_dispatch_nothing() -> None:
    rec = Recorder()
    calls: list[str] = []
    fail = True

    def flaky() -> int:
        calls.append("flaky")
        if fail:
            raise RuntimeError("boom")

        return 11

    async def async_only() -> float:
        calls.append("async_only")
        return 2.5

    async def never() -> str:
        calls.append("never")
        await anyio.sleep_forever()
        return "unreachable"

    async with create_task_group() as tg, Context() as root:
        root.add_resource_factory(flaky)
        root.add_resource_factory(async_only)
        root.add_resource_factory(never)
        async with Context() as child:
            await tg.start(rec.listen, "root", root)
            await tg.start(rec.listen, "child", child)

            with pytest.raises(RuntimeError, match="boom"):
                child.get_resource_nowait(int)

            with pytest.raises(RuntimeError, match="boom"):
                await child.get_resource(int)

            with pytest.raises(AsyncResourceError):
                child.get_resource_nowait(float)

            with pytest.raises(ResourceNotFound):
                child.get_resource_nowait(bytes)

            with pytest.raises(ResourceNotFound):
                await child.get_resource(int, "other")

            assert child.get_resource_nowait(bytes, optional=True) is None
            assert await child.get_resource(bytes, optional=True) is None

            # Cancelled while the async factory is running
            with anyio.move_on_after(0.05) as scope:
                await child.get_resource(str)

            assert scope.cancelled_caught
            # (calling async_only() for get_resource_nowait() only created a coroutine
            # object which was closed without running)
            assert calls == ["flaky", "flaky", "never"]
            assert await rec.take() == {"root": [], "child": []}
            assert child.get_resources(int) == {}
            assert child.get_resources(float) == {}
            assert child.get_resources(str) == {}

            # After the failures, the first successful generation is announced once
            fail = False
            assert await child.get_resource(int) == 11
            assert child.get_resource_nowait(int) == 11
            assert await child.get_resource(float) == 2.5
            assert child.get_resource_nowait(float) == 2.5
            assert calls == ["flaky", "flaky", "never", "flaky", "async_only"]
            assert await rec.take() == {
                "root": [],
                "child": [
                    ((int,), "default", None, False),
                    ((float,), "default", None, False),
                ],
            }

        tg.cancel_scope.cancel()
