"""
Behaviour check for refactoring 1 (extraction of the "await prepare()/start() and wrap
errors" logic of ``_start_component`` into a helper).

Exercises, through the public API only, how a failure in the prepare/start phase of a
single component is reported and what happens to the rest of the component tree.
"""

from __future__ import annotations

from typing import Any

import pytest
from anyio import get_cancelled_exc_class, sleep, sleep_forever

from asphalt.core import (
    Component,
    ComponentStartError,
    Context,
    add_resource,
    add_teardown_callback,
    get_resource_nowait,
    start_component,
)

pytestmark = pytest.mark.anyio()

LOG: list[str] = []


@pytest.fixture(autouse=True)
def clear_log() -> None:
    LOG.clear()


class Boom(Exception):
    pass


class Node(Component):
    """Component whose behaviour in each phase is driven by its configuration."""

    def __init__(
        self,
        label: str,
        fail: str | None = None,
        prepare_delay: float | None = 0,
        start_delay: float | None = 0,
    ) -> None:
        self.label = label
        self.fail = fail
        self.prepare_delay = prepare_delay
        self.start_delay = start_delay
        LOG.append(f"init:{label}")

    async def _phase(self, phase: str, delay: float | None) -> None:
        label = self.label
        LOG.append(f"{phase}:enter:{label}")
        LOG.append(f"register:{phase}:{label}")
        add_resource(
            f"{phase}-{label}",
            f"{phase}_{label}",
            teardown_callback=lambda: LOG.append(f"teardown:{phase}:{label}"),
        )
        try:
            if delay is None:
                await sleep_forever()
            else:
                await sleep(delay)
        except get_cancelled_exc_class():
            LOG.append(f"{phase}:cancelled:{label}")
            raise

        if self.fail == phase:
            LOG.append(f"{phase}:fail:{label}")
            raise Boom(f"{phase} {label}")

        LOG.append(f"{phase}:exit:{label}")

    async def prepare(self) -> None:
        await self._phase("prepare", self.prepare_delay)

    async def start(self) -> None:
        await self._phase("start", self.start_delay)


def node(label: str, children: dict[str, Any] | None = None, **kwargs: Any) -> Any:
    config: dict[str, Any] = {"type": Node, "label": label, **kwargs}
    if children:
        config["components"] = children

    return config


def registrations() -> list[str]:
    return [e.split(":", 1)[1] for e in LOG if e.startswith("register:")]


def teardowns() -> list[str]:
    return [e.split(":", 1)[1] for e in LOG if e.startswith("teardown:")]


@pytest.mark.parametrize(
    "phase, phase_name", [("prepare", "preparing"), ("start", "starting")]
)
async def test_nested_child_failure(phase: str, phase_name: str) -> None:
    """
    root -> mid -> (bad, stall_prepare, stall_start); root -> other (stalls in start).
    ``bad`` fails after a short delay while its siblings are stalled in different
    phases.
    """
    delays = {f"{phase}_delay": 0.05}
    config = node(
        "root",
        {
            "mid": node(
                "mid",
                {
                    "bad": node("bad", fail=phase, **delays),
                    "sp": node("sp", prepare_delay=None),
                    "ss": node("ss", start_delay=None),
                },
            ),
            "other": node("other", start_delay=None),
        },
    )
    del config["type"]
    async with Context():
        with pytest.raises(ComponentStartError) as exc_info:
            await start_component(Node, config, timeout=5)

        exc = exc_info.value
        assert exc.phase == phase_name
        assert exc.path == "mid.bad"
        assert exc.component_type is Node
        assert type(exc.__cause__) is Boom
        assert exc.__cause__.args == (f"{phase} bad",)
        assert str(exc) == (
            f"error {phase_name} component 'mid.bad' ({__name__}.Node): "
            f"{__name__}.Boom: {phase} bad"
        )

        # The start() of the ancestors was never run
        assert "start:enter:mid" not in LOG
        assert "start:enter:root" not in LOG
        # The siblings (and the cousin) that were still starting were stopped
        assert "prepare:cancelled:sp" in LOG
        assert "start:cancelled:ss" in LOG
        assert "start:cancelled:other" in LOG
        assert "start:enter:sp" not in LOG

        # Nothing is running any more, and nothing is torn down yet
        snapshot = list(LOG)
        await sleep(0.15)
        assert LOG == snapshot
        assert teardowns() == []
        # What was registered before the failure is still owned by the context
        for name in registrations():
            phase_, label = name.split(":")
            assert get_resource_nowait(str, f"{phase_}_{label}") == f"{phase_}-{label}"

        registered = registrations()
        assert "prepare:root" in registered and f"{phase}:bad" in registered

    # ...and is torn down in reverse order when the context is left
    assert teardowns() == list(reversed(registered))


@pytest.mark.parametrize(
    "phase, phase_name", [("prepare", "preparing"), ("start", "starting")]
)
async def test_root_failure_no_timeout(phase: str, phase_name: str) -> None:
    """The root itself fails; with the timeout disabled."""
    config = node("root", {"child": node("child")}, fail=phase)
    del config["type"]
    async with Context():
        add_teardown_callback(lambda: LOG.append("teardown:outer"))
        with pytest.raises(ComponentStartError) as exc_info:
            await start_component(Node, config, timeout=None)

        exc = exc_info.value
        assert (exc.phase, exc.path, exc.component_type) == (phase_name, "", Node)
        assert type(exc.__cause__) is Boom
        assert str(exc) == (
            f"error {phase_name} the root component ({__name__}.Node): "
            f"{__name__}.Boom: {phase} root"
        )
        if phase == "prepare":
            # Children are only started after a successful prepare()
            assert "prepare:enter:child" not in LOG
            assert "start:enter:root" not in LOG
        else:
            assert "start:exit:child" in LOG

        registered = registrations()
        assert teardowns() == []

    assert teardowns() == list(reversed(registered)) + ["outer"]


async def test_only_start_implemented() -> None:
    """A component without prepare() that fails in start(), as a lone child."""

    class StartOnly(Component):
        async def start(self) -> None:
            add_resource("res", "startonly")
            await sleep(0.01)
            raise Boom("start only")

    class Parent(Component):
        def __init__(self) -> None:
            self.add_component("kid", StartOnly)

        async def start(self) -> None:
            LOG.append("parent started")

    async with Context():
        with pytest.raises(ComponentStartError) as exc_info:
            await start_component(Parent)

        assert exc_info.value.phase == "starting"
        assert exc_info.value.path == "kid"
        assert exc_info.value.component_type is StartOnly
        assert type(exc_info.value.__cause__) is Boom
        assert get_resource_nowait(str, "startonly") == "res"
        assert LOG == []


async def test_non_coroutine_phase_methods() -> None:
    """
    Edge cases: a synchronous prepare() returning a non-awaitable is reported as a
    "preparing" failure (TypeError as the cause), while a synchronous start() that
    raises when *called* is propagated as is.
    """

    class SyncPrepare(Component):
        def prepare(self) -> None:  # type: ignore[override]
            LOG.append("sync prepare")

    class SyncStart(Component):
        def start(self) -> None:  # type: ignore[override]
            raise Boom("raised by the call itself")

    async with Context():
        with pytest.raises(ComponentStartError) as exc_info:
            await start_component(SyncPrepare)

        assert exc_info.value.phase == "preparing"
        assert exc_info.value.path == ""
        assert type(exc_info.value.__cause__) is TypeError
        assert LOG == ["sync prepare"]

    async with Context():
        with pytest.raises(Boom, match="raised by the call itself"):
            await start_component(SyncStart)


async def test_success_is_unaffected() -> None:
    config = node("root", {"a": node("a", start_delay=0.02), "b": node("b")})
    del config["type"]
    async with Context():
        component = await start_component(Node, config, timeout=5)
        assert isinstance(component, Node) and component.label == "root"
        assert LOG.index("prepare:exit:root") < LOG.index("prepare:enter:a")
        assert LOG.index("start:exit:a") < LOG.index("start:enter:root")
        assert LOG.index("start:exit:b") < LOG.index("start:enter:root")
        assert LOG[-1] == "start:exit:root"
        registered = registrations()
        assert len(registered) == 6
        assert teardowns() == []

    assert teardowns() == list(reversed(registered))
