"""
Behaviour check for refactoring 3 (run_application / _run_application_async plumbing:
signal handler service task started via the root context object, renamed stop event,
walrus replaced by a plain assignment).

Exercises property C15 through the public API only, concentrating on abnormal endings:
failures in each startup phase, startup timeout, SIGINT/SIGTERM during and after
startup, service task crashes before and after startup has completed.
"""

from __future__ import annotations

import logging
import signal
from typing import Any

import pytest
from _pytest.logging import LogCaptureFixture
from anyio import sleep, sleep_forever, wait_all_tasks_blocked

from asphalt.core import (
    CLIApplicationComponent,
    Component,
    add_teardown_callback,
    run_application,
    start_service_task,
)

BACKENDS = ["asyncio", "trio"]
SIGNALS = {"sigint": signal.SIGINT, "sigterm": signal.SIGTERM}
SIGNAL_MESSAGES = {
    "sigint": "Received signal (Interrupt) – terminating application",
    "sigterm": "Received signal (Terminated) – terminating application",
}

registered: list[str] = []
called: list[str] = []
passed: dict[str, Any] = {}


@pytest.fixture(autouse=True)
def reset_records() -> None:
    registered.clear()
    called.clear()
    passed.clear()


def register(label: str) -> None:
    def sync_callback() -> None:
        called.append(f"{label}.sync")

    async def async_callback(exc: BaseException | None) -> None:
        called.append(f"{label}.async")
        passed[label] = exc

    add_teardown_callback(sync_callback)
    registered.append(f"{label}.sync")
    add_teardown_callback(async_callback, pass_exception=True)
    registered.append(f"{label}.async")


def assert_all_torn_down(expected_count: int) -> None:
    assert len(registered) == expected_count
    assert called == list(reversed(registered))


def act(action: str | None) -> None:
    if action in SIGNALS:
        signal.raise_signal(SIGNALS[action])
    elif action == "error":
        raise RuntimeError("boom")


class Node(Component):
    """
    Component that registers teardown callbacks in prepare() and start() and can be
    told to misbehave in a given phase.
    """

    def __init__(
        self,
        label: str = "root",
        depth: int = 0,
        # (label, phase, action) - who misbehaves, when and how
        trouble: tuple[str, str, str] | None = None,
    ) -> None:
        self.label = label
        self.action: dict[str, str] = {}
        if trouble and trouble[0] == label:
            self.action[trouble[1]] = trouble[2]

        act_now = self.action.get("init")
        if act_now == "error":
            raise RuntimeError("boom")

        if depth < 2:
            for index in (1, 2):
                self.add_component(
                    f"c{index}",
                    Node,
                    label=f"{label}.c{index}",
                    depth=depth + 1,
                    trouble=trouble,
                )

    async def misbehave(self, phase: str) -> None:
        action = self.action.get(phase)
        if action == "stall":
            await sleep_forever()
        elif action == "service-crash":

            async def crash() -> None:
                raise OSError("service task crashed early")

            await start_service_task(crash, "crasher")
            await sleep(3)
        elif action:
            act(action)
            # Give the signal handler an opportunity to react
            await sleep(3)

    async def prepare(self) -> None:
        register(f"{self.label}:prepare")
        await self.misbehave("prepare")

    async def start(self) -> None:
        register(f"{self.label}:start")
        await self.misbehave("start")


class ServiceRoot(Node):
    """Non-CLI application that ends itself from a service task after startup."""

    def __init__(self, ending: str, **kwargs: Any) -> None:
        super().__init__(**kwargs)
        self.ending = ending

    async def terminator(self) -> None:
        await wait_all_tasks_blocked()
        assert called == []
        act(self.ending)

    async def start(self) -> None:
        await super().start()
        await start_service_task(self.terminator, "terminator")


class CliRoot(CLIApplicationComponent):
    def __init__(self, signame: str) -> None:
        super().__init__()
        self.signame = signame
        self.add_component("node", Node, label="node", depth=1)

    async def start(self) -> None:
        register("cli:start")

    async def run(self) -> int:
        assert called == []
        act(self.signame)
        await sleep(0.1)
        assert called == []
        return 4


def outcome(
    component: type[Component],
    config: dict[str, Any],
    backend: str,
    **kwargs: Any,
) -> Any:
    try:
        result = run_application(
            component, config, backend=backend, logging=None, **kwargs
        )
    except SystemExit as exc:
        return "exit", exc.code
    except BaseException as exc:
        return "raise", exc

    assert result is None
    return "return", None


def framework_messages(caplog: LogCaptureFixture) -> list[str]:
    return [
        record.getMessage()
        for record in caplog.records
        if record.name == "asphalt.core" and record.levelno == logging.INFO
    ]


TROUBLE_SPOTS = [
    ("root", "prepare"),
    ("root.c1", "prepare"),
    ("root.c2.c1", "prepare"),
    ("root.c1.c2", "start"),
    ("root.c2", "start"),
    ("root", "start"),
]


@pytest.mark.parametrize("backend", BACKENDS)
@pytest.mark.parametrize("label, phase", TROUBLE_SPOTS)
def test_exception_during_startup(
    backend: str, label: str, phase: str, caplog: LogCaptureFixture
) -> None:
    caplog.set_level(logging.INFO, "asphalt.core")
    config = {"trouble": (label, phase, "error")}
    assert outcome(Node, config, backend) == ("exit", 1)
    assert f"{label}:{phase}.sync" in registered
    assert "root:prepare.sync" in registered
    assert called == list(reversed(registered))
    assert set(passed.values()) == {None}
    errors = [r.getMessage() for r in caplog.records if r.levelno >= logging.ERROR]
    assert errors == ["Error during application startup"]
    assert framework_messages(caplog) == [
        "Running in development mode",
        "Starting application",
        "Application stopped",
    ]


@pytest.mark.parametrize("backend", BACKENDS)
@pytest.mark.parametrize("label", ["root", "root.c2", "root.c1.c1"])
def test_exception_in_constructor(
    backend: str, label: str, caplog: LogCaptureFixture
) -> None:
    caplog.set_level(logging.INFO, "asphalt.core")
    config = {"trouble": (label, "init", "error")}
    assert outcome(Node, config, backend) == ("exit", 1)
    assert registered == [] and called == []
    errors = [r.getMessage() for r in caplog.records if r.levelno >= logging.ERROR]
    assert errors == ["Error during application startup"]


@pytest.mark.parametrize("backend", BACKENDS)
@pytest.mark.parametrize("label, phase", TROUBLE_SPOTS)
def test_startup_timeout(
    backend: str, label: str, phase: str, caplog: LogCaptureFixture
) -> None:
    caplog.set_level(logging.INFO, "asphalt.core")
    config = {"trouble": (label, phase, "stall")}
    assert outcome(Node, config, backend, start_timeout=0.2) == ("exit", 1)
    assert f"{label}:{phase}.sync" in registered
    assert called == list(reversed(registered))
    assert set(passed.values()) == {None}
    errors = [r.getMessage() for r in caplog.records if r.levelno >= logging.ERROR]
    assert len(errors) == 1
    assert errors[0].startswith("Timeout waiting for the component tree to start")
    assert framework_messages(caplog) == [
        "Running in development mode",
        "Starting application",
        "Application stopped",
    ]


@pytest.mark.parametrize("backend", BACKENDS)
@pytest.mark.parametrize("signame", list(SIGNALS))
@pytest.mark.parametrize("label, phase", TROUBLE_SPOTS)
def test_signal_during_startup(
    backend: str, signame: str, label: str, phase: str, caplog: LogCaptureFixture
) -> None:
    caplog.set_level(logging.INFO, "asphalt.core")
    config = {"trouble": (label, phase, signame)}
    assert outcome(Node, config, backend) == ("exit", 1)
    assert f"{label}:{phase}.sync" in registered
    assert called == list(reversed(registered))
    assert set(passed.values()) == {None}
    assert [r for r in caplog.records if r.levelno >= logging.ERROR] == []
    assert framework_messages(caplog) == [
        "Running in development mode",
        "Starting application",
        SIGNAL_MESSAGES[signame],
        "Application stopped",
    ]


@pytest.mark.parametrize("backend", BACKENDS)
@pytest.mark.parametrize("signame", list(SIGNALS))
def test_signal_after_startup(
    backend: str, signame: str, caplog: LogCaptureFixture
) -> None:
    caplog.set_level(logging.INFO, "asphalt.core")
    assert outcome(ServiceRoot, {"ending": signame}, backend) == ("return", None)
    # 7 components, each registering 2 callbacks in both prepare() and start()
    assert_all_torn_down(28)
    assert set(passed.values()) == {None}
    assert framework_messages(caplog) == [
        "Running in development mode",
        "Starting application",
        "Application started",
        SIGNAL_MESSAGES[signame],
        "Application stopped",
    ]


@pytest.mark.parametrize("backend", BACKENDS)
@pytest.mark.parametrize("signame", list(SIGNALS))
def test_signal_after_startup_of_cli_application(
    backend: str, signame: str, caplog: LogCaptureFixture
) -> None:
    """The signal is logged, but it is run() that decides how the application ends."""
    caplog.set_level(logging.INFO, "asphalt.core")
    assert outcome(CliRoot, {"signame": signame}, backend) == ("exit", 4)
    # 3 Node components registering 4 callbacks each, plus 2 from the CLI root
    assert_all_torn_down(14)
    assert set(passed.values()) == {None}
    assert framework_messages(caplog) == [
        "Running in development mode",
        "Starting application",
        "Application started",
        SIGNAL_MESSAGES[signame],
        "Application stopped",
    ]


@pytest.mark.parametrize("backend", BACKENDS)
def test_service_task_crash_after_startup(
    backend: str, caplog: LogCaptureFixture
) -> None:
    caplog.set_level(logging.INFO, "asphalt.core")
    kind, exc = outcome(ServiceRoot, {"ending": "error"}, backend)
    assert kind == "raise"
    assert isinstance(exc, RuntimeError) and str(exc) == "boom"
    assert_all_torn_down(28)
    assert framework_messages(caplog) == [
        "Running in development mode",
        "Starting application",
        "Application started",
        "Application stopped",
    ]


@pytest.mark.parametrize("backend", BACKENDS)
@pytest.mark.parametrize("label, phase", TROUBLE_SPOTS)
def test_service_task_crash_during_startup(
    backend: str, label: str, phase: str, caplog: LogCaptureFixture
) -> None:
    caplog.set_level(logging.INFO, "asphalt.core")
    config = {"trouble": (label, phase, "service-crash")}
    kind, exc = outcome(Node, config, backend)
    assert called == list(reversed(registered))
    assert f"{label}:{phase}.sync" in registered
    assert "Application started" not in framework_messages(caplog)
    assert framework_messages(caplog)[-1] == "Application stopped"
    assert kind == "raise"
    assert isinstance(exc, OSError) and str(exc) == "service task crashed early"


@pytest.mark.parametrize("backend", BACKENDS)
def test_signal_handlers_are_restored(backend: str) -> None:
    before = {sig: signal.getsignal(sig) for sig in SIGNALS.values()}
    assert outcome(ServiceRoot, {"ending": "sigterm"}, backend) == ("return", None)
    assert outcome(Node, {"trouble": ("root", "start", "error")}, backend) == (
        "exit",
        1,
    )
    assert {sig: signal.getsignal(sig) for sig in SIGNALS.values()} == before
