"""C06 - waiting for a resource during startup: no lost or false wake-ups."""
from __future__ import annotations

import ast

from ..cfg import CFG, Node, eval_order, iter_own
from ..loader import exc_expr, AnalysisError, ClassInfo, FuncInfo, dotted, walk_own
from .c11 import SignalAnchors
from .common import Anchors, call_name, is_const, names_in, self_attr
from .tables import enclosing_loops, expand_alias

UNBOUNDED = {"sys.maxsize", "math.inf", "inf", "float('inf')", 'float("inf")'}


class Window:
    """Interprocedural 'is the subscription established before any checkpoint' analysis."""

    def __init__(self, ctx, sa: SignalAnchors):
        self.ctx = ctx
        self.a = ctx.a
        self.sa = sa
        self.memo: dict = {}
        self.functions_on_path: list = []
        self.cp_reasons: list = []

    # what does executing this node do w.r.t. the subscription target / checkpoints?
    def node_class(self, f: FuncInfo, cfg: CFG, n: Node) -> str:
        """'T' target reached inside, 'C' may checkpoint first, '-' neither"""
        a = self.a
        # direct target: the append to the subscriber list in the subscribe helper
        for m in a.node_mutations(f, cfg, n):
            if len(m.path) >= 2 and m.path[-1] == self.sa.streams_attr and m.kind in ("call:append", "call:add", "call:insert"):
                return "T"
        # calls / enters of package functions
        entered = self._entered(f, cfg, n)
        worst = "-"
        for g, mode in entered:
            st = self.status(g, mode)
            if st == "C":
                self.cp_reasons.append(f"{f.loc(n.ast if isinstance(n.ast, ast.AST) else None)}: {g.qualname} may checkpoint before the subscription exists")
                return "C"
            if st == "T":
                worst = "T"
        if worst == "T":
            return "T"
        # remaining checkpoints (externals, unresolved awaitables)
        handled = {id(g) for g, _ in entered}
        for reason in self._own_checkpoints(f, cfg, n, handled):
            self.cp_reasons.append(f"{f.loc(n.ast if isinstance(n.ast, ast.AST) else None)}: {reason}")
            return "C"
        return "-"

    def _entered(self, f: FuncInfo, cfg: CFG, n: Node) -> list:
        """Package functions whose body (or enter-prefix) runs as part of this node."""
        a = self.a
        out = []
        if n.kind == "with_exit":
            return out
        if n.kind == "with_enter":
            tgt = a.cm_target(f, n.item.context_expr)
            if tgt and tgt[0] in ("acm", "cm"):
                out.append((tgt[1], "enter"))
            elif tgt and tgt[0] == "class":
                m = self.ctx.p.method(tgt[1], "__aenter__" if n.is_async else "__enter__")
                if m is not None:
                    out.append((m, "call"))
            exprs = eval_order(n.item.context_expr)
        else:
            root = cfg.own_ast(n)
            exprs = eval_order(root) if root is not None else []
        for e in exprs:
            if not isinstance(e, ast.Call):
                continue
            c = a.callee(f, e)
            if c.kind == "func" and not c.func.is_lambda:
                g = c.func
                if a.is_acm(g) or a.is_cm(g) or g.is_generator:
                    continue  # only creates the manager / generator object
                if g.is_async:
                    # runs only when awaited
                    if self._is_awaited(exprs, e):
                        out.append((g, "call"))
                else:
                    out.append((g, "call"))
            # exit_stack.enter_context(cm(...)) / enter_async_context(acm(...))
            if call_name(e) in ("enter_context", "enter_async_context") and e.args and isinstance(e.args[0], ast.Call):
                c2 = a.callee(f, e.args[0])
                if c2.kind == "func" and (a.is_cm(c2.func) or a.is_acm(c2.func)):
                    out.append((c2.func, "enter"))
        return out

    @staticmethod
    def _is_awaited(exprs: list, call: ast.Call) -> bool:
        return any(isinstance(x, ast.Await) and x.value is call for x in exprs)

    def _own_checkpoints(self, f: FuncInfo, cfg: CFG, n: Node, handled: set) -> list:
        a = self.a
        out = []
        if n.kind == "with_enter":
            if n.is_async:
                tgt = a.cm_target(f, n.item.context_expr)
                if tgt and tgt[0] in ("acm", "cm", "class"):
                    pass  # analysed through _entered
                else:
                    out += a.node_checkpoints(f, cfg, n)
            for e in eval_order(n.item.context_expr):
                if isinstance(e, ast.Await):
                    out += self._await_reason(f, e)
            return out
        if n.kind in ("with_exit", "for_next"):
            return a.node_checkpoints(f, cfg, n)
        root = cfg.own_ast(n)
        if root is None:
            return out
        for e in iter_own(root):
            if isinstance(e, ast.Await):
                out += self._await_reason(f, e)
        return out

    def _await_reason(self, f: FuncInfo, aw: ast.Await) -> list:
        a = self.a
        op = aw.value
        if isinstance(op, ast.Call):
            c = a.callee(f, op)
            if c.kind == "func" and c.func.is_async and not c.func.is_generator:
                return []  # analysed through _entered
            # await exit_stack.enter_async_context(pkg_acm())
            if call_name(op) == "enter_async_context" and op.args and isinstance(op.args[0], ast.Call):
                c2 = a.callee(f, op.args[0])
                if c2.kind == "func" and a.is_acm(c2.func):
                    return []
        r = a.await_checkpoints(f, aw)
        return [r] if r else []

    def status(self, f: FuncInfo, mode: str) -> str:
        key = (id(f), mode)
        if key in self.memo:
            return self.memo[key]
        self.memo[key] = "-"  # recursion guard
        cfg = self.a.cfg(f)
        st = self.explore(f, cfg, [cfg.entry], mode)
        self.memo[key] = st
        if st == "T":
            self.functions_on_path.append(f.qualname)
        return st

    def explore(self, f: FuncInfo, cfg: CFG, starts: list, mode: str) -> str:
        """'T': on every non-exceptional path from starts the target is reached before any
        checkpoint and before the end; 'C': some path hits a checkpoint first; '-': otherwise."""
        ends = {cfg.exit}
        if mode == "enter":
            ends = {n.id for n in self.a.yield_nodes(f)}
        # loop heads of (sync) for-loops stand for a target inside their body: the
        # zero-iteration path is infeasible (the signal list is never empty)
        loop_target_heads = set()
        cls: dict = {}
        seen: set = set()
        stack = list(starts)
        reached_end = False
        found_target = False
        while stack:
            nid = stack.pop()
            if nid in seen:
                continue
            seen.add(nid)
            n = cfg.nodes[nid]
            if nid in ends and (mode == "enter" or nid == cfg.exit):
                reached_end = True
                continue
            c = self.node_class(f, cfg, n)
            cls[nid] = c
            if c == "C":
                return "C"
            if c == "T":
                found_target = True
                continue
            if n.kind == "for_next" and not n.is_async:
                body = cfg.reach([d for d, lab in n.succ if lab == "t"], avoid=[nid], edge_ok=lambda s_, d, lab: lab not in ("e", "h", "s"))
                inner = [self.node_class(f, cfg, cfg.nodes[b]) for b in sorted(body)]
                if "C" in inner and "T" not in inner:
                    return "C"
                if "T" in inner:
                    # check the prefix of the body up to the target has no checkpoint
                    ok = self._body_prefix_ok(f, cfg, n)
                    if not ok:
                        return "C"
                    found_target = True
                    continue
            for d, lab in n.succ:
                if lab in ("e", "h", "s"):
                    continue
                stack.append(d)
        if reached_end:
            return "-"
        return "T" if found_target else "-"

    def _body_prefix_ok(self, f: FuncInfo, cfg: CFG, head: Node) -> bool:
        stack = [d for d, lab in head.succ if lab == "t"]
        seen = set()
        while stack:
            nid = stack.pop()
            if nid in seen or nid == head.id:
                continue
            seen.add(nid)
            c = self.node_class(f, cfg, cfg.nodes[nid])
            if c == "C":
                return False
            if c == "T":
                continue
            for d, lab in cfg.nodes[nid].succ:
                if lab not in ("e", "h", "s"):
                    stack.append(d)
        return True


def event_fields(an: Anchors) -> list:
    return [st.target.id for st in an.event_class.node.body if isinstance(st, ast.AnnAssign) and isinstance(st.target, ast.Name)]


def _predicate_expr(stmts):
    """The boolean expression computed by a predicate written with guard clauses
    (`if a: return b` / `return False`  ==  `a and b`), or None."""
    if not stmts:
        return None
    st = stmts[0]
    if isinstance(st, ast.Return) and st.value is not None:
        return st.value
    if isinstance(st, ast.If):
        t_ = _predicate_expr(st.body)
        e_ = _predicate_expr(list(st.orelse) + list(stmts[1:]))
        if t_ is None or e_ is None:
            return None
        is_c = lambda x, v: isinstance(x, ast.Constant) and x.value is v  # noqa: E731
        if is_c(e_, False):
            return ast.BoolOp(op=ast.And(), values=[st.test, t_])
        if is_c(t_, False):
            return ast.BoolOp(op=ast.And(), values=[ast.UnaryOp(op=ast.Not(), operand=st.test), e_])
        if is_c(t_, True):
            return ast.BoolOp(op=ast.Or(), values=[st.test, e_])
        if is_c(e_, True):
            return ast.BoolOp(op=ast.Or(), values=[ast.UnaryOp(op=ast.Not(), operand=st.test), t_])
        return ast.BoolOp(op=ast.Or(), values=[ast.BoolOp(op=ast.And(), values=[st.test, t_]), ast.BoolOp(op=ast.And(), values=[ast.UnaryOp(op=ast.Not(), operand=st.test), e_])])
    return None


def run(ctx) -> None:
    rep = ctx.rep
    a = ctx.a
    an = Anchors(a)
    sa = SignalAnchors(a)
    W = an.ComponentContext.methods.get("get_resource")
    if W is None:
        rep.violate("C06.R1", None, None, "ComponentContext does not override get_resource: components never wait for resources published later")
        return
    base = an.ctx_method("get_resource")
    wcfg = a.cfg(W)
    bcfg = a.cfg(base)

    # ------------------------------------------------------------------ R1 (a) miss -> raise in Context.get_resource
    reads = [n for n in bcfg.live_nodes() if bcfg.own_ast(n) is not None and any(isinstance(e, ast.Attribute) and e.attr in (an.resource_table, an.factory_table) and isinstance(e.ctx, ast.Load) for e in iter_own(bcfg.own_ast(n)))]
    nf = [n for n in bcfg.live_nodes() if n.kind == "stmt" and isinstance(n.ast, ast.Raise) and n.ast.exc is not None and "ResourceNotFound" in ast.unparse(exc_expr(n.ast))]
    if not reads or not nf:
        rep.unrecognised("C06.R1", base, base.node, "Context.get_resource has no table read / no raise ResourceNotFound")
    else:
        between = bcfg.between([r.id for r in reads], [x.id for x in nf], edge_ok=lambda s, d, lab: lab not in ("e", "h"))
        cps = [(bcfg.nodes[i], r) for i in sorted(between) for r in a.node_checkpoints(base, bcfg, bcfg.nodes[i])]
        if cps:
            n, r = cps[0]
            rep.violate("C06.R1", base, n.ast, f"checkpoint ({r}) between the miss on the tables and raise ResourceNotFound: a publication in that gap is neither seen by the lookup nor by the subscription that follows")
        else:
            rep.hold("C06.R1", base, nf[0].ast, f"no checkpoint between the miss on the tables and raise ResourceNotFound ({len(between)} nodes)")

    # ------------------------------------------------------------------ the waiter's handler
    delegate_calls = [(n, call) for n in wcfg.live_nodes() for call, c in a.node_calls(W, wcfg, n) if c.kind == "func" and c.func is base]
    handlers = [h for h in wcfg.live_nodes() if h.kind == "handler" and h.ast.type is not None and a.handler_catches(h.ast, "ResourceNotFound")]
    covered = []
    for n, call in delegate_calls:
        hs = a.covering_handlers(W, call)
        if any(a.handler_catches(h, "ResourceNotFound") for h in hs):
            covered.append((n, call))
    if not handlers or not covered:
        rep.violate("C06.R1", W, W.node, "a miss (ResourceNotFound) of the non-optional lookup is not caught: the component never waits for a resource published later")
        return
    hnode = handlers[0]
    win = Window(ctx, sa)
    st = win.explore(W, wcfg, [hnode.id], "call")
    if st == "T":
        rep.hold("C06.R1", W, hnode.ast, "from the caught miss to the insertion of the subscriber stream there is no checkpoint on any path (" + " -> ".join(reversed(win.functions_on_path)) + ")")
    elif st == "C":
        rep.violate("C06.R1", W, hnode.ast, "a checkpoint can occur after the miss and before the subscription is established: a resource published in that gap is missed and the component waits forever", path=win.cp_reasons[:6])
    else:
        rep.violate("C06.R1", W, hnode.ast, "after a miss the component does not subscribe to resource_added before waiting (no path reaches the subscriber-list insertion)")
    rep.floor("C06.R1", len(win.functions_on_path) + 1, 2)
    rep.extra["c06_window_functions"] = list(reversed(win.functions_on_path))
    # a miss of a non-optional request always leads to the wait: the handler never gives up
    # (re-raises / returns) before it has waited
    cp_nodes = [n.id for n in wcfg.live_nodes() if n.id in wcfg.reach([hnode.id]) and a.node_checkpoints(W, wcfg, n)]

    def _deliberate(src, dst, lab):
        return lab not in ("e", "h") or (src.kind == "stmt" and isinstance(src.ast, ast.Raise))

    gives_up = not cp_nodes or not wcfg.all_paths_pass(hnode.id, [wcfg.exit, wcfg.raise_exit], cp_nodes, edge_ok=_deliberate)
    rep.check("C06.R1", not gives_up, W, hnode.ast, "after a miss every path through the handler reaches the wait (the request is never failed before it has waited)", "after a miss some path leaves the handler (raise / return) without waiting: a request made while the resource is not there yet - e.g. from prepare() - fails immediately instead of waiting for the publication")

    # ------------------------------------------------------------------ R2 publish before announce
    sites = 0
    for name in ("add_resource", "add_resource_factory", "get_resource_nowait", "get_resource"):
        f = an.ctx_method(name)
        cfg = a.cfg(f)
        disp = an.dispatch_calls(f)
        table = an.factory_table if name == "add_resource_factory" else an.resource_table
        stores = [n for n, m in a.func_mutations(f) if m.kind != "rebind" and any(len(p) >= 2 and p[-1] == table for p in expand_alias(f, m.path))]
        for d in disp:
            sites += 1
            dn = cfg.nodes_containing(d)
            if not dn or not stores:
                rep.unrecognised("C06.R2", f, d, "dispatch without a table insertion in the same function")
                continue
            # every path to the dispatch passes an insertion (or its loop head)
            marks = [s.id for s in stores]
            for s in stores:
                root = s.ast if s.kind == "stmt" else None
                for it, tgt, loopnode in (enclosing_loops(f, root) if root is not None else []):
                    marks += [x.id for x in cfg.live_nodes() if x.kind == "for_next" and x.ast is loopnode]
            ok = cfg.all_paths_pass(cfg.entry, [dn[0].id], marks)
            after = cfg.reach([x for x, lab in dn[0].succ if lab != "e"])
            late = [s for s in stores if s.id in after]
            rep.check("C06.R2", ok and not late, f, d, "the insertion precedes the dispatch on every path", "the event is dispatched before the resource is in the table: a woken waiter's second lookup can miss")
            btw = cfg.between([s.id for s in stores], [dn[0].id])
            cps = [r for i in btw for r in a.node_checkpoints(f, cfg, cfg.nodes[i])]
            rep.check("C06.R2", not cps, f, d, "no checkpoint between insertion and dispatch", f"checkpoint between insertion and dispatch ({cps[0] if cps else ''})")
    rep.floor("C06.R2", sites, 4)
    dsp = sa.method("dispatch")
    rep.check("C06.R2", not dsp.is_async, dsp, dsp.node, "Signal.dispatch is synchronous", "Signal.dispatch is a coroutine: publication and announcement are separated by a checkpoint")
    sends = [c for c, _ in a.func_calls(dsp) if call_name(c) in ("send_nowait", "send")]
    rep.check("C06.R2", bool(sends) and all(call_name(c) == "send_nowait" for c in sends), dsp, sends[0] if sends else dsp.node, "events are delivered with send_nowait before dispatch returns", "dispatch does not deliver with send_nowait")

    # ------------------------------------------------------------------ R3 precise filter
    fields = event_fields(an)
    types_field, name_field = fields[0], fields[1]
    type_param, name_param = W.params[1], W.params[2]
    lambdas = [n for n in walk_own(W.node) if isinstance(n, ast.Lambda)]
    preds = []
    for call, c in a.func_calls(W):
        for arg in list(call.args) + [k.value for k in call.keywords]:
            if isinstance(arg, ast.Lambda):
                preds.append((call, arg, arg.body, arg.args.args[0].arg if arg.args.args else None))
            elif isinstance(arg, ast.Name) and arg.id in W.nested:
                fn = W.nested[arg.id]
                rets = [x for x in walk_own(fn.node) if isinstance(x, ast.Return)]
                if len(rets) == 1 and rets[0].value is not None:
                    preds.append((call, fn.node, rets[0].value, fn.params[0] if fn.params else None))
                else:
                    pe = _predicate_expr([s_ for s_ in fn.node.body if not (isinstance(s_, ast.Expr) and isinstance(s_.value, ast.Constant))])
                    if pe is not None:
                        preds.append((call, fn.node, pe, fn.params[0] if fn.params else None))
            elif isinstance(arg, ast.Call):
                # a predicate factory: helper(type, name) returning a lambda / nested function
                c2 = a.callee(W, arg)
                if c2.kind == "func" and not c2.func.is_async:
                    from .discharge import arg_mapping, subst

                    g = c2.func
                    mapping = arg_mapping(g, arg, has_receiver=g.cls is not None and "staticmethod" not in g.decorators)
                    if "staticmethod" in g.decorators and mapping is not None:
                        mapping = arg_mapping(g, arg, has_receiver=False)
                    rets = [x for x in walk_own(g.node) if isinstance(x, ast.Return) and x.value is not None]
                    if mapping is not None and len(rets) == 1:
                        rv = rets[0].value
                        if isinstance(rv, ast.Lambda):
                            preds.append((call, rv, subst(rv.body, mapping), rv.args.args[0].arg if rv.args.args else None))
                        elif isinstance(rv, ast.Name) and rv.id in g.nested:
                            fn = g.nested[rv.id]
                            r2 = [x for x in walk_own(fn.node) if isinstance(x, ast.Return)]
                            if len(r2) == 1 and r2[0].value is not None:
                                preds.append((call, fn.node, subst(r2[0].value, mapping), fn.params[0] if fn.params else None))
    if not preds:
        rep.violate("C06.R3", W, hnode.ast, "the wait has no filter: any published resource releases the waiter")
    for call, node, body, ev in preds:
        conj = body.values if isinstance(body, ast.BoolOp) and isinstance(body.op, ast.And) else [body]
        name_ok = type_ok = False
        extra = []
        for c in conj:
            if isinstance(c, ast.Compare) and len(c.ops) == 1:
                l, r = c.left, c.comparators[0]
                if isinstance(c.ops[0], ast.Eq) and {ast.unparse(l), ast.unparse(r)} == {f"{ev}.{name_field}", name_param}:
                    name_ok = True
                    continue
                if isinstance(c.ops[0], ast.In) and ast.unparse(l) == type_param and ast.unparse(r) == f"{ev}.{types_field}":
                    type_ok = True
                    continue
            extra.append(ast.unparse(c))
        if isinstance(body, ast.BoolOp) and isinstance(body.op, ast.Or):
            rep.violate("C06.R3", W, body, "the filter is a disjunction: a resource with the same name but another type (or vice versa) releases the waiter")
            continue
        rep.check(
            "C06.R3",
            name_ok and type_ok and not extra,
            W,
            body,
            "the filter matches exactly (event name == requested name) and (requested type in event types)",
            "the filter "
            + ("does not compare the name" if not name_ok else "does not test the requested type against the event's types" if not type_ok else f"has extra conditions {extra}")
            + ": waiters are released by unrelated publications or miss matching ones",
        )

    # ------------------------------------------------------------------ R4 re-lookup
    wait_nodes = [n for n in wcfg.live_nodes() if n.id in wcfg.reach([hnode.id]) and a.node_checkpoints(W, wcfg, n) and not any(n is dn for dn, _ in delegate_calls)]
    after_wait = set()
    for n in wait_nodes:
        after_wait |= wcfg.reach([d for d, lab in n.succ if lab not in ("e",)])
    relook = [(n, call) for n, call in delegate_calls if n.id in after_wait and n.id in wcfg.reach([hnode.id])]
    if not relook:
        other = [c for c, cal in a.func_calls(W) if cal.kind == "func" and cal.func.name.startswith("get_resource") and cal.func is not base]
        rep.violate("C06.R4", W, other[0] if other else hnode.ast, "after the wake-up the component does not repeat the same (asynchronous) lookup on the real context: factories (async ones in particular) published later are not resolved")
    for n, call in relook:
        args = [ast.unparse(x) for x in call.args]
        rep.check("C06.R4", args[:2] == [type_param, name_param] and not any(k.arg == "optional" for k in call.keywords), W, call, "the second lookup asks for the same (type, name)", f"the second lookup asks for ({', '.join(args)}) instead of the requested pair")
        # its result is what is returned
        ok = False
        if n.kind == "stmt" and isinstance(n.ast, ast.Return):
            ok = True
        elif n.kind == "stmt" and isinstance(n.ast, ast.Assign) and isinstance(n.ast.targets[0], ast.Name):
            v = n.ast.targets[0].id
            rets = [x for x in wcfg.live_nodes() if x.kind == "stmt" and isinstance(x.ast, ast.Return) and x.id in wcfg.reach([n.id])]
            ok = bool(rets) and all(isinstance(x.ast.value, ast.Name) and x.ast.value.id == v for x in rets)
        rep.check("C06.R4", ok, W, call, "the second lookup's result is returned", "the result of the second lookup is not what the waiter returns")
    # the first lookup uses the requested pair too
    for n, call in covered:
        args = [ast.unparse(x) for x in call.args]
        rep.check("C06.R6", args[:2] == [type_param, name_param], W, call, "the request side looks up exactly the requested (type, name)", f"the request looks up ({', '.join(args)})")

    # ------------------------------------------------------------------ R5 optional never waits
    opt_param = W.params[3] if len(W.params) > 3 else "optional"
    opt_tests = [t for t in wcfg.live_nodes() if t.kind == "test" and isinstance(t.ast, ast.Name) and t.ast.id == opt_param]
    if not opt_tests:
        rep.violate("C06.R5", W, W.node, "optional=True is not treated separately: an optional lookup would wait")
    else:
        t = opt_tests[0]
        side = wcfg.reach([d for d, lab in t.succ if lab == "t"], avoid=[t.id], edge_ok=lambda s, d, lab: lab not in ("e", "h"))
        waits = [n for n in wait_nodes if n.id in side]
        hs_in = [h for h in handlers if h.id in wcfg.reach([d for d, lab in t.succ if lab == "t"], avoid=[t.id])]
        rep.check("C06.R5", not waits and not hs_in, W, t.ast, "the optional branch returns the delegate's result without waiting", "the optional branch can reach the wait")
        rep.check("C06.R5", all(wcfg.dominates(t.id, h.id) for h in handlers), W, t.ast, "the optional test precedes the waiting path", "the waiting path is reachable without testing `optional`")
    # the plain Context lookup never waits
    waits_in_base = [c for c, cal in a.func_calls(base) if call_name(c) in ("wait_event", "stream_events", "wait", "sleep")]
    rep.check("C06.R5", not waits_in_base, base, waits_in_base[0] if waits_in_base else base.node, "outside component startup (plain Context) the lookup contains no wait", "Context.get_resource itself waits")
    nw = an.ComponentContext.methods.get("get_resource_nowait")
    if nw is not None:
        rep.check("C06.R5", not nw.is_async, nw, nw.node, "get_resource_nowait stays synchronous", "get_resource_nowait became a coroutine")

    # ------------------------------------------------------------------ R6 no remap on the request side
    for m in (W, nw):
        if m is None:
            continue
        reassigned = [n for n in walk_own(m.node) if isinstance(n, (ast.Assign, ast.AugAssign, ast.AnnAssign)) and any(isinstance(t, ast.Name) and t.id in (name_param, type_param) for t in (n.targets if isinstance(n, ast.Assign) else [n.target]))]
        for r in reassigned:
            rep.violate("C06.R6", m, r, "the requested name/type is rewritten on the request side: the component looks up and listens for a different pair than it asked for")
        if not reassigned:
            rep.hold("C06.R6", m, m.node, "the request side never rewrites the requested (type, name)")
        for call, c in a.func_calls(m):
            if c.kind == "func" and c.func.name in ("get_resource", "get_resource_nowait") and c.func.cls is an.Context:
                args = [ast.unparse(x) for x in call.args]
                if args[:2] != [type_param, name_param] and m is nw:
                    rep.violate("C06.R6", m, call, f"get_resource_nowait forwards ({', '.join(args)}) instead of the requested pair")

    # ------------------------------------------------------------------ R7 the wait queue cannot evict the matching event
    _queue_rule(ctx, an, sa, W, wcfg, hnode)
    # the publication side: the name a component's default-named resource is published under
    # (alias remapping, only while start() runs) decides whom it wakes - C14.R4
    from .common import include_rules

    include_rules(ctx, "c14", "C06.R6", only=("C14.R4",))
    # ... and which context it lands in: a component context forwards to the REAL context, also
    # when a component starts a nested component tree (C02.R4)
    include_rules(ctx, "c02", "C06.R6", only=("C02.R4",))
    # what the woken waiter receives is the factory's awaited product (C04.R1 / R3 / R5)
    include_rules(ctx, "c04", "C06.R4", only=("C04.R1", "C04.R3", "C04.R5"))


def _queue_rule(ctx, an: Anchors, sa: SignalAnchors, W: FuncInfo, wcfg: CFG, hnode: Node) -> None:
    rep = ctx.rep
    a = ctx.a
    region = wcfg.reach([hnode.id])
    # the call in the handler region that leads to the subscription
    start = None
    for n in wcfg.live_nodes():
        if n.id not in region:
            continue
        exprs = eval_order(n.item.context_expr) if n.kind == "with_enter" else (eval_order(wcfg.own_ast(n)) if wcfg.own_ast(n) is not None else [])
        for e in exprs:
            if isinstance(e, ast.Call):
                c = a.callee(W, e)
                if c.kind == "func" and c.func.name in ("wait_event", "stream_events"):
                    start = (e, c.func)
    if start is None:
        rep.unrecognised("C06.R7", W, hnode.ast, "cannot find the wait/stream call in the waiting path")
        return
    call, callee = start
    env = _bind(callee, call)
    size = _trace_size(ctx, callee, env, 0)
    if size is None:
        rep.unrecognised("C06.R7", W, call, "cannot determine the queue bound reaching create_memory_object_stream on the wait path")
        return
    txt = size if isinstance(size, str) else repr(size)
    if txt in UNBOUNDED:
        rep.hold("C06.R7", W, call, f"the wait queue is unbounded ({txt}): unrelated publications cannot evict the awaited event")
        return
    # bounded queue: acceptable only if the predicate runs on the producer side
    rep.violate(
        "C06.R7",
        W,
        call,
        f"the waiter subscribes through a bounded queue (size {txt}) whose filter is applied on the consumer side: more than {txt} unrelated publications before the waiter runs again evict the awaited event (lost wake-up)",
    )


def _bind(callee: FuncInfo, call: ast.Call) -> dict:
    pos = [x.arg for x in callee.node.args.posonlyargs + callee.node.args.args]
    if pos and pos[0] in ("self", "cls"):
        pos = pos[1:]
    env = {}
    for i, arg in enumerate(call.args):
        if i < len(pos):
            env[pos[i]] = arg
    for kw in call.keywords:
        if kw.arg:
            env[kw.arg] = kw.value
    return env


def _value(callee: FuncInfo, env: dict, expr):
    if isinstance(expr, ast.Constant):
        return expr.value
    if isinstance(expr, ast.Name):
        if expr.id in env:
            v = env[expr.id]
            return v if not isinstance(v, ast.AST) else (v.value if isinstance(v, ast.Constant) else ast.unparse(v))
        d = callee.param_default(expr.id)
        if d is not None:
            return d.value if isinstance(d, ast.Constant) else ast.unparse(d)
        return None
    return ast.unparse(expr)


def _trace_size(ctx, f: FuncInfo, env: dict, depth: int):
    """Value of the buffer-size argument reaching create_memory_object_stream, following the
    call chain wait_event -> stream_events -> ... with constant propagation through defaults."""
    a = ctx.a
    if depth > 5:
        return None
    for call, c in a.func_calls(f):
        if call_name(call) == "create_memory_object_stream":
            if not call.args and not call.keywords:
                return 0
            arg = call.args[0] if call.args else call.keywords[0].value
            return _value(f, env, arg)
    for call, c in a.func_calls(f):
        if c.kind == "func" and c.func.name in ("wait_event", "stream_events") and c.func is not f:
            inner = _bind(c.func, call)
            resolved = {}
            for k, v in inner.items():
                val = _value(f, env, v)
                resolved[k] = ast.Constant(value=val) if not isinstance(val, str) else ast.parse(val, mode="eval").body
            r = _trace_size(ctx, c.func, resolved, depth + 1)
            if r is not None:
                return r
    return None
