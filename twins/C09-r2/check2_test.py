"""
Behaviour check for refactoring 2 (control flow of run_background_task: the
exception-handler decision and the task_status parameter detection).

Focus: the exception handler gets each escaping Exception exactly once, the error is
swallowed only on a truthy verdict and otherwise comes out of the root context;
cancellation never reaches the handler; wait_finished() returns whatever the outcome;
task_status detection for all parameter kinds.
"""

from __future__ import annotations

import logging
import sys
from typing import Any, NoReturn

import pytest
from anyio import CancelScope, Event, fail_after, sleep
from anyio.abc import TaskStatus
from anyio.lowlevel import checkpoint
from pytest import LogCaptureFixture

from asphalt.core import (
    Context,
    TaskFactory,
    start_background_task_factory,
    start_service_task,
)

if sys.version_info < (3, 11):
    from exceptiongroup import BaseExceptionGroup

pytestmark = pytest.mark.anyio()


def leaves(exc: BaseException) -> list[BaseException]:
    if isinstance(exc, BaseExceptionGroup):
        return [leaf for sub in exc.exceptions for leaf in leaves(sub)]

    return [exc]


class Recorder:
    def __init__(self, verdict: Any) -> None:
        self.verdict = verdict
        self.calls: list[Exception] = []

    def __call__(self, exc: Exception) -> Any:
        self.calls.append(exc)
        if callable(self.verdict):
            return self.verdict(exc)

        return self.verdict


@pytest.mark.parametrize(
    "verdict", [True, 1, "yes", [0], object()], ids=["True", "1", "str", "list", "obj"]
)
@pytest.mark.parametrize("soon", [False, True], ids=["start_task", "start_task_soon"])
async def test_truthy_verdict_swallows(verdict: Any, soon: bool) -> None:
    handler = Recorder(verdict)
    error = RuntimeError("oops")
    survivor_done = False

    async def failing() -> NoReturn:
        await checkpoint()
        raise error

    async def survivor() -> None:
        nonlocal survivor_done
        await sleep(0.1)
        survivor_done = True

    with fail_after(5):
        async with Context():
            factory = await start_background_task_factory(exception_handler=handler)
            other = await factory.start_task(survivor, "survivor")
            if soon:
                handle = factory.start_task_soon(failing, "failing")
            else:
                handle = await factory.start_task(failing, "failing")

            await handle.wait_finished()
            await checkpoint()
            assert factory.all_task_handles() == {other}
            assert handler.calls == [error]

    assert handler.calls == [error]
    assert handler.calls[0] is error
    assert survivor_done


@pytest.mark.parametrize(
    "verdict", [False, 0, None, "", []], ids=["False", "0", "None", "empty-str", "list"]
)
@pytest.mark.parametrize("soon", [False, True], ids=["start_task", "start_task_soon"])
async def test_falsy_verdict_propagates_out_of_root(verdict: Any, soon: bool) -> None:
    handler = Recorder(verdict)
    error = RuntimeError("oops")
    body_cancelled = False

    async def failing() -> NoReturn:
        await checkpoint()
        raise error

    factory: TaskFactory
    with fail_after(5):
        with pytest.raises(BaseExceptionGroup) as excinfo:
            async with Context():
                factory = await start_background_task_factory(
                    exception_handler=handler
                )
                if soon:
                    handle = factory.start_task_soon(failing, "failing")
                else:
                    handle = await factory.start_task(failing, "failing")

                with CancelScope(shield=True):
                    await handle.wait_finished()

                try:
                    await sleep(3)
                except BaseException:
                    body_cancelled = True
                    raise

    assert leaves(excinfo.value) == [error]
    assert handler.calls == [error]
    assert body_cancelled
    assert factory.all_task_handles() == set()


async def test_no_handler_propagates() -> None:
    error = KeyError("missing")

    async def failing() -> NoReturn:
        await checkpoint()
        raise error

    with fail_after(5):
        with pytest.raises(BaseExceptionGroup) as excinfo:
            async with Context():
                factory = await start_background_task_factory()
                handle = factory.start_task_soon(failing)
                with CancelScope(shield=True):
                    await handle.wait_finished()

    assert leaves(excinfo.value) == [error]


async def test_handler_that_raises() -> None:
    error = RuntimeError("original")
    handler_error = ValueError("handler failed")

    def verdict(exc: Exception) -> NoReturn:
        raise handler_error

    handler = Recorder(verdict)

    async def failing() -> NoReturn:
        await checkpoint()
        raise error

    with fail_after(5):
        with pytest.raises(BaseExceptionGroup) as excinfo:
            async with Context():
                factory = await start_background_task_factory(
                    exception_handler=handler
                )
                handle = factory.start_task_soon(failing)
                with CancelScope(shield=True):
                    await handle.wait_finished()

    assert leaves(excinfo.value) == [handler_error]
    assert handler_error.__context__ is error
    assert handler.calls == [error]


async def test_per_exception_verdicts_each_called_once() -> None:
    handler = Recorder(lambda exc: str(exc).startswith("ok"))
    go = Event()

    def make(message: str | None) -> Any:
        async def taskfunc() -> None:
            await go.wait()
            if message is not None:
                raise RuntimeError(message)

        return taskfunc

    messages = ["ok-1", None, "ok-2", "bad-1", None, "ok-3"]
    with fail_after(5):
        with pytest.raises(BaseExceptionGroup) as excinfo:
            async with Context():
                factory = await start_background_task_factory(
                    exception_handler=handler
                )
                handles = [
                    factory.start_task_soon(make(message), f"task-{index}")
                    for index, message in enumerate(messages)
                ]
                assert factory.all_task_handles() == set(handles)
                go.set()
                with CancelScope(shield=True):
                    for handle in handles:
                        await handle.wait_finished()

    assert [str(exc) for exc in leaves(excinfo.value)] == ["bad-1"]
    seen = sorted(str(exc) for exc in handler.calls)
    # "bad-1" cancels its siblings, which may or may not have raised already, but no
    # exception is ever reported twice, and the unhandled one is always reported
    assert len(seen) == len(set(seen))
    assert "bad-1" in seen
    assert set(seen) <= {"ok-1", "ok-2", "ok-3", "bad-1"}
    assert factory.all_task_handles() == set()


async def test_all_handled_errors_reported_exactly_once() -> None:
    handler = Recorder(True)
    go = Event()

    def make(index: int) -> Any:
        async def taskfunc() -> None:
            await go.wait()
            for _ in range(index % 3):
                await checkpoint()

            if index % 2:
                raise RuntimeError(str(index))

        return taskfunc

    with fail_after(5):
        async with Context():
            factory = await start_background_task_factory(exception_handler=handler)
            handles = [factory.start_task_soon(make(index)) for index in range(10)]
            go.set()
            for handle in handles:
                await handle.wait_finished()

            await checkpoint()
            assert factory.all_task_handles() == set()

    assert sorted(str(exc) for exc in handler.calls) == ["1", "3", "5", "7", "9"]


async def test_cancellation_is_not_passed_to_handler() -> None:
    handler = Recorder(False)
    cancelled: list[str] = []
    finished: list[str] = []

    def make(key: str) -> Any:
        async def taskfunc() -> None:
            try:
                await sleep(0.2)
            except BaseException:
                cancelled.append(key)
                raise

            finished.append(key)

        return taskfunc

    with fail_after(5):
        async with Context():
            factory = await start_background_task_factory(exception_handler=handler)
            victim = await factory.start_task(make("victim"), "victim")
            bystander = await factory.start_task(make("bystander"), "bystander")
            not_started = factory.start_task_soon(make("not-started"), "not-started")
            victim.cancel()
            not_started.cancel()
            await victim.wait_finished()
            await not_started.wait_finished()
            await checkpoint()
            assert factory.all_task_handles() == {bystander}
            # Cancelling again after the task has finished is harmless
            victim.cancel()
            await victim.wait_finished()

    assert handler.calls == []
    # (a task cancelled before it got to run is cancelled at its first checkpoint)
    assert sorted(cancelled) == ["not-started", "victim"]
    assert finished == ["bystander"]


async def test_task_status_parameter_kinds() -> None:
    handler = Recorder(True)
    calls: list[str] = []

    async def positional_or_keyword(task_status: TaskStatus[str]) -> None:
        calls.append("pok")
        task_status.started("pok-value")

    async def keyword_only(*, task_status: TaskStatus[str]) -> None:
        calls.append("kwonly")
        task_status.started("kwonly-value")

    async def with_default(
        foo: int = 1, task_status: Any = None, *args: Any, **kwargs: Any
    ) -> None:
        calls.append(f"default-{foo}")
        task_status.started("default-value")

    async def positional_only(task_status: Any, /) -> None:
        calls.append("posonly")  # pragma: no cover

    async def var_keyword(**task_status: Any) -> None:
        calls.append(f"varkw-{task_status}")
        task_status["task_status"].started("varkw-value")

    async def unrelated(status: Any = None, **kwargs: Any) -> None:
        calls.append(f"unrelated-{status}-{kwargs}")

    with fail_after(5):
        async with Context():
            factory = await start_background_task_factory(exception_handler=handler)
            handle = await factory.start_task(positional_or_keyword)
            assert handle.start_value == "pok-value"
            handle = await factory.start_task(keyword_only)
            assert handle.start_value == "kwonly-value"
            handle = await factory.start_task(with_default)
            assert handle.start_value == "default-value"

            # Not counted as accepting task_status: called without arguments, so
            # this one fails with a TypeError which goes to the handler
            handle = await factory.start_task(positional_only)
            assert handle.start_value is None
            await handle.wait_finished()
            assert len(handler.calls) == 1
            assert isinstance(handler.calls[0], TypeError)

            # A **task_status parameter does count (same name, not positional-only)
            handle = await factory.start_task(var_keyword)
            assert handle.start_value == "varkw-value"
            await handle.wait_finished()

            handle = await factory.start_task(unrelated)
            assert handle.start_value is None
            await handle.wait_finished()

            # start_task_soon: task_status is the "ignored" dummy
            handle = factory.start_task_soon(keyword_only)
            await handle.wait_finished()
            assert not hasattr(handle, "start_value")
            await checkpoint()
            assert factory.all_task_handles() == set()

    assert calls[:3] == ["pok", "kwonly", "default-1"]
    assert calls[3].startswith("varkw-{'task_status': ")
    assert calls[4:] == ["unrelated-None-{}", "kwonly"]
    assert len(handler.calls) == 1


async def test_failure_before_started_with_handler() -> None:
    handler = Recorder(True)
    error = RuntimeError("early")

    async def taskfunc(task_status: TaskStatus[None]) -> NoReturn:
        await checkpoint()
        raise error

    with fail_after(5):
        async with Context():
            factory = await start_background_task_factory(exception_handler=handler)
            with pytest.raises(RuntimeError) as excinfo:
                await factory.start_task(taskfunc, "early")

            assert excinfo.value is not error
            assert "started" in str(excinfo.value)
            assert handler.calls == [error]
            await checkpoint()
            assert factory.all_task_handles() == set()


async def test_failure_before_started_without_handler() -> None:
    handler = Recorder(False)
    error = RuntimeError("early")

    async def taskfunc(task_status: TaskStatus[None]) -> NoReturn:
        await checkpoint()
        raise error

    with fail_after(5):
        with pytest.raises(BaseException) as excinfo:
            async with Context():
                factory = await start_background_task_factory(
                    exception_handler=handler
                )
                await factory.start_task(taskfunc, "early")

    assert leaves(excinfo.value) == [error]
    assert handler.calls == [error]


async def test_log_messages(caplog: LogCaptureFixture) -> None:
    caplog.set_level(logging.DEBUG, "asphalt.core")
    handler = Recorder(lambda exc: str(exc) == "handled")

    async def good() -> None:
        await checkpoint()

    def make_bad(message: str) -> Any:
        async def bad() -> NoReturn:
            await checkpoint()
            raise RuntimeError(message)

        return bad

    with fail_after(5):
        with pytest.raises(BaseExceptionGroup):
            async with Context():
                factory = await start_background_task_factory(
                    exception_handler=handler
                )
                for func, name in [
                    (good, "good"),
                    (make_bad("handled"), "bad-handled"),
                    (make_bad("unhandled"), "bad-unhandled"),
                ]:
                    handle = await factory.start_task(func, name)
                    with CancelScope(shield=True):
                        await handle.wait_finished()

    relevant = [
        (record.levelno, record.getMessage(), record.exc_info is not None)
        for record in caplog.records
        if record.name == "asphalt.core"
        and record.getMessage().startswith("Background task (")
        and "factory" not in record.getMessage()
    ]
    assert relevant == [
        (logging.DEBUG, "Background task (good) starting", False),
        (logging.DEBUG, "Background task (good) finished successfully", False),
        (logging.DEBUG, "Background task (bad-handled) starting", False),
        (logging.ERROR, "Background task (bad-handled) crashed", True),
        (logging.DEBUG, "Background task (bad-unhandled) starting", False),
        (logging.ERROR, "Background task (bad-unhandled) crashed", True),
    ]


async def test_service_task_errors_have_no_handler() -> None:
    # start_service_task() shares the same runner, without an exception handler
    error = RuntimeError("service")
    gate = Event()

    async def service() -> NoReturn:
        await gate.wait()
        raise error

    with fail_after(5):
        with pytest.raises(BaseException) as excinfo:
            async with Context():
                await start_service_task(service, "svc", teardown_action=gate.set)

    assert leaves(excinfo.value) == [error]
