"""
Behaviour check for refactoring 2 (shared helper for storing generated resources).

Exercises property C02 for resource factories through the public API: generated
resources are bound to the context they were requested through, are visible via all
lookup paths there, and never leak to parents, siblings or later children.
"""

from __future__ import annotations

from typing import Any, Union

import pytest
from anyio import create_task_group, fail_after, wait_all_tasks_blocked
from anyio.lowlevel import checkpoint

from asphalt.core import (
    AsyncResourceError,
    Context,
    ResourceEvent,
    ResourceNotFound,
    current_context,
    inject,
    resource,
)

pytestmark = pytest.mark.anyio()


class Base:
    pass


class Derived(Base):
    pass


async def collect_events(ctx: Context, sink: list[ResourceEvent], count: int) -> None:
    async with ctx.resource_added.stream_events() as stream:
        async for event in stream:
            sink.append(event)
            if len(sink) == count:
                return


async def test_sync_and_async_lookup_store_the_generated_resource_locally() -> None:
    made: list[tuple[str, Context]] = []

    def sync_factory() -> Derived:
        made.append(("sync", current_context()))
        return Derived()

    async def async_factory() -> Base:
        await checkpoint()
        made.append(("async", current_context()))
        return Base()

    async with Context() as root:
        root.add_resource_factory(sync_factory, "s", types=[Base, Derived])
        root.add_resource_factory(async_factory, "a")
        async with Context() as child1, Context(root) as child2:
            assert child2.parent is root
            first = child1.get_resource_nowait(Base, "s")
            assert isinstance(first, Derived)
            # cached under every registered type, in this context only
            assert child1.get_resource_nowait(Derived, "s") is first
            assert await child1.get_resource(Base, "s") is first
            assert child1.get_resources(Base) == {"s": first}
            assert child1.get_resources(Derived) == {"s": first}
            assert child2.get_resources(Base) == {}
            assert root.get_resources(Base) == {}

            # async factory: only through get_resource()
            with pytest.raises(AsyncResourceError):
                child2.get_resource_nowait(Base, "a")

            assert child2.get_resources(Base) == {}
            second = await child2.get_resource(Base, "a")
            assert type(second) is Base
            assert child2.get_resource_nowait(Base, "a") is second
            assert child2.get_resources(Base) == {"a": second}
            assert child1.get_resources(Base) == {"s": first}
            assert root.get_resources(Base) == {}

            # the sibling generates its own instance from the same factory
            third = await child2.get_resource(Derived, "s")
            assert third is not first
            assert child2.get_resources(Base) == {"a": second, "s": third}
            assert list(child2.get_resources(Base)) == ["a", "s"]

            # later children do not inherit generated resources
            async with Context(child2) as grandchild:
                assert grandchild.get_resources(Base) == {}
                fourth = grandchild.get_resource_nowait(Derived, "s")
                assert fourth is not third
                assert child2.get_resource_nowait(Derived, "s") is third

        assert root.get_resources(Base) == {}
        assert [kind for kind, _ in made] == ["sync", "async", "sync", "sync"]
        # factories take no arguments; current_context() is whatever context is
        # current at call time (child2 is the innermost one in the block above)
        assert [ctx for _, ctx in made] == [child2, child2, child2, grandchild]


async def test_generated_resource_does_not_replace_existing_entries() -> None:
    def factory() -> Union[Base, Derived]:
        return Derived()

    existing = Base()
    async with Context() as root:
        root.add_resource_factory(factory, "x")
        async with Context() as child:
            child.add_resource(existing, "x", types=[Base])
            generated = child.get_resource_nowait(Derived, "x")
            assert isinstance(generated, Derived)
            # the static resource registered as Base is left alone
            assert child.get_resource_nowait(Base, "x") is existing
            assert await child.get_resource(Base, "x") is existing
            assert child.get_resource_nowait(Derived, "x") is generated
            assert child.get_resources(Base) == {"x": generated}
            assert child.get_resources(Derived) == {"x": generated}

            # the static one is inherited further, the generated one is not
            async with Context() as grandchild:
                assert grandchild.get_resources(Base) == {"x": existing}
                assert grandchild.get_resources(Derived) == {}

        assert root.get_resources(Base) == {}
        assert root.get_resources(Derived) == {}


async def test_events_are_dispatched_only_in_the_requesting_context() -> None:
    def factory() -> Union[int, float]:
        return 7

    root_events: list[ResourceEvent] = []
    child_events: list[ResourceEvent] = []
    async with Context() as root:
        root.add_resource_factory(factory, "num", description="a number")
        with fail_after(3):
            async with Context() as child, create_task_group() as tg:
                tg.start_soon(collect_events, root, root_events, 1)
                tg.start_soon(collect_events, child, child_events, 2)
                await wait_all_tasks_blocked()

                assert child.get_resource_nowait(int, "num") == 7
                # already cached: no second event, no second factory call
                assert await child.get_resource(float, "num") == 7
                child.add_resource("marker", "end")
                root.add_resource("marker", "end")

        assert len(child_events) == 2
        event = child_events[0]
        assert event.source is child
        assert event.resource_types == (int, float)
        assert event.resource_name == "num"
        assert event.resource_description == "a number"
        assert event.is_factory is False
        assert child_events[1].resource_types == (str,)

        # the root only ever heard about its own resource
        assert len(root_events) == 1
        assert root_events[0].resource_types == (str,)
        assert root_events[0].source is root


async def test_failing_factory_stores_nothing() -> None:
    attempts = 0

    def flaky() -> int:
        nonlocal attempts
        attempts += 1
        if attempts == 1:
            raise LookupError("not yet")

        return attempts

    async def async_flaky() -> str:
        raise OSError("never")

    async with Context() as root:
        root.add_resource_factory(flaky, "f")
        root.add_resource_factory(async_flaky, "g")
        async with Context() as child:
            with pytest.raises(LookupError, match="not yet"):
                child.get_resource_nowait(int, "f")

            assert child.get_resources(int) == {}
            with pytest.raises(OSError, match="never"):
                await child.get_resource(str, "g")

            assert child.get_resources(str) == {}
            assert await child.get_resource(int, "f") == 2
            assert child.get_resources(int) == {"f": 2}
            assert root.get_resources(int) == {}
            assert root.get_resource_nowait(int, "f") == 3
            assert child.get_resource_nowait(int, "f") == 2


async def test_injected_parameters_use_the_same_generated_resources() -> None:
    counter = 0

    def factory() -> int:
        nonlocal counter
        counter += 1
        return counter

    @inject
    def sync_func(value: int = resource("n")) -> int:
        return value

    @inject
    async def async_func(value: int = resource("n")) -> int:
        return value

    async with Context() as root:
        root.add_resource_factory(factory, "n")
        async with Context() as child:
            assert sync_func() == 1
            assert await async_func() == 1
            assert child.get_resource_nowait(int, "n") == 1
            async with Context() as grandchild:
                assert await async_func() == 2
                assert sync_func() == 2
                assert grandchild.get_resources(int) == {"n": 2}

            assert sync_func() == 1

        assert await async_func() == 3
        assert sync_func() == 3
        assert root.get_resources(int) == {"n": 3}
        with pytest.raises(ResourceNotFound):
            root.get_resource_nowait(int, "other")


async def test_reentrant_factory_sees_consistent_state() -> None:
    seen: list[Any] = []

    def inner() -> str:
        return "inner"

    def outer() -> bytes:
        ctx = current_context()
        # nested lookup through another factory while this one is running
        seen.append(ctx.get_resource_nowait(str, "i"))
        seen.append(dict(ctx.get_resources(bytes)))
        return b"outer"

    async with Context() as root:
        root.add_resource_factory(inner, "i")
        root.add_resource_factory(outer, "o")
        async with Context() as child:
            assert child.get_resource_nowait(bytes, "o") == b"outer"
            assert seen == ["inner", {}]
            assert child.get_resources(str) == {"i": "inner"}
            assert child.get_resources(bytes) == {"o": b"outer"}
            assert root.get_resources(str) == {}
            assert root.get_resources(bytes) == {}
