#!/usr/bin/env python3
"""Generate the mechanical twins (selftest/autotwins.py), optionally confirm that the unedited
test suite passes on each (in a scratch copy outside /repo and /verif, removed afterwards),
and run all 19 checks on each in memory.   usage: tools/check_autotwins.py [--suite]"""
import os, shutil, subprocess, sys, tempfile
from concurrent.futures import ProcessPoolExecutor
VERIF = os.path.dirname(os.path.dirname(os.path.abspath(__file__)))
sys.path.insert(0, VERIF)
from sa.driver import PROPS, analyse_variant, repo_root
from sa.loader import Project
from selftest import autotwins

def job(args):
    name, ov, prop = args
    v, rep = analyse_variant(prop, ov, inherited_known=True)
    if v == "holds":
        return name, prop, v, []
    detail = [rep] if isinstance(rep, str) else [f"{i.verdict} {i.rule} {i.site} {i.function}: {i.why[:160]}" for i in rep.instances if i.verdict not in ("HOLDS", "KNOWN")][:4]
    if not isinstance(rep, str):
        detail += [f"floor {r}: {f} < {m}" for r, f, m in rep.floors if f < m]
    return name, prop, v, detail

def main():
    project = Project(repo_root(), inline=False)
    sources = {m.relpath: m.src for m in project.modules.values()}
    variants = {}
    gens = dict(autotwins.GENERATORS)
    if "--experimental" in sys.argv:
        gens.update(autotwins.EXPERIMENTAL)
    for name, gen in gens.items():
        ov = gen(dict(sources))
        for rel, src in ov.items():
            compile(src, rel, "exec")
        variants[name] = ov
    if "--suite" in sys.argv:
        for name, ov in variants.items():
            tmp = tempfile.mkdtemp(prefix="autotwin-")
            try:
                subprocess.run(["git", "-C", repo_root(), "worktree", "add", "-q", "--detach", tmp + "/wt", "HEAD"], check=True)
                for rel, src in ov.items():
                    open(os.path.join(tmp, "wt", rel), "w").write(src)
                if name == "auto-rename-private":
                    import glob
                    for tp in glob.glob(os.path.join(tmp, "wt", "tests", "**", "*.py"), recursive=True):
                        text = open(tp).read()
                        open(tp, "w").write(autotwins.apply_private_mapping_to_source(text, autotwins.rename_private.last_mapping))
                r = subprocess.run("/venv/bin/python -m pytest -q -p no:cacheprovider --timeout=900 -x --deselect tests/test_cli.py::test_run_bad_override --deselect tests/test_cli.py::test_run_bad_path --deselect tests/test_cli.py::test_run_missing_root_component_config --deselect tests/test_cli.py::test_run_missing_root_component_type", shell=True, cwd=tmp + "/wt", env={**os.environ, "PYTHONPATH": tmp + "/wt/src"}, capture_output=True, text=True)
                print(f"suite on {name}: {r.stdout.strip().splitlines()[-1] if r.stdout.strip() else r.stderr[-200:]}")
            finally:
                subprocess.run(["git", "-C", repo_root(), "worktree", "remove", "--force", tmp + "/wt"])
                shutil.rmtree(tmp, ignore_errors=True)
    jobs = [(name, ov, p) for name, ov in variants.items() for p in PROPS]
    bad = 0
    with ProcessPoolExecutor(max_workers=16) as ex:
        for name, prop, v, detail in ex.map(job, jobs):
            if v != "holds":
                bad += 1
                print(f"  {name} {prop} {v}")
                for d in detail[:3]:
                    print(f"      {d}")
    print(f"{len(variants)} mechanical twins x {len(PROPS)} properties: {bad} non-holding verdicts")
    return 1 if bad else 0

if __name__ == "__main__":
    sys.exit(main())
