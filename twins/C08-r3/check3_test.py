"""
Behaviour check for refactoring 3 (``_concurrent.py``: private attributes of
``TaskHandle`` renamed, ``task_status`` detection rewritten as a mapping lookup, and the
resource snapshot in ``Context.__init__`` rewritten).

Exercises the part of the property that lives in the task runner: the service task
runs in its own child context with a snapshot of the resources, is fully finished
(including its context) before earlier teardown callbacks run, is not running after
the ``async with`` block, and its exceptions take the owning context down.
"""

from __future__ import annotations

from typing import Any

import anyio
import pytest
from anyio import fail_after, get_current_task, sleep
from anyio.abc import TaskStatus

from asphalt.core import (
    Context,
    ResourceNotFound,
    add_resource,
    add_resource_factory,
    current_context,
    get_resource_nowait,
    start_background_task_factory,
    start_service_task,
)

pytestmark = pytest.mark.anyio()


async def test_task_context_is_snapshot_child_and_finishes_first() -> None:
    log: list[str] = []
    proceed = anyio.Event()
    seen: dict[str, Any] = {}

    async def service() -> None:
        ctx = current_context()
        seen["ctx"] = ctx
        seen["task name"] = get_current_task().name
        ctx.add_teardown_callback(lambda: log.append("task ctx torn down"))
        seen["early"] = get_resource_nowait(str, "early")
        seen["generated"] = get_resource_nowait(int, optional=True)
        await proceed.wait()
        seen["late"] = get_resource_nowait(str, "late", optional=True)
        try:
            await anyio.sleep_forever()
        finally:
            with anyio.CancelScope(shield=True):
                await sleep(0.03)

            # The resource the task depends on must still be there
            log.append(f"task cleanup sees {get_resource_nowait(str, 'early')}")

    with fail_after(3):
        async with Context() as owner:
            add_resource(
                "early value", "early", teardown_callback=lambda: log.append("early gone")
            )
            add_resource_factory(lambda: 7, types=[int])
            assert get_resource_nowait(int) == 7  # generated in the owner only
            await start_service_task(service, "snapshot")
            add_resource(
                "late value", "late", teardown_callback=lambda: log.append("late gone")
            )
            proceed.set()
            await sleep(0.02)

        log.append("left block")

    assert seen["task name"] == "Service task: snapshot"
    assert seen["ctx"] is not owner
    assert seen["ctx"].parent is owner
    assert seen["ctx"].closed
    assert seen["early"] == "early value"
    assert seen["late"] is None
    # Generated resources are not inherited, but the factory is: the task's context
    # generated its own value
    assert seen["generated"] == 7
    assert log == [
        "late gone",
        "task cleanup sees early value",
        "task ctx torn down",
        "early gone",
        "left block",
    ]


@pytest.mark.parametrize(
    "flavour", ["keyword_only", "positional_or_keyword", "absent", "var_keyword"]
)
async def test_task_status_detection(flavour: str) -> None:
    log: list[str] = []
    release = anyio.Event()

    async def keyword_only(*, task_status: TaskStatus[str]) -> None:
        await release.wait()
        task_status.started("kw value")
        await anyio.sleep_forever()

    async def positional_or_keyword(
        task_status: TaskStatus[str] = anyio.TASK_STATUS_IGNORED,
    ) -> None:
        await release.wait()
        task_status.started("pos value")
        await anyio.sleep_forever()

    async def absent() -> None:
        log.append("absent started")
        await anyio.sleep_forever()

    async def var_keyword(**kwargs: Any) -> None:
        log.append(f"kwargs {sorted(kwargs)}")
        await anyio.sleep_forever()

    func = locals()[flavour]
    expected = {
        "keyword_only": "kw value",
        "positional_or_keyword": "pos value",
        "absent": None,
        "var_keyword": None,
    }[flavour]

    async def releaser() -> None:
        await sleep(0.03)
        log.append("released")
        release.set()

    with fail_after(3):
        async with Context(), anyio.create_task_group() as tg:
            tg.start_soon(releaser)
            retval = await start_service_task(func, flavour)
            log.append("start returned")
            assert retval == expected
            await sleep(0.05)

    if flavour in ("keyword_only", "positional_or_keyword"):
        # start_service_task() only returned after task_status.started() was called
        assert log == ["released", "start returned"]
    elif flavour == "absent":
        assert log == ["absent started", "start returned", "released"]
    else:
        assert log == ["kwargs []", "start returned", "released"]


async def test_positional_only_task_status_is_not_passed() -> None:
    async def service(task_status: Any = "default", /) -> None:
        seen.append(task_status)

    seen: list[Any] = []
    async with Context():
        assert await start_service_task(service, "posonly") is None
        await sleep(0.02)

    assert seen == ["default"]


async def test_crash_takes_owner_down_and_other_tasks_are_stopped() -> None:
    log: list[str] = []
    crash = anyio.Event()

    async def crasher() -> None:
        await crash.wait()
        raise LookupError("crasher failed")

    async def survivor() -> None:
        try:
            await anyio.sleep_forever()
        finally:
            log.append("survivor stopped")

    with fail_after(3):
        with pytest.raises(LookupError, match="^crasher failed$"):
            async with Context() as ctx:
                ctx.add_teardown_callback(lambda: log.append("early cb"))
                await start_service_task(survivor, "survivor")
                await start_service_task(crasher, "crasher", teardown_action=None)
                crash.set()
                try:
                    await anyio.sleep_forever()
                finally:
                    log.append("body cancelled")

        log.append("after block")

    # The host task group cancels the body and the other service task at the same time,
    # so their relative order is up to the scheduler; both precede the early callback
    assert sorted(log[:2]) == ["body cancelled", "survivor stopped"]
    assert log[2:] == ["early cb", "after block"]


async def test_crash_in_nested_context_owner() -> None:
    """A nested context's service task runs in the root's task group."""
    log: list[str] = []

    async def crasher() -> None:
        await sleep(0.02)
        raise LookupError("nested crasher failed")

    with fail_after(3):
        with pytest.raises(LookupError, match="^nested crasher failed$"):
            async with Context():
                async with Context() as inner:
                    inner.add_teardown_callback(lambda: log.append("inner early cb"))
                    await start_service_task(crasher, "crasher")
                    await anyio.sleep_forever()

    assert log == ["inner early cb"]


async def test_background_task_factory_waits_for_its_tasks() -> None:
    log: list[str] = []

    async def adhoc() -> None:
        assert get_resource_nowait(str) == "dep"
        await sleep(0.05)
        assert get_resource_nowait(str) == "dep"
        with pytest.raises(ResourceNotFound):
            get_resource_nowait(str, "late")

        log.append("adhoc done")

    with fail_after(3):
        async with Context():
            add_resource("dep", teardown_callback=lambda: log.append("dep gone"))
            factory = await start_background_task_factory()
            add_resource("late", "late")
            handle = await factory.start_task(adhoc, "adhoc")
            assert factory.all_task_handles() == {handle}
            assert repr(handle) == "TaskHandle(name='adhoc')"

        log.append("left block")

    assert factory.all_task_handles() == set()
    assert log == ["adhoc done", "dep gone", "left block"]


async def test_not_running_after_block_with_many_tasks() -> None:
    running: set[int] = set()
    order: list[str] = []

    def make(i: int) -> Any:
        async def service() -> None:
            running.add(i)
            try:
                await anyio.sleep_forever()
            finally:
                with anyio.CancelScope(shield=True):
                    await sleep(0.01 * (5 - i))

                running.discard(i)
                order.append(f"task {i}")

        return service

    with fail_after(5):
        async with Context() as ctx:
            for i in range(5):
                ctx.add_teardown_callback(
                    lambda i=i: order.append(f"cb {i} running={sorted(running)}")
                )
                await start_service_task(make(i), f"svc{i}")

            assert running == {0, 1, 2, 3, 4}

        assert running == set()

    assert order == [
        "task 4",
        "cb 4 running=[0, 1, 2, 3]",
        "task 3",
        "cb 3 running=[0, 1, 2]",
        "task 2",
        "cb 2 running=[0, 1]",
        "task 1",
        "cb 1 running=[0]",
        "task 0",
        "cb 0 running=[]",
    ]
