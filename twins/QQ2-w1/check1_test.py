"""Behaviour checks for refactoring 1 (TaskFactory handle creation, factory start)."""

from __future__ import annotations

import logging
import re
import sys

import anyio
import pytest
from anyio import Event, fail_after, get_current_task
from anyio.abc import TaskStatus
from pytest import LogCaptureFixture

from asphalt.core import (
    Context,
    TaskFactory,
    TaskHandle,
    add_resource,
    get_resource_nowait,
    start_background_task_factory,
)

if sys.version_info < (3, 11):
    from exceptiongroup import BaseExceptionGroup, ExceptionGroup

pytestmark = pytest.mark.anyio()


@pytest.fixture
def anyio_backend() -> str:
    return "asyncio"


class CallableObject:
    async def __call__(self) -> None:
        pass


async def test_default_names_and_tracking() -> None:
    release = Event()
    seen: list[str | None] = []

    async def taskfunc() -> None:
        seen.append(get_current_task().name)
        await release.wait()

    async with Context():
        factory = await start_background_task_factory()
        assert isinstance(factory, TaskFactory)
        h1 = await factory.start_task(taskfunc)
        h2 = factory.start_task_soon(taskfunc)
        h3 = await factory.start_task(taskfunc, "explicit")
        h4 = factory.start_task_soon(taskfunc, "")
        # handles are tracked from the moment of the call, even for start_task_soon
        assert factory.all_task_handles() == {h1, h2, h3, h4}
        assert all(isinstance(h, TaskHandle) for h in (h1, h2, h3, h4))
        qualname = f"{__name__}.test_default_names_and_tracking.<locals>.taskfunc"
        assert h1.name == qualname
        assert h2.name == qualname
        assert h3.name == "explicit"
        assert h4.name == qualname  # empty name falls back on the callable name
        assert h1.start_value is None
        assert not hasattr(h2, "start_value")
        await anyio.wait_all_tasks_blocked()
        assert sorted(seen, key=str) == sorted(
            [qualname, qualname, "explicit", qualname], key=str
        )
        # The returned set is a copy
        factory.all_task_handles().clear()
        assert len(factory.all_task_handles()) == 4
        release.set()
        for handle in (h1, h2, h3, h4):
            await handle.wait_finished()

        assert factory.all_task_handles() == set()


async def test_callable_object_name() -> None:
    async with Context():
        factory = await start_background_task_factory()
        handle = await factory.start_task(CallableObject())
        assert handle.name == f"{__name__}.CallableObject"
        await handle.wait_finished()


async def test_bad_callable(caplog: LogCaptureFixture) -> None:
    """A non-callable is named after its type and crashes the task group."""
    caplog.set_level(logging.DEBUG, "asphalt.core")
    handles: list[TaskHandle] = []
    factory = None
    with pytest.raises(BaseException) as excinfo:
        async with Context():
            factory = await start_background_task_factory()
            handles.append(factory.start_task_soon(42))  # type: ignore[arg-type]
            assert factory.all_task_handles() == set(handles)
            await anyio.sleep(1)

    leaf = excinfo.value
    while isinstance(leaf, BaseExceptionGroup):
        assert len(leaf.exceptions) == 1
        leaf = leaf.exceptions[0]
    assert isinstance(leaf, TypeError)
    assert str(leaf) == "42 is not a callable object"
    assert handles[0].name == "int"
    assert factory is not None and factory.all_task_handles() == set()
    # the signature check happens before the "starting" message and outside of the
    # crash handling
    assert "Background task (int) starting" not in caplog.messages
    assert "Background task (int) crashed" not in caplog.messages


async def test_factory_service_name_and_teardown(caplog: LogCaptureFixture) -> None:
    caplog.set_level(logging.DEBUG, "asphalt.core")
    finished = False

    async def taskfunc() -> None:
        nonlocal finished
        await anyio.sleep(0.05)
        finished = True

    async with Context():
        factory = await start_background_task_factory()
        factory.start_task_soon(taskfunc, "slow")

    # teardown waited for the task
    assert finished
    svc = f"Background task factory ({id(factory):x})"
    messages = caplog.messages
    assert messages[0] == f"Background task (Service task: {svc}) starting"
    assert "Background task (slow) starting" in messages
    pattern = re.compile(
        r"Calling teardown callback \((.+)\) for service task "
        + re.escape(repr(svc))
    )
    matches = [m for m in map(pattern.fullmatch, messages) if m]
    assert len(matches) == 1
    assert matches[0].group(1).endswith("Event.set")
    idx = messages.index
    assert (
        idx(matches[0].group(0))
        < idx(f"Waiting for service task {svc!r} to finish")
        < idx("Background task (slow) finished successfully")
        < idx(f"Background task (Service task: {svc}) finished successfully")
        < idx(f"Service task {svc!r} finished")
    )


async def test_exception_handler_and_crash(caplog: LogCaptureFixture) -> None:
    handled: list[Exception] = []

    def handler(exc: Exception) -> bool:
        handled.append(exc)
        return isinstance(exc, KeyError)

    async def bad_key() -> None:
        raise KeyError("x")

    async def bad_value(task_status: TaskStatus[str]) -> None:
        task_status.started("up")
        raise ValueError("boom")

    with pytest.raises(ExceptionGroup) as excinfo:
        async with Context():
            factory = await start_background_task_factory(exception_handler=handler)
            assert factory.exception_handler is handler
            h1 = factory.start_task_soon(bad_key, "k")
            await h1.wait_finished()
            assert factory.all_task_handles() == set()
            h2 = await factory.start_task(bad_value, "v")
            assert h2.start_value == "up"
            await h2.wait_finished()

    assert [type(e) for e in handled] == [KeyError, ValueError]
    leaf = excinfo.value
    while isinstance(leaf, ExceptionGroup):
        assert len(leaf.exceptions) == 1
        leaf = leaf.exceptions[0]
    assert isinstance(leaf, ValueError) and str(leaf) == "boom"
    crashed = [m for m in caplog.messages if "crashed" in m]
    assert crashed[:2] == [
        "Background task (k) crashed",
        "Background task (v) crashed",
    ]


async def test_task_context_inherits_from_factory_context() -> None:
    got: list[str] = []

    async def taskfunc() -> None:
        got.append(get_resource_nowait(str))
        got.append(str(get_resource_nowait(str, "inner", optional=True)))
        add_resource(5)  # goes to the task's own context

    async with Context():
        add_resource("outer")
        factory = await start_background_task_factory()
        async with Context():
            add_resource("inner", "inner")
            handle = await factory.start_task(taskfunc)
            await handle.wait_finished()

        assert get_resource_nowait(int, optional=True) is None

    assert got == ["outer", "None"]


async def test_cancel_handle() -> None:
    started = Event()

    async def taskfunc() -> None:
        started.set()
        await anyio.sleep_forever()

    with fail_after(2):
        async with Context():
            factory = await start_background_task_factory()
            handle = factory.start_task_soon(taskfunc)
            await started.wait()
            handle.cancel()
            await handle.wait_finished()
            assert factory.all_task_handles() == set()
