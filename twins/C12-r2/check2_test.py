"""
Behaviour check for refactoring 2 (restructuring of the parent resolution in
Context.__init__ into a local variable + early return for root contexts).

Exercises which context a newly created Context takes as its parent (and what it
inherits from it) in plain code, in spawned tasks and inside components.
Only the public API is used.
"""

from __future__ import annotations

from typing import Any

import anyio
import pytest
from anyio import create_task_group
from anyio.lowlevel import checkpoint

from asphalt.core import (
    Component,
    Context,
    NoCurrentContext,
    add_resource,
    current_context,
    get_resource_nowait,
    start_component,
)

pytestmark = pytest.mark.anyio


@pytest.fixture(params=["asyncio", "trio"])
def anyio_backend(request: Any) -> str:
    return request.param


def assert_no_current() -> None:
    with pytest.raises(NoCurrentContext):
        current_context()


async def test_root_context_has_no_parent_and_inherits_nothing() -> None:
    assert_no_current()
    ctx = Context()
    assert ctx.parent is None
    assert not ctx.closed
    # Creating a context does not make it current
    assert_no_current()
    async with ctx:
        assert current_context() is ctx
        assert ctx.get_resources(str) == {}
        assert ctx.get_resource_nowait(int, optional=True) is None
        # A root context gets its own task group, so it can run tasks
        done = anyio.Event()

        async def service() -> None:
            done.set()

        await ctx.start_service_task(service, "service")
        await done.wait()

    assert_no_current()


async def test_implicit_parent_is_context_current_at_creation() -> None:
    async with Context() as root:
        root.add_resource("root-value", "inherited")
        root.add_resource_factory(lambda: 42, types=[int])
        assert root.get_resource_nowait(int) == 42  # generated resource in root

        created_in_root = Context()
        async with Context() as mid:
            mid.add_resource("mid-value", "mid_only")
            created_in_mid = Context()
            assert created_in_mid.parent is mid
            assert created_in_root.parent is root

            # Entering a context created elsewhere doesn't change its parent, but does
            # make it current
            async with created_in_root:
                assert current_context() is created_in_root
                assert created_in_root.parent is root
                assert Context().parent is created_in_root
                assert get_resource_nowait(str, "inherited") == "root-value"
                assert get_resource_nowait(str, "mid_only", optional=True) is None

            assert current_context() is mid
            async with created_in_mid:
                assert get_resource_nowait(str, "mid_only") == "mid-value"
                assert get_resource_nowait(str, "inherited") == "root-value"
                # Resource factories are inherited, generated resources are not shared
                assert get_resource_nowait(int) == 42

            assert current_context() is mid

        assert current_context() is root

    assert_no_current()


async def test_resources_are_snapshotted_at_creation() -> None:
    async with Context() as root:
        root.add_resource("early", "early")
        child = Context()
        root.add_resource("late", "late")
        async with child:
            assert child.get_resource_nowait(str, "early") == "early"
            assert child.get_resources(str)["early"] == "early"
            child.add_resource(1.5, "child_only")

        assert root.get_resource_nowait(float, "child_only", optional=True) is None


async def test_explicit_parent_overrides_current() -> None:
    async with Context() as first:
        first.add_resource("first", "origin")
        async with Context() as second:
            second.add_resource("second", "origin2")
            explicit = Context(first)
            assert explicit.parent is first
            assert current_context() is second
            async with explicit:
                assert current_context() is explicit
                assert get_resource_nowait(str, "origin") == "first"
                assert get_resource_nowait(str, "origin2", optional=True) is None
                assert Context().parent is explicit
                assert Context(parent=second).parent is second

            assert current_context() is second

    # An explicit parent also works without any current context
    assert_no_current()
    async with Context() as lone:
        pass

    with pytest.raises(AttributeError):
        # A never-entered root context has no task group to share
        Context(Context())

    assert Context(None).parent is None
    assert lone.closed
    assert_no_current()


async def test_spawned_task_inherits_context_of_spawn_point() -> None:
    parents: dict[str, Context | None] = {}

    async def worker(label: str) -> None:
        await checkpoint()
        ctx = Context()
        parents[label] = ctx.parent
        async with ctx:
            await checkpoint()
            assert current_context() is ctx
            assert Context().parent is ctx

        assert current_context() is parents[label]

    async def rootless_worker() -> None:
        assert_no_current()
        ctx = Context()
        parents["rootless"] = ctx.parent
        async with ctx:
            assert current_context() is ctx

        assert_no_current()

    async with create_task_group() as outer_tg:
        outer_tg.start_soon(rootless_worker)
        async with Context() as root:
            async with create_task_group() as tg:
                tg.start_soon(worker, "from-root")
                async with Context() as nested:
                    tg.start_soon(worker, "from-nested")
                    await checkpoint()

                assert current_context() is root
                tg.start_soon(worker, "from-root-again")

    assert parents == {
        "rootless": None,
        "from-root": root,
        "from-nested": nested,
        "from-root-again": root,
    }
    assert_no_current()


class Recorder:
    def __init__(self) -> None:
        self.current: dict[str, Context] = {}
        self.new_parent: dict[str, Context | None] = {}
        self.explicit_parent: dict[str, Context | None] = {}
        self.task_parent: dict[str, Context | None] = {}


class LeafComponent(Component):
    def __init__(self, recorder: Recorder, label: str) -> None:
        self.recorder = recorder
        self.label = label

    async def _record(self, phase: str) -> None:
        key = f"{self.label}.{phase}"
        ctx = current_context()
        self.recorder.current[key] = ctx
        self.recorder.new_parent[key] = Context().parent
        # Passing the component's own context explicitly resolves to the same parent
        self.recorder.explicit_parent[key] = Context(ctx).parent

        async def in_task() -> None:
            await checkpoint()
            self.recorder.task_parent[key] = Context().parent

        async with create_task_group() as tg:
            tg.start_soon(in_task)

        async with Context() as nested:
            assert current_context() is nested
            assert nested.parent is self.recorder.new_parent[key]

        assert current_context() is ctx

    async def prepare(self) -> None:
        await self._record("prepare")

    async def start(self) -> None:
        await self._record("start")
        add_resource(f"resource of {self.label}", self.label)


class ParentComponent(LeafComponent):
    def __init__(self, recorder: Recorder, label: str) -> None:
        super().__init__(recorder, label)
        self.add_component(
            "child1", LeafComponent, recorder=recorder, label=f"{label}_child1"
        )
        self.add_component(
            "child2", LeafComponent, recorder=recorder, label=f"{label}_child2"
        )


async def test_contexts_created_inside_components() -> None:
    recorder = Recorder()
    async with Context() as root:
        async with Context() as host:
            await start_component(
                ParentComponent, {"recorder": recorder, "label": "top"}
            )
            assert current_context() is host
            expected_keys = {
                f"{label}.{phase}"
                for label in ("top", "top_child1", "top_child2")
                for phase in ("prepare", "start")
            }
            assert set(recorder.current) == expected_keys
            # Within prepare()/start() the current context is a component specific one
            # whose parent is the context start_component() was called in...
            for key, ctx in recorder.current.items():
                assert ctx is not host, key
                assert ctx.parent is host, key
                assert ctx.closed, key

            # ...and new contexts skip it and are parented directly to the host context
            assert set(recorder.new_parent.values()) == {host}
            assert set(recorder.explicit_parent.values()) == {host}
            assert set(recorder.task_parent.values()) == {host}
            assert set(recorder.new_parent) == expected_keys
            assert set(recorder.task_parent) == expected_keys

            # prepare() and start() of one component share the same context
            assert recorder.current["top.prepare"] is recorder.current["top.start"]
            assert (
                recorder.current["top_child1.start"]
                is not recorder.current["top_child2.start"]
            )

            # Resources added from start() end up in the host context
            assert host.get_resource_nowait(str, "top") == "resource of top"
            assert get_resource_nowait(str, "top_child1") == "resource of top_child1"
            assert root.get_resource_nowait(str, "top", optional=True) is None

        assert current_context() is root

    assert_no_current()


async def test_start_component_requires_context() -> None:
    recorder = Recorder()
    with pytest.raises(RuntimeError, match="requires an active Asphalt context"):
        await start_component(LeafComponent, {"recorder": recorder, "label": "x"})

    assert recorder.current == {}
    assert_no_current()
