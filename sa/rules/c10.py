"""C10 - events reach exactly the active subscribers, exactly once, in dispatch order."""
from __future__ import annotations

import ast

from ..cfg import handler_names, iter_own
from ..loader import AnalysisError, FuncInfo, dotted, walk_own
from .c01 import exit_stack_registrations
from .c11 import SignalAnchors
from .common import call_name, names_in, self_attr
from .discharge import controlling_tests


def run(ctx, skip_includes: bool = False) -> None:
    rep = ctx.rep
    a = ctx.a
    sa = SignalAnchors(a)
    D = sa.method("dispatch")
    dcfg = a.cfg(D)
    ev = D.params[1]
    streams = sa.streams_attr
    mod = sa.Signal.module
    stream_events = mod.functions.get("stream_events")
    wait_event = mod.functions.get("wait_event")
    if stream_events is None or wait_event is None:
        raise AnalysisError("anchor-missing module-level stream_events / wait_event")

    # ------------------------------------------------------------------ R1 dispatch loop
    from ..dataflow import ReachingDefs

    drd = ReachingDefs(a, D)
    loop_iter = {}
    for n in walk_own(D.node):
        if isinstance(n, ast.For):
            itn = [x for x in dcfg.live_nodes() if x.kind == "for_iter" and x.ast is n.iter]
            loop_iter[id(n)] = drd.def_expr(itn[0].id, n.iter) if itn else n.iter
    loops = [n for n in walk_own(D.node) if isinstance(n, ast.For) and any(isinstance(x, ast.Attribute) and x.attr == streams for x in ast.walk(loop_iter[id(n)]))]
    sends = [c for c in walk_own(D.node) if isinstance(c, ast.Call) and call_name(c) in ("send_nowait", "send")]
    if not loops:
        rep.violate("C10.R1", D, D.node, "dispatch does not iterate over the subscriber list")
    elif not sends:
        rep.violate("C10.R1", D, loops[0], "dispatch never delivers the event")
    else:
        lp = loops[0]
        head = [n for n in dcfg.live_nodes() if n.kind == "for_next" and n.ast is lp][0]
        inloop = [s for s in sends if any(x is s for x in ast.walk(lp))]
        rep.check("C10.R1", len(sends) == 1 and len(inloop) == 1, D, sends[0], "exactly one delivery per subscriber per dispatch", f"{len(sends)} send sites ({len(inloop)} in the loop): a subscriber can get the event twice or not at all")
        snd = inloop[0] if inloop else sends[0]
        lv = lp.target.id if isinstance(lp.target, ast.Name) else None
        rep.check("C10.R1", isinstance(snd.func, ast.Attribute) and isinstance(snd.func.value, ast.Name) and snd.func.value.id == lv and len(snd.args) == 1 and isinstance(snd.args[0], ast.Name) and snd.args[0].id == ev, D, snd, "each subscriber's own stream receives the dispatched event object", "the delivery does not send the dispatched event to the iterated subscriber")
        hs = a.covering_handlers(D, snd)
        inner_tries = [t for t in walk_own(lp) if isinstance(t, ast.Try) and any(x is snd for b in t.body for x in ast.walk(b))]
        hs_in_loop = [h for t in inner_tries for h in t.handlers]
        for exc in ("BrokenResourceError", "WouldBlock"):
            catching = [h for h in hs_in_loop if a.handler_catches(h, exc)]
            outer = [h for h in hs if h not in hs_in_loop and a.handler_catches(h, exc)]
            if catching:
                rep.hold("C10.R1", D, catching[0], f"{exc} from one subscriber is handled inside the loop")
            elif outer:
                rep.violate("C10.R1", D, outer[0], f"{exc} is handled around the whole loop, not per subscriber: the first subscriber with a {'full queue' if exc == 'WouldBlock' else 'broken stream'} stops delivery to every subscriber after it")
            else:
                rep.violate("C10.R1", D, snd, f"{exc} from a subscriber's stream is not handled: dispatch raises because of one subscriber's state")
        for h in hs_in_loop:
            hn = [n for n in dcfg.live_nodes() if n.kind == "handler" and n.ast is h]
            if not hn:
                continue

            def edge_ok(src, dst, lab):
                if lab == "e":
                    return src.kind == "stmt" and isinstance(src.ast, ast.Raise)
                return True

            r = dcfg.reach([hn[0].id], avoid=[head.id], edge_ok=edge_ok)
            after = dcfg.reach([d for d, lab in head.succ if lab == "f"], avoid=[head.id])
            leaves = (r & {dcfg.exit, dcfg.raise_exit}) | (r & after)
            rep.check("C10.R1", not leaves, D, h, "after handling one subscriber's failure the loop continues with the next subscriber", f"the `except {ast.unparse(h.type) if h.type else ''}` handler leaves the loop (break/return/raise): remaining subscribers lose the event")
        wb = [h for h in hs_in_loop if a.handler_catches(h, "WouldBlock")]
        if wb:
            warns = [c for c in ast.walk(wb[0]) if isinstance(c, ast.Call) and call_name(c) == "warn" and any("SignalQueueFull" in ast.unparse(x) for x in list(c.args) + [k.value for k in c.keywords])]
            rep.check("C10.R1", bool(warns), D, wb[0], "a full queue issues a SignalQueueFull warning", "a full queue drops the event silently (no SignalQueueFull warning)")
        bare = [h for h in hs_in_loop if h.type is None or "BaseException" in handler_names(h.type)]
        rep.check("C10.R1", not bare, D, bare[0] if bare else snd, "only stream-state exceptions are absorbed", "dispatch absorbs every exception of a send (BaseException)")
        # the loop covers the whole list
        it = loop_iter[id(lp)]
        whole = (isinstance(it, ast.Call) and call_name(it) in ("list", "tuple", "copy") and (self_attr(it.args[0]) == streams if it.args else self_attr(it.func.value) == streams)) or self_attr(it) == streams or (isinstance(it, ast.Subscript) and self_attr(it.value) == streams and isinstance(it.slice, ast.Slice) and it.slice.lower is None and it.slice.upper is None and it.slice.step is None)
        rep.check("C10.R1", bool(whole), D, lp, "the loop covers every current subscriber", f"the loop iterates `{ast.unparse(it)}`: not every subscriber is served")
        brk = [n for n in ast.walk(lp) if isinstance(n, (ast.Break, ast.Return))]  # `continue` is fine
        rep.check("C10.R1", not brk, D, brk[0] if brk else lp, "no early exit from the delivery loop", "the delivery loop can end early")
    rep.floor("C10.R1", len(loops) + len(sends), 2)

    # ------------------------------------------------------------------ R2 stamping
    stamps = {}
    for n in dcfg.live_nodes():
        if n.kind == "stmt" and isinstance(n.ast, ast.Assign):
            for t in n.ast.targets:
                if isinstance(t, ast.Attribute) and isinstance(t.value, ast.Name) and t.value.id == ev:
                    stamps[t.attr] = n
    heads = [n for n in dcfg.live_nodes() if n.kind == "for_iter"]
    for fld in ("source", "topic", "time"):
        n = stamps.get(fld)
        if n is None:
            rep.violate("C10.R2", D, D.node, f"the event's `{fld}` is never stamped")
            continue
        ok_pos = not heads or dcfg.dominates(n.id, heads[0].id)
        if not ok_pos and not D.is_async and not any(a.node_checkpoints(D, dcfg, x) for x in dcfg.live_nodes()):
            # dispatch is synchronous: no subscriber can look at the event before dispatch
            # returns, so a stamp set on every path through dispatch is set "before delivery"
            ok_pos = dcfg.all_paths_pass(dcfg.entry, [dcfg.exit], [n.id], edge_ok=lambda s_, d_, lab: lab not in ("e", "h"))
        v = n.ast.value
        if fld == "source":
            ok_val = isinstance(v, ast.Call) and self_attr(v.func) == sa.instance_attr
            why = "the dereferenced weak reference of the dispatching instance"
        elif fld == "topic":
            ok_val = self_attr(v) == sa.topic_attr
            why = "the bound signal's attribute name"
        else:
            ok_val = isinstance(v, ast.Call) and "time" in ast.unparse(v.func)
            why = "the current time"
        rep.check("C10.R2", ok_pos and ok_val, D, n.ast, f"event.{fld} is stamped with {why} before delivery", f"event.{fld} is stamped with `{ast.unparse(v)}`" + ("" if ok_pos else " after delivery started"))

    # the dispatching instance / channel identity is C11's business: shared obligation
    from .common import include_rules

    if not skip_includes:
        include_rules(ctx, "c11", "C10.R2", only=("C11.R1", "C11.R2", "C11.R3", "C11.R6"))

    # ------------------------------------------------------------------ R3 non-blocking
    rep.check("C10.R3", not D.is_async, D, D.node, "dispatch is a plain function: it cannot block on a subscriber", "dispatch is a coroutine")
    blocking = [c for c in walk_own(D.node) if isinstance(c, ast.Call) and call_name(c) in ("send", "wait", "sleep", "run", "from_thread")]
    rep.check("C10.R3", not blocking, D, blocking[0] if blocking else D.node, "no blocking send in dispatch", f"dispatch calls `{ast.unparse(blocking[0].func) if blocking else ''}`")

    # ------------------------------------------------------------------ R4 subscription bracket
    from .tables import enclosing_loops

    regs = exit_stack_registrations(ctx, stream_events)
    secfg = a.cfg(stream_events)
    cms = [c for c, _ in a.func_calls(stream_events) if call_name(c) == "create_memory_object_stream"]
    send_v = recv_v = None
    for n in walk_own(stream_events.node):
        if isinstance(n, ast.Assign) and isinstance(n.value, ast.Call) and call_name(n.value) == "create_memory_object_stream" and isinstance(n.targets[0], ast.Tuple) and len(n.targets[0].elts) == 2:
            send_v, recv_v = n.targets[0].elts[0].id, n.targets[0].elts[1].id
    send_regs = [(n, c) for n, c, nm in regs if c.args and isinstance(c.args[0], ast.Name) and c.args[0].id == send_v]
    recv_regs = [(n, c) for n, c, nm in regs if c.args and isinstance(c.args[0], ast.Name) and c.args[0].id == recv_v]
    sub_point = None  # (cfg node in stream_events, ast node) where a signal gets subscribed
    sub_stream_arg = None
    if not sa.add_sites:
        rep.violate("C10.R4", stream_events, stream_events.node, "no stream is ever added to a subscriber list")
    for Sub, an_, am in sa.add_sites:
        scfg = a.cfg(Sub)
        added = am.node.args[-1] if am.node.args else None
        if a.is_cm(Sub):
            # form (a): context manager  append / try: yield / finally: remove
            sp = Sub.params[1] if len(Sub.params) > 1 else None
            rems = [(n, m) for n, m in a.func_mutations(Sub) if m.path[-1] == streams and m.kind.startswith("call:") and m.kind not in ("call:append", "call:add", "call:insert", "call:extend")]
            yields = [n for n in a.yield_nodes(Sub)]
            rep.check("C10.R4", isinstance(added, ast.Name) and added.id == sp, Sub, am.node, "the given send stream is added to the subscriber list", "something else than the given stream is subscribed")
            rep.check("C10.R4", bool(yields) and scfg.dominates(an_.id, yields[0].id), Sub, am.node, "the subscription exists when the context manager is entered", "the stream is added after the yield")
            if not rems:
                rep.violate("C10.R4", Sub, Sub.node, "the stream is never removed from the subscriber list: dispatch keeps sending to finished subscribers")
            else:
                rm = rems[0][1]
                ok = rm.kind in ("call:remove",) and rm.node.args and isinstance(rm.node.args[0], ast.Name) and rm.node.args[0].id == sp
                rep.check("C10.R4", bool(ok), Sub, rm.node, "exactly the subscribed stream is removed again (by value)", f"`{ast.unparse(rm.node)}` does not remove the stream that was added: when subscribers leave in another order than they came, a live subscriber is dropped and a closed stream stays in the list (dispatch then raises)")
                tries = [t for t in walk_own(Sub.node) if isinstance(t, ast.Try) and any(any(x is rm.node for x in ast.walk(fb)) for fb in t.finalbody)]
                cov = bool(tries) and any(isinstance(x, (ast.Yield, ast.YieldFrom)) for b in tries[0].body for x in ast.walk(b))
                rep.check("C10.R4", cov, Sub, rm.node, "the removal sits in a `finally` around the yield: every way of leaving the stream unsubscribes", "the removal is not in a finally around the yield")
            for n, c, nm in regs:
                if c.args and isinstance(c.args[0], ast.Call) and a.callee(stream_events, c.args[0]).kind == "func" and a.callee(stream_events, c.args[0]).func is Sub:
                    sub_point = (n, c)
                    inner = c.args[0]
                    sub_stream_arg = inner.args[0] if inner.args else None
                    rep.check("C10.R4", nm == "enter_context", stream_events, c, "the subscription is entered on the exit stack", f"the subscription context manager is registered with `{nm}`")
            if sub_point is None:
                rep.violate("C10.R4", stream_events, stream_events.node, "stream_events never enters the subscription context manager")
        elif Sub is stream_events:
            # forms (b)/(c): append in stream_events itself (possibly inlined from a helper) + a removal callback on the exit stack
            sub_point = (an_, am.node)
            sub_stream_arg = added
            removal = None
            for n, c, nm in regs:
                if nm != "callback" or len(c.args) < 2:
                    continue
                tgt = c.args[0]
                direct = isinstance(tgt, ast.Attribute) and tgt.attr in ("remove",) and isinstance(tgt.value, ast.Attribute) and tgt.value.attr == streams
                via_method = False
                if isinstance(tgt, ast.Attribute) and not direct:
                    t = a.r.expr_type(stream_events, tgt.value)
                    m_ = ctx.p.method(t, tgt.attr) if t is not None and not isinstance(t, str) else None
                    if m_ is not None:
                        rms = [mu for _, mu in a.func_mutations(m_) if mu.path[-1] == streams and mu.kind == "call:remove"]
                        p1 = m_.params[1] if len(m_.params) > 1 else None
                        via_method = bool(rms) and rms[0].node.args and isinstance(rms[0].node.args[0], ast.Name) and rms[0].node.args[0].id == p1
                if direct or via_method:
                    removal = (n, c)
            if removal is None:
                rep.violate("C10.R4", stream_events, am.node, "the stream is added to the subscriber list but its removal (by value) is not registered on the exit stack: finished subscribers stay subscribed / the wrong one is removed")
            else:
                rn, rc = removal
                rep.check("C10.R4", added is not None and ast.unparse(rc.args[1]) == ast.unparse(added), stream_events, rc, "exactly the subscribed stream is removed again (by value)", "the registered removal does not remove the stream that was added")
                rep.check("C10.R4", ast.unparse(rc.args[0].value.value if isinstance(rc.args[0].value, ast.Attribute) else rc.args[0].value) == ast.unparse(am.node.func.value.value), stream_events, rc, "it is removed from the same signal it was added to", "the removal targets another signal's list")
                heads = [x.id for x in secfg.live_nodes() if x.kind == "for_next"]
                btw = secfg.between([an_.id], [rn.id], avoid=heads) - {an_.id, rn.id}
                raising = [i for i in btw if a.node_may_raise(stream_events, secfg, secfg.nodes[i])]
                rep.check("C10.R4", secfg.dominates(an_.id, rn.id) and not raising, stream_events, rc, "the removal is registered right after the stream was added (nothing can fail in between)", "something can fail between adding the stream and registering its removal: the subscription would leak")
        elif any(isinstance(r_, ast.Return) and r_.value is not None for r_ in walk_own(Sub.node)):
            # form (d): the helper subscribes and RETURNS the callable that unsubscribes; the
            # caller has to register it before anything else can fail - in particular before
            # the next signal is subscribed (which raises for an unbound signal)
            ret = [r_ for r_ in walk_own(Sub.node) if isinstance(r_, ast.Return) and r_.value is not None][0].value
            undo_ok = any(isinstance(x, ast.Attribute) and x.attr == "remove" and isinstance(x.value, ast.Attribute) and x.value.attr == streams for x in ast.walk(ret))
            if not undo_ok and isinstance(ret, ast.Name) and ret.id in Sub.nested:
                undo_ok = any(mu.kind == "call:remove" and mu.path[-1] == streams for _n, mu in a.func_mutations(Sub.nested[ret.id]))
            rep.check("C10.R4", undo_ok, Sub, ret, "the subscribing helper returns a callable that removes exactly this stream", "what the subscribing helper returns does not remove the stream from the subscriber list")
            sub_calls = [(n, c) for n in secfg.live_nodes() for c, cal in a.node_calls(stream_events, secfg, n) if cal.kind == "func" and cal.func is Sub]
            if not sub_calls:
                rep.violate("C10.R4", stream_events, stream_events.node, "stream_events never subscribes through the helper")
            for n, c in sub_calls:
                sub_point = (n, c)
                sub_stream_arg = c.args[0] if c.args else None
                in_comp = any(isinstance(x, (ast.ListComp, ast.GeneratorExp, ast.SetComp, ast.DictComp)) and any(y is c for y in ast.walk(x)) for x in walk_own(stream_events.node))
                # registered in the same statement, or in the next one(s) of the same loop
                # iteration with nothing in between that may raise
                same_stmt = any(nm == "callback" and any(y is c for y in ast.walk(rc_)) for _rn, rc_, nm in regs)
                later = False
                if not same_stmt and not in_comp and n.kind == "stmt" and isinstance(n.ast, ast.Assign) and isinstance(n.ast.targets[0], ast.Name):
                    v_ = n.ast.targets[0].id
                    for rn_, rc_, nm in regs:
                        if nm == "callback" and rc_.args and isinstance(rc_.args[0], ast.Name) and rc_.args[0].id == v_:
                            heads = [x.id for x in secfg.live_nodes() if x.kind == "for_next"]
                            btw = secfg.between([n.id], [rn_.id], avoid=heads) - {n.id, rn_.id}
                            later = secfg.dominates(n.id, rn_.id) and rn_.id in secfg.reach([n.id], avoid=heads) and not any(a.node_may_raise(stream_events, secfg, secfg.nodes[i]) for i in btw)
                rep.check("C10.R4", (same_stmt or later) and not in_comp, stream_events, c, "every subscription's removal is registered on the exit stack before the next signal is subscribed", "all signals are subscribed first and the removals registered afterwards (or not at all): if a later signal is unbound (UnboundSignal) the earlier subscriptions are never undone, the send stream is closed by the exit stack and every later dispatch on those signals raises ClosedResourceError")
        else:
            rep.unrecognised("C10.R4", Sub, am.node, "a stream is added to a subscriber list in an unexpected function")
    if sub_point is not None:
        sn, sc = sub_point
        for what, rr in (("send", send_regs), ("receive", recv_regs)):
            if not rr:
                # never closed by the exit stack: a leak, but no dispatch can then meet a closed
                # stream either - the statement is about delivery, not about resource hygiene
                rep.note(f"C10.R4: the {what} stream is not entered on the exit stack (it is never closed there; not required by the statement)")
                continue
            ok = secfg.dominates(rr[0][0].id, sn.id) and rr[0][0].id not in secfg.reach([sn.id], include_start=False)
            if not ok and what == "receive":
                # a closed RECEIVE end makes send_nowait raise BrokenResourceError, which dispatch
                # swallows (C10.R1): closing it before the unsubscription is harmless then
                dsp_ = sa.method("dispatch")
                sends_ = [c for c, _ in a.func_calls(dsp_) if call_name(c) in ("send_nowait", "send")]
                ok = bool(sends_) and all(any(a.handler_catches(h, "BrokenResourceError") for h in a.covering_handlers(dsp_, c)) for c in sends_)
            rep.check("C10.R4", ok, stream_events, rr[0][1], f"the {what} stream is entered before the subscriptions, so it is closed only after they were removed (no dispatch ever sees a closed stream)", f"the {what} stream is closed before the subscriptions are removed: a dispatch in between hits a closed stream")
        loops2 = enclosing_loops(stream_events, sc)
        sig_param = stream_events.params[0]
        ok = bool(loops2) and isinstance(loops2[-1][0], ast.Name) and loops2[-1][0].id == sig_param
        rep.check("C10.R4", ok, stream_events, sc, "every signal of the `signals` argument is subscribed", "not every given signal is subscribed")
        rep.check("C10.R4", isinstance(sub_stream_arg, ast.Name) and sub_stream_arg.id == send_v, stream_events, sc, "all signals feed the same send stream", "the subscription does not use this stream's send end")
    rep.floor("C10.R4", len(regs), 3)
    # nobody else ends a subscription: the streams in a subscriber list are neither closed nor
    # removed anywhere but in the subscription's own exit (a "release all listeners" helper makes
    # later dispatches vanish for listeners that never left)
    foreign = []
    for g in ctx.p.all_functions():
        if g.is_lambda:
            continue
        subs = {S_ for S_, _n, _m in sa.add_sites}
        for n_, m_ in a.func_mutations(g):
            if len(m_.path) >= 2 and m_.path[-1] == streams and m_.kind != "rebind" and g not in subs and g is not sa.get:
                # removing ONE stream that the caller names (an unsubscribe helper) is the
                # subscription's own exit; anything wholesale is not
                one = m_.kind == "call:remove" and isinstance(m_.node, ast.Call) and len(m_.node.args) == 1 and isinstance(m_.node.args[0], ast.Name) and m_.node.args[0].id in g.params and not enclosing_loops(g, m_.node)
                if not one:
                    foreign.append((g, m_.node, f"`{m_.kind.replace('call:', '.')}` on the subscriber list"))
        for lp in walk_own(g.node):
            if isinstance(lp, (ast.For, ast.AsyncFor)) and isinstance(lp.target, ast.Name) and any(isinstance(x, ast.Attribute) and x.attr == streams for x in ast.walk(lp.iter)):
                for c_ in ast.walk(lp):
                    if isinstance(c_, ast.Call) and isinstance(c_.func, ast.Attribute) and c_.func.attr in ("close", "aclose") and isinstance(c_.func.value, ast.Name) and c_.func.value.id == lp.target.id:
                        foreign.append((g, c_, f"`{ast.unparse(c_)}` on every subscriber's stream"))
    for g, node_, what_ in foreign:
        rep.violate("C10.R4", g, node_, f"{what_} outside the subscription's own exit: listeners that have not left their stream stop receiving events that are dispatched afterwards")
    if not foreign:
        rep.hold("C10.R4", stream_events, None, "subscriber streams are closed / removed only by the exit of their own subscription", nontrivial=False)  # send, receive, subscription (an eager close of the filtered generator is optional)

    # ------------------------------------------------------------------ R5 filter on every yielded event
    fparam = stream_events.params[1] if len(stream_events.params) > 1 else "filter"
    gens = [g for g in stream_events.nested.values() if g.is_generator]
    gen_call = None
    for c, cal in a.func_calls(stream_events):
        if cal.kind == "func" and cal.func.is_generator and cal.func.is_async and not a.is_acm(cal.func):
            gen_call = (c, cal.func)
            if cal.func not in gens:
                gens = [cal.func]
    if not gens:
        rep.violate("C10.R5", stream_events, stream_events.node, "no filtering generator: the filter is never applied")
    else:
        G = gens[0]
        gcfg = a.cfg(G)
        ys = a.yield_nodes(G)
        afor = [n for n in walk_own(G.node) if isinstance(n, ast.AsyncFor)]
        # a hoisted (module-level) generator receives the receive stream and the filter as arguments
        g_recv, g_filter = recv_v, fparam
        if G.parent is None and gen_call is not None:
            from .discharge import arg_mapping

            mp = arg_mapping(G, gen_call[0], has_receiver=False) or {}
            for k, v in mp.items():
                if isinstance(v, ast.Name) and v.id == recv_v:
                    g_recv = k
                if isinstance(v, ast.Name) and v.id == fparam:
                    g_filter = k
        fparam_outer, fparam = fparam, g_filter
        rep.check("C10.R5", bool(afor) and isinstance(afor[0].iter, ast.Name) and afor[0].iter.id == g_recv, G, afor[0] if afor else G.node, "the generator consumes this stream's receive end", "the generator does not read the receive stream")
        for y in ys:
            from ..dataflow import ReachingDefs as _RD
            from ..facts import Facts as _Facts

            gfacts = _Facts(a, G, _RD(a, G))
            lvn = afor[0].target.id if afor and isinstance(afor[0].target, ast.Name) else "event"
            cond = ast.parse(f"{fparam} is None or {fparam}({lvn})", mode="eval").body
            ghead = [x.id for x in gcfg.live_nodes() if x.kind == "for_next"]
            # (i) whenever the yield is reached the condition holds; (ii) whenever an iteration
            # ends without yielding the condition is false
            ok = gfacts.implied(y.id, cond, True, within=ghead or None)
            if ok and ghead:
                skip_ok = not gfacts.possible(ghead[0], cond, True, within=ghead, avoid=[y.id]) if ghead[0] in gcfg.reach([d for d, lab in gcfg.nodes[ghead[0]].succ if lab == "t"], avoid=[y.id]) else True
                ok = ok and skip_ok
            yv = [x for x in iter_own(gcfg.own_ast(y)) if isinstance(x, ast.Yield)]
            lv = afor[0].target.id if afor and isinstance(afor[0].target, ast.Name) else None
            val_ok = bool(yv) and isinstance(yv[0].value, ast.Name) and yv[0].value.id == lv
            rep.check("C10.R5", ok and val_ok, G, y.ast, "an event is yielded iff `filter is None or filter(event)`", "an event can be yielded without passing the filter (or a passing one is withheld / altered)")
        # what the context manager hands out is that generator
        outer_y = a.yield_nodes(stream_events)
        gen_var = None
        for n in walk_own(stream_events.node):
            if isinstance(n, ast.Assign) and isinstance(n.value, ast.Call) and isinstance(n.value.func, ast.Name) and n.value.func.id == G.name:
                gen_var = n.targets[0].id
        for y in outer_y:
            yv = [x for x in iter_own(secfg.own_ast(y)) if isinstance(x, ast.Yield)]
            rep.check("C10.R5", bool(yv) and isinstance(yv[0].value, ast.Name) and yv[0].value.id == gen_var, stream_events, y.ast, "the caller receives the filtering generator", "the caller receives the raw receive stream (unfiltered)")

    # ------------------------------------------------------------------ R6 wait_event
    wcalls = [(c, cal) for c, cal in a.func_calls(wait_event) if cal.kind == "func" and cal.func is stream_events]
    if not wcalls:
        rep.violate("C10.R6", wait_event, wait_event.node, "wait_event does not go through stream_events")
    else:
        c = wcalls[0][0]
        args = [ast.unparse(x) for x in c.args] + [f"{k.arg}={ast.unparse(k.value)}" for k in c.keywords]
        rep.check("C10.R6", args[:2] == wait_event.params[:2], wait_event, c, "wait_event subscribes with the caller's signals and filter", f"wait_event subscribes with ({', '.join(args)})")
        rets = [n for n in walk_own(wait_event.node) if isinstance(n, ast.Return) and n.value is not None]
        def _first_item(v) -> bool:
            # `await stream.__anext__()` directly, or a local that holds nothing else
            if isinstance(v, ast.Await) and isinstance(v.value, ast.Call) and call_name(v.value) in ("__anext__", "anext"):
                return True
            if isinstance(v, ast.Name):
                srcs = [x.value for x in walk_own(wait_event.node) if isinstance(x, ast.Assign) and any(isinstance(t, ast.Name) and t.id == v.id for t in x.targets)]
                return bool(srcs) and all(_first_item(s_) for s_ in srcs if not isinstance(s_, ast.Name)) and not any(isinstance(s_, ast.Name) for s_ in srcs)
            return False

        ok = bool(rets) and all(_first_item(r.value) for r in rets)
        rep.check("C10.R6", ok, wait_event, rets[0] if rets else wait_event.node, "wait_event returns the first event of the filtered stream", "wait_event does not return the first item of the stream")
    for m in ("wait_event", "stream_events"):
        meth = sa.Signal.methods.get(m)
        tgt = wait_event if m == "wait_event" else stream_events
        if meth is None:
            continue
        cs = [c for c, cal in a.func_calls(meth) if cal.kind == "func" and cal.func is tgt]
        ok = bool(cs) and isinstance(cs[0].args[0], ast.List) and len(cs[0].args[0].elts) == 1 and isinstance(cs[0].args[0].elts[0], ast.Name) and cs[0].args[0].elts[0].id == "self" and len(cs[0].args) > 1 and isinstance(cs[0].args[1], ast.Name) and cs[0].args[1].id == meth.params[1]
        rep.check("C10.R6", ok, meth, cs[0] if cs else meth.node, f"Signal.{m} delegates to {m}([self], filter)", f"Signal.{m} does not delegate with exactly this signal and the caller's filter")

    # ------------------------------------------------------------------ R7 queue size honoured
    qp = "max_queue_size"
    if cms:
        arg = cms[0].args[0] if cms[0].args else None
        rep.check("C10.R7", isinstance(arg, ast.Name) and arg.id == qp and qp in stream_events.params, stream_events, cms[0], "the memory stream is created with the caller's max_queue_size", f"the memory stream is created with `{ast.unparse(arg) if arg is not None else 'default'}` instead of max_queue_size")
    else:
        rep.violate("C10.R7", stream_events, stream_events.node, "stream_events creates no memory object stream")
    sm = sa.Signal.methods.get("stream_events")
    if sm is not None:
        cs = [c for c, cal in a.func_calls(sm) if cal.kind == "func" and cal.func is stream_events]
        ok = bool(cs) and any(k.arg == qp and isinstance(k.value, ast.Name) and k.value.id == qp for k in cs[0].keywords)
        rep.check("C10.R7", ok, sm, cs[0] if cs else sm.node, "Signal.stream_events forwards max_queue_size", "Signal.stream_events drops the caller's max_queue_size")
    rep.assume("anyio memory object streams are FIFO, deliver each item once, send_nowait never blocks and raises WouldBlock when full / BrokenResourceError when all receivers are closed")
