"""
Behaviour checks for refactoring 1 (ComponentContext: default resource name resolution
helper, target context selection in ``__init__``).

Everything goes through the public API only.
"""

from __future__ import annotations

import logging
from typing import Any

import pytest
from pytest import LogCaptureFixture

from asphalt.core import (
    Component,
    ComponentStartError,
    Context,
    ResourceConflict,
    add_resource,
    add_resource_factory,
    current_context,
    get_resource_nowait,
    get_resources,
    start_component,
)

pytestmark = pytest.mark.anyio()


@pytest.fixture(params=["asyncio", "trio"])
def anyio_backend(request: Any) -> str:
    return request.param


def component_messages(caplog: LogCaptureFixture, needle: str) -> list[str]:
    return [msg for msg in caplog.messages if needle in msg]


async def test_default_name_only_replaced_during_start(
    caplog: LogCaptureFixture,
) -> None:
    class Child(Component):
        async def prepare(self) -> None:
            # Not in the "starting" state yet -> "default" is kept as is
            add_resource(1.5)
            add_resource_factory(lambda: b"prep", types=bytes)

        async def start(self) -> None:
            add_resource("from start")
            add_resource("explicit", "explicit_name")
            add_resource_factory(lambda: 7, types=[int])
            add_resource_factory(lambda: [1], "lst", types=list, description="a list")

    class Root(Component):
        def __init__(self) -> None:
            self.add_component("child/alt", Child)

        async def start(self) -> None:
            # The root component's default resource name is "default"
            add_resource({"root": True})

    caplog.set_level(logging.DEBUG, "asphalt.core")
    async with Context() as ctx:
        await start_component(Root)
        assert get_resource_nowait(float) == 1.5
        assert get_resource_nowait(float, "alt", optional=True) is None
        assert get_resource_nowait(str, "alt") == "from start"
        assert get_resource_nowait(str, optional=True) is None
        assert get_resource_nowait(str, "explicit_name") == "explicit"
        assert get_resource_nowait(dict) == {"root": True}
        assert dict(get_resources(str)) == {
            "alt": "from start",
            "explicit_name": "explicit",
        }
        # Factories are registered on the surrounding context too
        async with Context():
            assert get_resource_nowait(bytes) == b"prep"
            assert get_resource_nowait(int, "alt") == 7
            assert get_resource_nowait(int, optional=True) is None
            assert get_resource_nowait(list, "lst") == [1]

        assert ctx.get_resource_nowait(int, "alt") == 7

    assert component_messages(caplog, "added a resource") == [
        "Component 'child/alt' added a resource (type=float, name='default')",
        "Component 'child/alt' added a resource factory (type=bytes, name='default')",
        "Component 'child/alt' added a resource (type=str, name='alt')",
        "Component 'child/alt' added a resource (type=str, name='explicit_name')",
        "Component 'child/alt' added a resource factory (types=[int], name='alt')",
        "Component 'child/alt' added a resource factory (type=list, name='lst', "
        "description='a list')",
        "The root component added a resource (type=dict, name='default')",
    ]


async def test_default_name_after_startup_and_in_grandchildren() -> None:
    captured: dict[str, Context] = {}

    class GrandChild(Component):
        async def start(self) -> None:
            captured["grandchild"] = current_context()
            add_resource("gc")

    class Child(Component):
        def __init__(self) -> None:
            self.add_component("grand/deep", GrandChild)

        async def start(self) -> None:
            # The grandchild has been started by now, and its resource must be visible
            # here, as it was added to the surrounding (non-component) context
            assert get_resource_nowait(str, "deep") == "gc"
            add_resource(10)

    class Root(Component):
        def __init__(self) -> None:
            self.add_component("child/one", Child)

    async with Context() as ctx:
        await start_component(Root)
        assert ctx.get_resource_nowait(str, "deep") == "gc"
        assert ctx.get_resource_nowait(int, "one") == 10

        # The component is in the "started" state now, so "default" is not replaced
        component_ctx = captured["grandchild"]
        assert component_ctx is not ctx
        assert component_ctx.closed
        component_ctx.add_resource(b"late")
        assert ctx.get_resource_nowait(bytes) == b"late"
        assert ctx.get_resource_nowait(bytes, "deep", optional=True) is None
        component_ctx.add_resource_factory(lambda: 2.5, types=float)
        assert ctx.get_resource_nowait(float) == 2.5


async def test_nested_start_component_targets_outer_context() -> None:
    teardown_order: list[str] = []

    class Inner(Component):
        async def start(self) -> None:
            add_resource(
                "inner",
                teardown_callback=lambda: teardown_order.append("inner resource"),
            )

    class Outer(Component):
        async def start(self) -> None:
            # current_context() is a component context here
            await start_component(Inner)
            assert get_resource_nowait(str) == "inner"
            add_resource(5, teardown_callback=lambda: teardown_order.append("outer"))

    async with Context() as ctx:
        ctx.add_teardown_callback(lambda: teardown_order.append("first"))
        await start_component(Outer)
        # Both resources outlive the component contexts
        assert teardown_order == []
        assert ctx.get_resource_nowait(str) == "inner"
        assert ctx.get_resource_nowait(int) == 5

    assert teardown_order == ["outer", "inner resource", "first"]


async def test_conflict_uses_replaced_name(caplog: LogCaptureFixture) -> None:
    class Child(Component):
        async def start(self) -> None:
            add_resource("second")

    class Root(Component):
        def __init__(self) -> None:
            self.add_component("child/taken", Child)

    caplog.set_level(logging.DEBUG, "asphalt.core")
    async with Context() as ctx:
        ctx.add_resource("first", "taken")
        with pytest.raises(ComponentStartError) as exc_info:
            await start_component(Root)

        exc_info.match("error starting component 'child/taken'")
        cause = exc_info.value.__cause__
        assert isinstance(cause, ResourceConflict)
        assert str(cause) == (
            "this context already contains a resource of type str using the name "
            "'taken'"
        )
        assert ctx.get_resource_nowait(str, "taken") == "first"
        assert ctx.get_resource_nowait(str, optional=True) is None

    assert component_messages(caplog, "added a resource") == []


@pytest.mark.parametrize(
    "method, args, kwargs, exc_class, message",
    [
        pytest.param(
            "add_resource",
            (None,),
            {},
            ValueError,
            '"value" must not be None',
            id="none_value",
        ),
        pytest.param(
            "add_resource",
            ("value", "bad name!"),
            {},
            ValueError,
            '"name" must be a nonempty string consisting only of alphanumeric '
            "characters and underscores",
            id="bad_name",
        ),
        pytest.param(
            "add_resource",
            ("value",),
            {"types": [5]},
            TypeError,
            "types must be a type or sequence of types",
            id="bad_types",
        ),
        pytest.param(
            "add_resource_factory",
            (lambda: 1,),
            {},
            ValueError,
            "no resource types specified, and the factory callback does not have a "
            "return type hint",
            id="factory_no_types",
        ),
        pytest.param(
            "add_resource_factory",
            (lambda: 1, ""),
            {"types": int},
            ValueError,
            '"name" must be a nonempty string consisting only of alphanumeric '
            "characters and underscores",
            id="factory_bad_name",
        ),
    ],
)
async def test_add_errors_propagate(
    caplog: LogCaptureFixture,
    method: str,
    args: tuple[Any, ...],
    kwargs: dict[str, Any],
    exc_class: type[Exception],
    message: str,
) -> None:
    class Child(Component):
        async def start(self) -> None:
            getattr(current_context(), method)(*args, **kwargs)

    class Root(Component):
        def __init__(self) -> None:
            self.add_component("child/x", Child)

    caplog.set_level(logging.DEBUG, "asphalt.core")
    async with Context() as ctx:
        with pytest.raises(ComponentStartError) as exc_info:
            await start_component(Root)

        cause = exc_info.value.__cause__
        assert type(cause) is exc_class
        assert str(cause) == message
        assert dict(ctx.get_resources(str)) == {}

    assert component_messages(caplog, "added a resource") == []
