"""
Behaviour checks for refactoring 2 (the ``finalize_service_task`` closure of
``Context.start_service_task`` replaced by a private ``_ServiceTask`` value object with
small helper methods).

The checks concentrate on what happens at context teardown for every kind of teardown
action, including the error and cancellation paths. Public API only; must pass on both
the unchanged and the refactored source.
"""

from __future__ import annotations

import logging
from functools import partial
from typing import Any, Generator

import anyio
import pytest
from anyio import fail_after, move_on_after
from anyio.abc import TaskStatus
from pytest import LogCaptureFixture

from asphalt.core import (
    Context,
    add_teardown_callback,
    callable_name,
    start_background_task_factory,
    start_service_task,
)

pytestmark = pytest.mark.anyio()


def core_records(caplog: LogCaptureFixture) -> list[logging.LogRecord]:
    return [rec for rec in caplog.records if rec.name == "asphalt.core"]


def core_messages(caplog: LogCaptureFixture) -> list[str]:
    return [rec.getMessage() for rec in core_records(caplog)]


class Service:
    """A service that runs until it is told to stop (or is cancelled)."""

    def __init__(self, events: list[str], label: str = "service") -> None:
        self.events = events
        self.label = label
        self.stop_event = anyio.Event()

    async def run(self) -> None:
        self.events.append(f"{self.label} started")
        try:
            await self.stop_event.wait()
        except BaseException:
            self.events.append(f"{self.label} cancelled")
            raise
        else:
            self.events.append(f"{self.label} stopped")

    def stop(self) -> None:
        self.events.append(f"{self.label} stop requested")
        self.stop_event.set()

    async def stop_async(self) -> None:
        self.events.append(f"{self.label} async stop requested")
        await anyio.sleep(0.01)
        self.stop_event.set()


class StopperObject:
    """Callable object without a ``__qualname__`` of its own."""

    def __init__(self, service: Service) -> None:
        self.service = service
        self.calls = 0

    def __call__(self) -> None:
        self.calls += 1
        self.service.stop()


class CustomAwaitable:
    def __init__(self, service: Service) -> None:
        self.service = service

    def __await__(self) -> Generator[Any, Any, None]:
        self.service.events.append("custom awaitable awaited")
        yield from anyio.sleep(0).__await__()
        self.service.stop_event.set()


class FatalSignal(BaseException):
    pass


async def test_default_action_cancels(caplog: LogCaptureFixture) -> None:
    caplog.set_level(logging.DEBUG, "asphalt.core")
    events: list[str] = []
    service = Service(events)
    with fail_after(3):
        async with Context():
            await start_service_task(service.run, "svc")
            events.append("body done")

    assert events == ["service started", "body done", "service cancelled"]
    assert core_messages(caplog) == [
        "Background task (Service task: svc) starting",
        "Cancelling service task 'svc'",
        "Waiting for service task 'svc' to finish",
        "Background task (Service task: svc) finished successfully",
        "Service task 'svc' finished",
    ]


async def test_explicit_cancel_string_built_at_runtime() -> None:
    events: list[str] = []
    service = Service(events)
    action = "".join(["can", "cel"])
    with fail_after(3):
        async with Context() as ctx:
            await ctx.start_service_task(service.run, "svc", teardown_action=action)  # type: ignore[arg-type]

    assert events == ["service started", "service cancelled"]


async def test_none_action_with_already_finished_task(
    caplog: LogCaptureFixture,
) -> None:
    caplog.set_level(logging.DEBUG, "asphalt.core")
    events: list[str] = []
    service = Service(events)
    with fail_after(3):
        async with Context():
            await start_service_task(service.run, "svc", teardown_action=None)
            service.stop()
            await anyio.sleep(0.1)
            events.append("body done")

    assert events == [
        "service started",
        "service stop requested",
        "service stopped",
        "body done",
    ]
    assert core_messages(caplog) == [
        "Background task (Service task: svc) starting",
        "Background task (Service task: svc) finished successfully",
        "Waiting for service task 'svc' to finish",
        "Service task 'svc' finished",
    ]


async def test_none_action_blocks_teardown_until_finished(
    caplog: LogCaptureFixture,
) -> None:
    caplog.set_level(logging.DEBUG, "asphalt.core")
    events: list[str] = []
    service = Service(events)

    async def stop_later() -> None:
        await anyio.sleep(0.1)
        service.stop()

    with fail_after(3):
        async with anyio.create_task_group() as tg:
            async with Context():
                add_teardown_callback(lambda: events.append("earlier callback"))
                await start_service_task(service.run, "svc", teardown_action=None)
                tg.start_soon(stop_later)
                events.append("body done")

            events.append("context exited")

    assert events == [
        "service started",
        "body done",
        "service stop requested",
        "service stopped",
        "earlier callback",
        "context exited",
    ]
    assert core_messages(caplog) == [
        "Background task (Service task: svc) starting",
        "Waiting for service task 'svc' to finish",
        "Background task (Service task: svc) finished successfully",
        "Service task 'svc' finished",
    ]


@pytest.mark.parametrize("kind", ["method", "async_method", "partial", "lambda"])
async def test_callable_actions(kind: str, caplog: LogCaptureFixture) -> None:
    caplog.set_level(logging.DEBUG, "asphalt.core")
    events: list[str] = []
    service = Service(events)
    action: Any
    if kind == "method":
        action = service.stop
    elif kind == "async_method":
        action = service.stop_async
    elif kind == "partial":
        action = partial(Service.stop, service)
    else:
        action = lambda: service.stop_async()  # noqa: E731

    with fail_after(3):
        async with Context():
            await start_service_task(service.run, "svc", teardown_action=action)
            events.append("body done")

    requested = (
        "service stop requested"
        if kind in ("method", "partial")
        else "service async stop requested"
    )
    assert events == ["service started", "body done", requested, "service stopped"]
    assert core_messages(caplog) == [
        "Background task (Service task: svc) starting",
        f"Calling teardown callback ({callable_name(action)}) for service task 'svc'",
        "Waiting for service task 'svc' to finish",
        "Background task (Service task: svc) finished successfully",
        "Service task 'svc' finished",
    ]
    assert all(rec.levelno == logging.DEBUG for rec in core_records(caplog))


async def test_callable_object_action(caplog: LogCaptureFixture) -> None:
    caplog.set_level(logging.DEBUG, "asphalt.core")
    events: list[str] = []
    service = Service(events)
    stopper = StopperObject(service)
    with fail_after(3):
        async with Context():
            await start_service_task(service.run, "svc", teardown_action=stopper)

    assert stopper.calls == 1
    assert events == ["service started", "service stop requested", "service stopped"]
    assert core_messages(caplog)[1] == (
        f"Calling teardown callback ({__name__}.StopperObject) for service task 'svc'"
    )


async def test_action_returning_custom_awaitable() -> None:
    events: list[str] = []
    service = Service(events)
    with fail_after(3):
        async with Context():
            await start_service_task(
                service.run, "svc", teardown_action=lambda: CustomAwaitable(service)
            )

    assert events == ["service started", "custom awaitable awaited", "service stopped"]


async def test_action_returning_non_awaitable_value_is_ignored() -> None:
    events: list[str] = []
    service = Service(events)

    def stop_and_return() -> str:
        service.stop()
        return "not awaitable"

    with fail_after(3):
        async with Context():
            await start_service_task(
                service.run, "svc", teardown_action=stop_and_return
            )

    assert events == ["service started", "service stop requested", "service stopped"]


@pytest.mark.parametrize("is_async", [False, True], ids=["sync", "async"])
async def test_failing_action_cancels_and_logs(
    is_async: bool, caplog: LogCaptureFixture
) -> None:
    caplog.set_level(logging.DEBUG, "asphalt.core")
    events: list[str] = []
    service = Service(events)
    error = RuntimeError("cannot stop")

    def sync_action() -> None:
        events.append("action called")
        raise error

    async def async_action() -> None:
        events.append("action called")
        await anyio.sleep(0)
        raise error

    action = async_action if is_async else sync_action
    with fail_after(3):
        async with Context():
            await start_service_task(service.run, "svc", teardown_action=action)

    assert events == ["service started", "action called", "service cancelled"]
    action_name = callable_name(action)
    assert core_messages(caplog) == [
        "Background task (Service task: svc) starting",
        f"Calling teardown callback ({action_name}) for service task 'svc'",
        f"Error calling teardown callback ({action_name}) for service task 'svc'",
        "Waiting for service task 'svc' to finish",
        "Background task (Service task: svc) finished successfully",
        "Service task 'svc' finished",
    ]
    error_record = core_records(caplog)[2]
    assert error_record.levelno == logging.ERROR
    assert error_record.exc_info is not None
    assert error_record.exc_info[1] is error


@pytest.mark.parametrize("is_async", [False, True], ids=["sync", "async"])
async def test_action_raising_base_exception_cancels_silently(
    is_async: bool, caplog: LogCaptureFixture
) -> None:
    caplog.set_level(logging.DEBUG, "asphalt.core")
    events: list[str] = []
    service = Service(events)

    def sync_action() -> None:
        raise FatalSignal("stop everything")

    async def async_action() -> None:
        raise FatalSignal("stop everything")

    action = async_action if is_async else sync_action
    with fail_after(3):
        async with Context():
            add_teardown_callback(lambda: events.append("earlier callback"))
            await start_service_task(service.run, "svc", teardown_action=action)

    # The exception is swallowed, the task cancelled and nothing logged above DEBUG
    assert events == ["service started", "service cancelled", "earlier callback"]
    assert core_messages(caplog) == [
        "Background task (Service task: svc) starting",
        f"Calling teardown callback ({callable_name(action)}) for service task 'svc'",
        "Waiting for service task 'svc' to finish",
        "Background task (Service task: svc) finished successfully",
        "Service task 'svc' finished",
    ]
    assert all(rec.levelno == logging.DEBUG for rec in core_records(caplog))


async def test_service_tasks_are_finalized_in_reverse_order() -> None:
    events: list[str] = []
    first = Service(events, "first")
    second = Service(events, "second")
    third = Service(events, "third")
    with fail_after(3):
        async with Context() as ctx:
            await ctx.start_service_task(first.run, "first", teardown_action=first.stop)
            await start_service_task(second.run, "second")
            await ctx.start_service_task(
                third.run, "third", teardown_action=third.stop_async
            )

    assert events == [
        "first started",
        "second started",
        "third started",
        "third async stop requested",
        "third stopped",
        "second cancelled",
        "first stop requested",
        "first stopped",
    ]


async def test_service_finished_before_teardown(caplog: LogCaptureFixture) -> None:
    caplog.set_level(logging.DEBUG, "asphalt.core")
    calls: list[str] = []

    async def short_lived(*, task_status: TaskStatus[str]) -> None:
        task_status.started("ready")

    with fail_after(3):
        async with Context():
            value = await start_service_task(
                short_lived, "short", teardown_action=lambda: calls.append("action")
            )
            assert value == "ready"
            await anyio.sleep(0.05)

    # The teardown action is still called even though the task is long gone
    assert calls == ["action"]
    assert core_messages(caplog)[-2:] == [
        "Waiting for service task 'short' to finish",
        "Service task 'short' finished",
    ]


async def test_crashing_service_task_takes_down_the_context(
    caplog: LogCaptureFixture,
) -> None:
    caplog.set_level(logging.DEBUG, "asphalt.core")
    crash = anyio.Event()

    async def crashing() -> None:
        await crash.wait()
        raise OSError("socket died")

    with fail_after(3):
        with pytest.raises(BaseException) as exc_info:
            async with Context():
                await start_service_task(crashing, "crasher", teardown_action=None)
                crash.set()
                await anyio.sleep(1)

    exc = exc_info.value
    while isinstance(exc, BaseExceptionGroup):
        assert len(exc.exceptions) == 1
        exc = exc.exceptions[0]

    assert isinstance(exc, OSError)
    # The crash cancels the host task, so the wait in the teardown callback is
    # interrupted before "Service task ... finished" can be logged
    assert core_messages(caplog) == [
        "Background task (Service task: crasher) starting",
        "Background task (Service task: crasher) crashed",
        "Waiting for service task 'crasher' to finish",
    ]


async def test_teardown_cancelled_while_waiting(caplog: LogCaptureFixture) -> None:
    """
    The service ignores its teardown action, and the host task gets cancelled while the
    context teardown is waiting for the service task to finish.
    """
    caplog.set_level(logging.DEBUG, "asphalt.core")
    events: list[str] = []
    service = Service(events)
    outcome = "completed"
    with fail_after(3):
        try:
            with move_on_after(0.1) as scope:
                async with Context():
                    await start_service_task(
                        service.run,
                        "stubborn",
                        teardown_action=lambda: events.append("action called"),
                    )
        except BaseException as exc:
            outcome = type(exc).__name__

    assert scope.cancel_called
    assert outcome == "completed"
    assert events == ["service started", "action called", "service cancelled"]
    # "Service task ... finished" is never logged because the wait was interrupted
    assert core_messages(caplog) == [
        "Background task (Service task: stubborn) starting",
        f"Calling teardown callback ({__name__}.test_teardown_cancelled_while_waiting."
        f"<locals>.<lambda>) for service task 'stubborn'",
        "Waiting for service task 'stubborn' to finish",
    ]


async def test_background_task_factory_teardown_path(caplog: LogCaptureFixture) -> None:
    caplog.set_level(logging.DEBUG, "asphalt.core")
    events: list[str] = []

    async def job() -> None:
        await anyio.sleep(0.05)
        events.append("job done")

    with fail_after(3):
        async with Context():
            factory = await start_background_task_factory()
            await factory.start_task(job, "job")
            events.append("body done")

    assert events == ["body done", "job done"]
    name = f"Background task factory ({id(factory):x})"
    assert core_messages(caplog) == [
        f"Background task (Service task: {name}) starting",
        "Background task (job) starting",
        f"Calling teardown callback ({callable_name(anyio.Event().set)}) for service "
        f"task {name!r}",
        f"Waiting for service task {name!r} to finish",
        "Background task (job) finished successfully",
        f"Background task (Service task: {name}) finished successfully",
        f"Service task {name!r} finished",
    ]
