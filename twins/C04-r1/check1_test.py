"""
Behaviour checks for refactoring 1 (extraction of Context._store_generated_resource).

Focus: what gets stored in the context, under which keys, and which event is
dispatched when a resource factory is triggered through either lookup API.
"""

from __future__ import annotations

from itertools import count
from typing import Any

import pytest
from anyio import create_task_group
from anyio.lowlevel import checkpoint

from asphalt.core import (
    AsyncResourceError,
    Context,
    ResourceEvent,
    ResourceNotFound,
    get_resource,
    get_resource_nowait,
    inject,
    resource,
)

pytestmark = pytest.mark.anyio()


@pytest.fixture
def anyio_backend() -> str:
    return "asyncio"


class Thing:
    def __init__(self, serial: int) -> None:
        self.serial = serial


class Base:
    pass


class Derived(Base):
    def __init__(self, serial: int) -> None:
        self.serial = serial


async def collect_events(ctx: Context, events: list[ResourceEvent], task_status: Any):
    async with ctx.resource_added.stream_events() as stream:
        task_status.started()
        async for event in stream:
            events.append(event)


@pytest.mark.parametrize("first_api", ["nowait", "async"])
@pytest.mark.parametrize("async_factory", [False, True])
async def test_multi_type_factory_singleton_and_event(
    first_api: str, async_factory: bool
) -> None:
    if first_api == "nowait" and async_factory:
        pytest.skip("sync API cannot trigger async factories")

    counter = count(1)
    calls: list[int] = []

    def sync_factory() -> Derived:
        calls.append(1)
        return Derived(next(counter))

    async def asynchronous_factory() -> Derived:
        calls.append(1)
        await checkpoint()
        return Derived(next(counter))

    events: list[ResourceEvent] = []
    async with Context() as ctx:
        ctx.add_resource_factory(
            asynchronous_factory if async_factory else sync_factory,
            "special",
            types=[Derived, Base],
            description="a thing",
        )
        async with create_task_group() as tg:
            await tg.start(collect_events, ctx, events)
            if first_api == "nowait":
                first = ctx.get_resource_nowait(Derived, "special")
            else:
                first = await ctx.get_resource(Derived, "special")

            assert isinstance(first, Derived)
            assert first.serial == 1

            # Every lookup API and every one of the factory's types gives the same one
            assert ctx.get_resource_nowait(Base, "special") is first
            assert await ctx.get_resource(Base, "special") is first
            assert ctx.get_resource_nowait(Derived, "special") is first
            assert await ctx.get_resource(Derived, "special") is first
            assert get_resource_nowait(Base, "special") is first
            assert await get_resource(Derived, "special") is first
            assert ctx.get_resources(Base) == {"special": first}
            assert ctx.get_resources(Derived) == {"special": first}
            assert len(calls) == 1

            await checkpoint()
            await checkpoint()
            tg.cancel_scope.cancel()

    assert len(events) == 1
    assert events[0].resource_types == (Derived, Base)
    assert events[0].resource_name == "special"
    assert events[0].resource_description == "a thing"
    assert events[0].is_factory is False


@pytest.mark.parametrize("api", ["nowait", "async"])
async def test_existing_resource_under_one_type_is_not_replaced(api: str) -> None:
    existing = Base()
    counter = count(1)
    async with Context() as ctx:
        ctx.add_resource(existing, types=[Base])
        ctx.add_resource_factory(lambda: Derived(next(counter)), types=[Derived, Base])
        if api == "nowait":
            generated = ctx.get_resource_nowait(Derived)
        else:
            generated = await ctx.get_resource(Derived)

        assert generated.serial == 1
        assert ctx.get_resource_nowait(Base) is existing
        assert await ctx.get_resource(Base) is existing
        assert ctx.get_resource_nowait(Derived) is generated
        assert await ctx.get_resource(Derived) is generated
        assert ctx.get_resources(Derived) == {"default": generated}


@pytest.mark.parametrize("api", ["nowait", "async"])
async def test_generated_resource_belongs_to_requesting_context(api: str) -> None:
    counter = count(1)

    async def lookup(ctx: Context) -> Thing:
        if api == "nowait":
            return ctx.get_resource_nowait(Thing)

        return await ctx.get_resource(Thing)

    async with Context() as parent:
        parent.add_resource_factory(lambda: Thing(next(counter)), types=[Thing])
        async with Context() as child1:
            in_child1 = await lookup(child1)
            assert in_child1.serial == 1
            # Not visible in the parent
            assert parent.get_resources(Thing) == {}
            async with Context() as grandchild:
                # Not inherited by contexts created afterwards
                assert grandchild.get_resources(Thing) == {}
                in_grandchild = await lookup(grandchild)
                assert in_grandchild.serial == 2
                assert in_grandchild is not in_child1
                assert await lookup(grandchild) is in_grandchild

            assert await lookup(child1) is in_child1

        in_parent = await lookup(parent)
        assert in_parent.serial == 3
        async with Context() as child2:
            assert child2.get_resources(Thing) == {}
            in_child2 = await lookup(child2)
            assert in_child2.serial == 4
            assert parent.get_resource_nowait(Thing) is in_parent


async def test_async_factory_via_sync_api_registers_nothing() -> None:
    counter = count(1)
    events: list[ResourceEvent] = []

    async def factory() -> Thing:
        return Thing(next(counter))

    async with Context() as ctx:
        ctx.add_resource_factory(factory, types=[Thing, object])
        async with create_task_group() as tg:
            await tg.start(collect_events, ctx, events)
            with pytest.raises(AsyncResourceError):
                ctx.get_resource_nowait(Thing)

            with pytest.raises(AsyncResourceError):
                ctx.get_resource_nowait(object, optional=True)

            assert ctx.get_resources(Thing) == {}
            assert ctx.get_resources(object) == {}
            await checkpoint()
            await checkpoint()
            assert events == []

            generated = await ctx.get_resource(object)
            assert generated.serial == 1
            # Now that it has been generated, the sync API finds it
            assert ctx.get_resource_nowait(Thing) is generated
            await checkpoint()
            await checkpoint()
            tg.cancel_scope.cancel()

    assert len(events) == 1


async def test_concurrent_lookups_of_sync_factory() -> None:
    counter = count(1)
    results: list[Thing] = []

    async def worker(ctx: Context, use_async: bool, delay: int) -> None:
        for _ in range(delay):
            await checkpoint()

        if use_async:
            results.append(await ctx.get_resource(Thing))
        else:
            results.append(ctx.get_resource_nowait(Thing))

    async with Context() as ctx:
        ctx.add_resource_factory(lambda: Thing(next(counter)), types=[Thing])
        async with create_task_group() as tg:
            for i in range(8):
                tg.start_soon(worker, ctx, i % 2 == 0, i % 3)

    assert len(results) == 8
    assert all(res is results[0] for res in results)
    assert results[0].serial == 1
    assert next(counter) == 2


async def test_inject_sync_and_async() -> None:
    counter = count(1)

    @inject
    def sync_func(thing: Thing = resource(), *, other: Thing = resource("other")):
        return thing, other

    @inject
    async def async_func(thing: Thing = resource(), other: Thing = resource("other")):
        return thing, other

    async with Context() as ctx:
        ctx.add_resource_factory(lambda: Thing(next(counter)), types=[Thing])

        async def other_factory() -> Thing:
            return Thing(100 + next(counter))

        ctx.add_resource_factory(other_factory, "other")
        with pytest.raises(AsyncResourceError):
            sync_func()

        # The failed call generated the "default" resource but not "other"
        assert ctx.get_resources(Thing).keys() == {"default"}
        thing, other = await async_func()
        assert thing.serial == 1
        assert other.serial == 102
        assert sync_func() == (thing, other)
        async with Context():
            thing2, other2 = await async_func()
            assert thing2.serial == 3
            assert other2.serial == 104
            assert sync_func() == (thing2, other2)

        assert await async_func() == (thing, other)

        with pytest.raises(ResourceNotFound):
            ctx.get_resource_nowait(Thing, "missing")
