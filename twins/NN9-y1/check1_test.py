"""
Behaviour checks for refactoring 1 (everyday clean-up of ``_start_component``,
``_watch_component_tree_startup`` and the exception handling tail of
``run_background_task``).

Only the public API is used.
"""

from __future__ import annotations

import logging
import re
import sys
from typing import Any, NoReturn

import pytest
from anyio import Event, fail_after, get_current_task, sleep, sleep_forever
from pytest import LogCaptureFixture

from asphalt.core import (
    Component,
    ComponentStartError,
    Context,
    add_resource,
    get_resource,
    get_resource_nowait,
    start_background_task_factory,
    start_component,
    start_service_task,
)

if sys.version_info < (3, 11):
    from exceptiongroup import BaseExceptionGroup, ExceptionGroup

pytestmark = pytest.mark.anyio()


@pytest.fixture(params=["asyncio", "trio"])
def anyio_backend(request: Any) -> str:
    return request.param


def leaf_exceptions(exc: BaseException) -> list[BaseException]:
    if isinstance(exc, BaseExceptionGroup):
        leaves: list[BaseException] = []
        for sub in exc.exceptions:
            leaves.extend(leaf_exceptions(sub))

        return leaves

    return [exc]


#
# _start_component: child task names, ordering, errors
#


async def test_child_task_names_and_start_order() -> None:
    events: list[str] = []
    task_names: dict[str, str | None] = {}

    class Leaf(Component):
        def __init__(self, label: str) -> None:
            self.label = label

        async def start(self) -> None:
            task_names[self.label] = get_current_task().name
            events.append(f"start {self.label}")

    class Middle(Component):
        def __init__(self) -> None:
            self.add_component("leaf1", Leaf, label="m.leaf1")
            self.add_component("leaf2", Leaf, label="m.leaf2")

        async def prepare(self) -> None:
            task_names["middle"] = get_current_task().name
            events.append("prepare middle")

        async def start(self) -> None:
            events.append("start middle")

    class Root(Component):
        def __init__(self) -> None:
            self.add_component("first", Leaf, label="first")
            self.add_component("middle", Middle)
            self.add_component("last/alt", Leaf, label="last")

        async def prepare(self) -> None:
            events.append("prepare root")

        async def start(self) -> None:
            events.append("start root")

    async with Context():
        root = await start_component(Root)

    assert isinstance(root, Root)
    prefix = f"{__name__}.test_child_task_names_and_start_order.<locals>"
    assert task_names == {
        "first": f"Starting component first ({prefix}.Leaf)",
        "middle": f"Starting component middle ({prefix}.Middle)",
        "m.leaf1": f"Starting component middle.leaf1 ({prefix}.Leaf)",
        "m.leaf2": f"Starting component middle.leaf2 ({prefix}.Leaf)",
        "last": f"Starting component last/alt ({prefix}.Leaf)",
    }
    assert events[0] == "prepare root"
    assert events[-1] == "start root"
    assert events.index("prepare middle") < events.index("start m.leaf1")
    assert events.index("start m.leaf1") < events.index("start middle")
    assert events.index("start m.leaf2") < events.index("start middle")
    assert sorted(events) == sorted(
        [
            "prepare root",
            "start first",
            "prepare middle",
            "start m.leaf1",
            "start m.leaf2",
            "start middle",
            "start last",
            "start root",
        ]
    )


async def test_children_start_concurrently_and_exchange_resources() -> None:
    class Producer(Component):
        async def start(self) -> None:
            await consumer_waiting.wait()
            add_resource("payload")

    class Consumer(Component):
        async def start(self) -> None:
            consumer_waiting.set()
            with fail_after(3):
                value = await get_resource(str)

            add_resource(value.upper(), "upper")

    class Root(Component):
        def __init__(self) -> None:
            # The consumer is listed first on purpose
            self.add_component("consumer", Consumer)
            self.add_component("producer", Producer)

        async def start(self) -> None:
            add_resource(get_resource_nowait(str, "upper") + "!", "final")

    consumer_waiting = Event()
    async with Context():
        await start_component(Root)
        assert get_resource_nowait(str, "final") == "PAYLOAD!"


async def test_single_child_error_is_not_wrapped_in_group() -> None:
    class BadChild(Component):
        async def start(self) -> None:
            raise ValueError("child blew up")

    class Root(Component):
        def __init__(self) -> None:
            self.add_component("bad", BadChild)

        async def start(self) -> None:
            pytest.fail("the parent must not be started")

    async with Context():
        with pytest.raises(ComponentStartError) as excinfo:
            await start_component(Root)

    assert re.fullmatch(
        r"error starting component 'bad' \(.*BadChild\): ValueError: child blew up",
        str(excinfo.value),
    )
    assert isinstance(excinfo.value.__cause__, ValueError)


async def test_two_child_errors_form_a_group() -> None:
    class BadChild(Component):
        def __init__(self, message: str) -> None:
            self.message = message

        async def start(self) -> None:
            both_started.append(self.message)
            if len(both_started) < 2:
                await all_in.wait()
            else:
                all_in.set()

            raise RuntimeError(self.message)

    class Root(Component):
        def __init__(self) -> None:
            self.add_component("a", BadChild, message="boom a")
            self.add_component("b", BadChild, message="boom b")

    both_started: list[str] = []
    all_in = Event()
    async with Context():
        with pytest.raises(ExceptionGroup) as excinfo:
            await start_component(Root)

    leaves = leaf_exceptions(excinfo.value)
    assert all(isinstance(exc, ComponentStartError) for exc in leaves)
    assert sorted(str(exc.__cause__) for exc in leaves) == ["boom a", "boom b"]


#
# _watch_component_tree_startup: the timeout report
#


async def test_timeout_report_layout(caplog: LogCaptureFixture) -> None:
    class Quick(Component):
        async def start(self) -> None:
            pass

    class Stuck(Component):
        async def start(self) -> None:
            await sleep_forever()

    class StuckInPrepare(Component):
        def __init__(self) -> None:
            self.add_component("never", Quick)

        async def prepare(self) -> None:
            await sleep_forever()

    class Root(Component):
        def __init__(self) -> None:
            self.add_component("quick", Quick)
            self.add_component("stuck", Stuck)
            self.add_component("preparing", StuckInPrepare)

        async def start(self) -> None:
            pytest.fail("the root component must not be started")

    caplog.set_level(logging.ERROR, "asphalt.core")
    async with Context():
        with pytest.raises(TimeoutError, match="^timeout starting component tree$"):
            await start_component(Root, timeout=0.1)

    errors = [rec for rec in caplog.records if rec.levelno == logging.ERROR]
    assert len(errors) == 1
    sections = errors[0].getMessage().split("\n\n")
    status_title = "Current status of the components still waiting to finish startup"
    stack_title = "Stack summaries of components still waiting to start"
    assert sections[0] == "Timeout waiting for the component tree to start"
    assert sections[1] == f"{status_title}\n{'-' * len(status_title)}"
    assert sections[2] == (
        "(root): starting children\n"
        "  stuck: starting\n"
        "  preparing: preparing\n"
        "    never: initialized"
    )
    assert sections[3] == f"{stack_title}\n{'-' * len(stack_title)}"
    assert len(sections) == 6
    prefix = f"{__name__}.test_timeout_report_layout.<locals>"
    stuck_lines = sections[4].splitlines()
    assert stuck_lines[0] == f"stuck ({prefix}.Stuck):"
    assert ", in start" in stuck_lines[1]
    assert "sleep_forever" in sections[4]
    preparing_lines = sections[5].splitlines()
    assert preparing_lines[0] == f"preparing ({prefix}.StuckInPrepare):"
    assert ", in prepare" in preparing_lines[1]


async def test_no_timeout_report_when_startup_is_fast(
    caplog: LogCaptureFixture,
) -> None:
    class Root(Component):
        async def start(self) -> None:
            await sleep(0.01)
            add_resource("done")

    caplog.set_level(logging.ERROR, "asphalt.core")
    async with Context():
        await start_component(Root, timeout=5)
        await sleep(0.02)
        assert get_resource_nowait(str) == "done"

    assert not caplog.records


#
# run_background_task: exception handling tail
#


@pytest.mark.parametrize(
    "handler_result", [True, 1, "yes"], ids=["true", "one", "string"]
)
async def test_truthy_handler_result_swallows_exception(
    handler_result: Any, caplog: LogCaptureFixture
) -> None:
    def handler(exc: Exception) -> Any:
        seen.append(exc)
        return handler_result

    async def taskfunc() -> NoReturn:
        raise LookupError("swallow me")

    seen: list[Exception] = []
    caplog.set_level(logging.DEBUG, "asphalt.core")
    async with Context():
        factory = await start_background_task_factory(exception_handler=handler)
        handle = await factory.start_task(taskfunc, "crasher")
        await handle.wait_finished()
        assert factory.all_task_handles() == set()

    assert [str(exc) for exc in seen] == ["swallow me"]
    messages = [rec.getMessage() for rec in caplog.records]
    assert "Background task (crasher) starting" in messages
    assert "Background task (crasher) crashed" in messages
    assert "Background task (crasher) finished successfully" not in messages


@pytest.mark.parametrize(
    "handler_result", [False, None, 0, ""], ids=["false", "none", "zero", "empty"]
)
async def test_falsy_handler_result_propagates_exception(handler_result: Any) -> None:
    def handler(exc: Exception) -> Any:
        seen.append(exc)
        return handler_result

    async def taskfunc() -> NoReturn:
        raise LookupError("do not swallow me")

    seen: list[Exception] = []
    handle = None
    with pytest.raises(ExceptionGroup) as excinfo:
        async with Context():
            factory = await start_background_task_factory(exception_handler=handler)
            handle = factory.start_task_soon(taskfunc, "crasher")
            await sleep_forever()

    leaves = leaf_exceptions(excinfo.value)
    assert len(leaves) == 1
    assert isinstance(leaves[0], LookupError)
    assert leaves[0] is seen[0]
    assert len(seen) == 1
    assert handle is not None
    with fail_after(1):
        await handle.wait_finished()


async def test_no_handler_propagates_exception(caplog: LogCaptureFixture) -> None:
    async def taskfunc() -> NoReturn:
        raise LookupError("nobody handles me")

    caplog.set_level(logging.DEBUG, "asphalt.core")
    with pytest.raises(ExceptionGroup) as excinfo:
        async with Context():
            factory = await start_background_task_factory()
            await factory.start_task(taskfunc, "crasher")
            await sleep_forever()

    leaves = leaf_exceptions(excinfo.value)
    assert [type(exc) for exc in leaves] == [LookupError]
    crash_records = [
        rec
        for rec in caplog.records
        if rec.getMessage() == "Background task (crasher) crashed"
    ]
    assert len(crash_records) == 1
    assert crash_records[0].exc_info is not None
    assert crash_records[0].exc_info[1] is leaves[0]


async def test_handler_raising_replaces_exception() -> None:
    def handler(exc: Exception) -> bool:
        raise KeyError("handler failed")

    async def taskfunc() -> NoReturn:
        raise LookupError("original")

    with pytest.raises(ExceptionGroup) as excinfo:
        async with Context():
            factory = await start_background_task_factory(exception_handler=handler)
            await factory.start_task(taskfunc, "crasher")
            await sleep_forever()

    leaves = leaf_exceptions(excinfo.value)
    assert len(leaves) == 1
    assert isinstance(leaves[0], KeyError)
    assert isinstance(leaves[0].__context__, LookupError)


async def test_cancellation_does_not_reach_handler(caplog: LogCaptureFixture) -> None:
    def handler(exc: Exception) -> bool:
        seen.append(exc)
        return True

    async def taskfunc() -> None:
        started.set()
        await sleep_forever()

    seen: list[Exception] = []
    started = Event()
    caplog.set_level(logging.DEBUG, "asphalt.core")
    async with Context():
        factory = await start_background_task_factory(exception_handler=handler)
        handle = factory.start_task_soon(taskfunc, "sleeper")
        await started.wait()
        handle.cancel()
        with fail_after(1):
            await handle.wait_finished()

    assert seen == []
    messages = [rec.getMessage() for rec in caplog.records]
    assert "Background task (sleeper) crashed" not in messages
    # A task cancelled through its own handle counts as finished
    assert "Background task (sleeper) finished successfully" in messages


async def test_service_task_crash_propagates() -> None:
    async def service() -> NoReturn:
        raise OSError("service down")

    # The context's own task group coalesces a lone exception
    with pytest.raises(OSError, match="^service down$"):
        async with Context():
            await start_service_task(service, "svc")
            await sleep_forever()
