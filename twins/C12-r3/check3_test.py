"""
Behaviour check for refactoring 3 (current_context() moved next to the context
variable it reads, and rewritten with an assignment expression).

Exercises current_context() itself (and the module level shortcuts built on it) with
many concurrent tasks that each enter and leave their own context stacks, with
different exit routes and forced interleavings. Only the public API is used.
"""

from __future__ import annotations

import random
import sys
from typing import Any, get_type_hints

import anyio
import pytest
from anyio import create_task_group, sleep_forever
from anyio.abc import TaskStatus
from anyio.lowlevel import checkpoint

import asphalt.core
from asphalt.core import (
    Context,
    NoCurrentContext,
    add_resource,
    add_teardown_callback,
    context_teardown,
    current_context,
    get_resource_nowait,
    start_service_task,
)

if sys.version_info < (3, 11):
    from exceptiongroup import BaseExceptionGroup

pytestmark = pytest.mark.anyio


@pytest.fixture(params=["asyncio", "trio"])
def anyio_backend(request: Any) -> str:
    return request.param


def assert_no_current() -> None:
    with pytest.raises(NoCurrentContext) as exc_info:
        current_context()

    assert str(exc_info.value) == "there is no active context"
    assert exc_info.value.args == ("there is no active context",)
    assert exc_info.value.__cause__ is None


def test_function_metadata() -> None:
    assert asphalt.core.current_context is current_context
    assert current_context.__name__ == "current_context"
    assert current_context.__module__ == "asphalt.core"
    assert get_type_hints(
        current_context, vars(sys.modules["asphalt.core._context"])
    ) == {"return": Context}
    assert "currently active context" in (current_context.__doc__ or "")


def test_no_context_outside_event_loop() -> None:
    assert_no_current()
    # Repeated calls keep raising fresh exceptions
    assert_no_current()


async def test_shortcuts_use_current_context() -> None:
    for func, args in [
        (add_resource, ("x",)),
        (add_teardown_callback, (lambda: None,)),
        (get_resource_nowait, (str,)),
    ]:
        with pytest.raises(NoCurrentContext):
            func(*args)

    torn_down: list[str] = []
    async with Context() as outer:
        add_resource("outer", "which")
        add_teardown_callback(lambda: torn_down.append("outer"))
        async with Context() as inner:
            add_resource("inner", "which2")
            add_teardown_callback(lambda: torn_down.append("inner"))
            assert get_resource_nowait(str, "which") == "outer"
            assert get_resource_nowait(str, "which2") == "inner"
            assert current_context() is inner

        assert torn_down == ["inner"]
        assert get_resource_nowait(str, "which2", optional=True) is None
        assert current_context() is outer

    assert torn_down == ["inner", "outer"]
    assert_no_current()


async def test_context_teardown_binds_to_current_context() -> None:
    events: list[tuple[str, Any]] = []

    @context_teardown
    async def setup(label: str):  # type: ignore[no-untyped-def]
        events.append((f"setup {label}", current_context()))
        exception = yield
        events.append((f"teardown {label}", (current_context(), exception)))

    with pytest.raises(NoCurrentContext):
        await setup("nowhere")

    assert events == []
    async with Context() as outer:
        await setup("outer")
        with pytest.raises(ValueError) as exc_info:
            async with Context() as inner:
                await setup("inner")
                raise ValueError("x")

        assert events == [
            ("setup outer", outer),
            ("setup inner", inner),
            ("teardown inner", (inner, exc_info.value)),
        ]
        assert current_context() is outer

    assert events[-1] == ("teardown outer", (outer, None))
    assert_no_current()


class Leave(Exception):
    pass


def leaves(exc: BaseException) -> list[BaseException]:
    if isinstance(exc, BaseExceptionGroup):
        return [leaf for sub in exc.exceptions for leaf in leaves(sub)]

    return [exc]


async def stack_worker(
    index: int, base: Context | None, rng: random.Random, log: list[str]
) -> None:
    """
    Repeatedly push and pop contexts on this task's own stack, with checkpoints in
    between so that other workers get to run, verifying the current context at each
    step against a locally tracked model of the stack.
    """

    def check(expected: Context | None) -> None:
        if expected is None:
            assert_no_current()
        else:
            assert current_context() is expected

    async def level(depth: int, expected_parent: Context | None) -> None:
        check(expected_parent)
        ctx = Context()
        assert ctx.parent is expected_parent
        route = rng.choice(["normal", "exception", "teardown"])
        try:
            async with ctx:
                check(ctx)
                ctx.add_resource(index, f"owner_{depth}")
                await checkpoint()
                check(ctx)
                if depth < 4 and rng.random() < 0.8:
                    for _ in range(rng.randint(1, 2)):
                        await level(depth + 1, ctx)
                        check(ctx)
                        await checkpoint()

                # Only this task's resources are ever visible
                for d in range(depth + 1):
                    assert get_resource_nowait(int, f"owner_{d}") == index

                check(ctx)
                if route == "exception":
                    raise Leave
                elif route == "teardown":

                    def fail() -> None:
                        check(ctx)
                        raise Leave

                    ctx.add_teardown_callback(fail)
        except Leave:
            assert route == "exception"
        except BaseExceptionGroup as excgrp:
            assert route == "teardown"
            # (a root context's task group may wrap the group in another group)
            assert [type(exc) for exc in leaves(excgrp)] == [Leave]

        assert ctx.closed
        check(expected_parent)

    check(base)
    for _ in range(3):
        await level(0, base)
        await checkpoint()

    check(base)
    log.append(f"worker {index} done")


@pytest.mark.parametrize("num_tasks", [1, 2, 7, 25])
@pytest.mark.parametrize("with_base", [False, True], ids=["rootless", "in_context"])
async def test_concurrent_stacks_do_not_interfere(
    num_tasks: int, with_base: bool
) -> None:
    log: list[str] = []

    async def run(base: Context | None) -> None:
        async with create_task_group() as tg:
            for index in range(num_tasks):
                rng = random.Random(1000 * num_tasks + index)
                tg.start_soon(stack_worker, index, base, rng, log)

            # The spawning task keeps its own view all the while
            for _ in range(5):
                await checkpoint()
                if base is None:
                    assert_no_current()
                else:
                    assert current_context() is base

    if with_base:
        async with Context() as base:
            await run(base)
            assert current_context() is base
    else:
        await run(None)

    assert sorted(log) == sorted(f"worker {i} done" for i in range(num_tasks))
    assert_no_current()


async def test_lockstep_interleaving_and_cancellation() -> None:
    """
    Two tasks enter and leave contexts in a strictly alternating order enforced by
    events; a third is cancelled while deep in its own stack.
    """
    steps: list[str] = []
    turn = {"a": anyio.Event(), "b": anyio.Event()}

    async def handoff(me: str, other: str) -> None:
        turn[other].set()
        await turn[me].wait()
        turn[me] = anyio.Event()

    async def player(me: str, other: str, first: bool) -> None:
        if not first:
            await turn[me].wait()
            turn[me] = anyio.Event()

        assert current_context() is root
        async with Context() as one:
            steps.append(f"{me} enter 1")
            await handoff(me, other)
            assert current_context() is one
            async with Context() as two:
                steps.append(f"{me} enter 2")
                await handoff(me, other)
                assert current_context() is two
                assert two.parent is one

            steps.append(f"{me} exit 2")
            await handoff(me, other)
            assert current_context() is one

        steps.append(f"{me} exit 1")
        assert current_context() is root
        turn[other].set()

    async def victim(*, task_status: TaskStatus[None]) -> None:
        try:
            async with Context() as v1:
                async with Context() as v2:
                    assert v2.parent is v1
                    task_status.started()
                    try:
                        await sleep_forever()
                    finally:
                        assert current_context() is v2
        finally:
            assert current_context() is root
            steps.append("victim cancelled")

    async with Context() as root:
        async with create_task_group() as tg:
            await tg.start(victim)
            async with create_task_group() as players:
                players.start_soon(player, "a", "b", True)
                players.start_soon(player, "b", "a", False)

            assert current_context() is root
            tg.cancel_scope.cancel()

        assert current_context() is root

    assert steps == [
        "a enter 1",
        "b enter 1",
        "a enter 2",
        "b enter 2",
        "a exit 2",
        "b exit 2",
        "a exit 1",
        "b exit 1",
        "victim cancelled",
    ]
    assert_no_current()


async def test_service_tasks_run_in_child_of_spawning_context() -> None:
    seen: dict[str, tuple[Context, Context | None]] = {}

    async def service(label: str) -> None:
        ctx = current_context()
        seen[label] = (ctx, ctx.parent)
        async with Context() as nested:
            assert nested.parent is ctx
            await checkpoint()

        assert current_context() is ctx

    with pytest.raises(NoCurrentContext):
        await start_service_task(lambda: service("never"), "never")

    async with Context() as root:
        await start_service_task(lambda: service("root"), "root service")
        async with Context() as inner:
            await start_service_task(lambda: service("inner"), "inner service")
            assert current_context() is inner
            await anyio.wait_all_tasks_blocked()

        assert current_context() is root
        await anyio.wait_all_tasks_blocked()

    assert set(seen) == {"root", "inner"}
    assert seen["root"][1] is root
    assert seen["inner"][1] is inner
    assert seen["root"][0] is not root
    assert seen["inner"][0] is not inner
    assert_no_current()
