"""
Property C10 checks (events reach exactly the active subscribers, exactly once, in
dispatch order) - written to pass on the unchanged source and with refactor2 applied.

Emphasis of this file: what happens when a stream is entered - the signal collection
(lists, tuples, iterators, many signals, several instances), the queue sizes (0, 1,
large ints, math.inf), rejected arguments, and that a failed entry leaves nothing
subscribed.
"""

from __future__ import annotations

import math
import sys
import random
import time
import warnings
from collections import deque
from typing import Any, Callable

import anyio
import pytest
from anyio import create_task_group, fail_after, move_on_after, sleep
from anyio.abc import TaskStatus
from anyio.lowlevel import checkpoint

from asphalt.core import Event, Signal, SignalQueueFull, stream_events, wait_event
from asphalt.core._exceptions import UnboundSignal

pytestmark = pytest.mark.anyio()


@pytest.fixture(params=["asyncio", "trio"])
def anyio_backend(request: pytest.FixtureRequest) -> str:
    return request.param


class NumEvent(Event):
    def __init__(self, num: int):
        self.num = num


class Source:
    alpha = Signal(NumEvent)
    beta = Signal(NumEvent)

    def __init__(self, name: str):
        self.name = name


FILTERS: dict[str, Callable[[NumEvent], bool] | None] = {
    "all": None,
    "even": lambda e: e.num % 2 == 0,
    "mod3": lambda e: e.num % 3 == 0,
    "none": lambda e: False,
}


class ModelSubscriber:
    def __init__(self, signals: list[Any], filter_name: str, cap: float):
        self.signals = signals
        self.filter = FILTERS[filter_name]
        self.cap = cap
        self.queue: deque[NumEvent] = deque()
        self.cm: Any = None
        self.stream: Any = None

    def passes(self, event: NumEvent) -> bool:
        return self.filter is None or bool(self.filter(event))

    def has_match(self) -> bool:
        return any(self.passes(e) for e in self.queue)

    def pop_match(self) -> NumEvent:
        while True:
            event = self.queue.popleft()
            if self.passes(event):
                return event


async def assert_nothing_more(sub: ModelSubscriber) -> None:
    """The stream must not hold any further matching event."""
    while sub.has_match():
        with fail_after(2):
            got = await sub.stream.__anext__()
        assert got is sub.pop_match()

    with move_on_after(0.01) as scope:
        extra = await sub.stream.__anext__()
        pytest.fail(f"unexpected extra event {extra!r}")

    assert scope.cancelled_caught
    sub.queue.clear()


@pytest.mark.parametrize("seed", range(12))
async def test_random_histories_against_model(seed: int) -> None:
    rng = random.Random(seed)
    sources = [Source("s1"), Source("s2")]
    signals = [(src, name) for src in sources for name in ("alpha", "beta")]
    subscribers: list[ModelSubscriber] = []
    counter = 0

    for _step in range(120):
        op = rng.choice(["sub", "dispatch", "dispatch", "dispatch", "consume", "unsub"])
        if op == "sub" and len(subscribers) < 5:
            chosen = rng.sample(signals, rng.randint(1, len(signals)))
            sub = ModelSubscriber(
                chosen,
                rng.choice(list(FILTERS)),
                rng.choice([1, 2, 3, 5, math.inf]),
            )
            bound = [getattr(src, name) for src, name in chosen]
            if len(bound) == 1 and rng.random() < 0.5:
                sub.cm = bound[0].stream_events(sub.filter, max_queue_size=sub.cap)
            else:
                sub.cm = stream_events(bound, sub.filter, max_queue_size=sub.cap)

            sub.stream = await sub.cm.__aenter__()
            subscribers.append(sub)
        elif op == "dispatch":
            src, name = rng.choice(signals)
            counter += 1
            event = NumEvent(counter)
            expected_overflows = 0
            for sub in subscribers:
                if (src, name) in sub.signals:
                    if len(sub.queue) < sub.cap:
                        sub.queue.append(event)
                    else:
                        expected_overflows += 1

            before = time.time()
            with warnings.catch_warnings(record=True) as caught:
                warnings.simplefilter("always")
                getattr(src, name).dispatch(event)

            after = time.time()
            assert [w.category for w in caught] == [SignalQueueFull] * expected_overflows
            assert event.source is src
            assert event.topic == name
            assert isinstance(event.time, float)
            assert before <= event.time <= after
        elif op == "consume":
            ready = [sub for sub in subscribers if sub.has_match()]
            if ready:
                sub = rng.choice(ready)
                with fail_after(2):
                    got = await sub.stream.__anext__()

                assert got is sub.pop_match()
        elif op == "unsub" and subscribers:
            sub = subscribers.pop(rng.randrange(len(subscribers)))
            if rng.random() < 0.5:
                await assert_nothing_more(sub)

            await sub.cm.__aexit__(None, None, None)

    for sub in subscribers:
        await assert_nothing_more(sub)
        await sub.cm.__aexit__(None, None, None)

    # Nobody is subscribed any more: dispatching is silent and harmless
    with warnings.catch_warnings(record=True) as caught:
        warnings.simplefilter("always")
        for src, name in signals:
            getattr(src, name).dispatch(NumEvent(-1))

    assert not caught


async def collect(stream: Any, count: int) -> list[int]:
    result = []
    with fail_after(2):
        for _ in range(count):
            result.append((await stream.__anext__()).num)

    return result


@pytest.mark.parametrize("kind", ["list", "tuple", "iterator", "dict_values"])
async def test_signal_collections(kind: str) -> None:
    s1, s2 = Source("s1"), Source("s2")
    bound = [s1.alpha, s2.alpha, s2.beta]
    signals: Any
    if kind == "list":
        signals = bound
    elif kind == "tuple":
        signals = tuple(bound)
    elif kind == "iterator":
        signals = iter(bound)
    else:
        signals = {i: sig for i, sig in enumerate(bound)}.values()

    s1.alpha.dispatch(NumEvent(-1))  # before entering: never seen
    async with stream_events(signals, lambda e: e.num != 3) as stream:
        if kind == "list":
            bound.clear()  # later changes of the caller's list are irrelevant

        s1.alpha.dispatch(NumEvent(1))
        s1.beta.dispatch(NumEvent(2))  # not subscribed
        s2.beta.dispatch(NumEvent(3))  # filtered out
        s2.alpha.dispatch(NumEvent(4))
        s2.beta.dispatch(NumEvent(5))
        s1.alpha.dispatch(NumEvent(6))
        first = await stream.__anext__()
        assert (first.num, first.source, first.topic) == (1, s1, "alpha")
        second = await stream.__anext__()
        assert (second.num, second.source, second.topic) == (4, s2, "alpha")
        third = await stream.__anext__()
        assert (third.num, third.source, third.topic) == (5, s2, "beta")
        assert await collect(stream, 1) == [6]

    # After leaving, nothing is subscribed
    with warnings.catch_warnings(record=True) as caught:
        warnings.simplefilter("always")
        for sig in (s1.alpha, s2.alpha, s2.beta):
            for i in range(60):
                sig.dispatch(NumEvent(i))

    assert not caught


@pytest.mark.parametrize("size", [1, 7, 2**40, sys.maxsize, math.inf, True])
async def test_queue_sizes(size: Any) -> None:
    src = Source("s")
    async with src.alpha.stream_events(max_queue_size=size) as stream:
        with warnings.catch_warnings(record=True) as caught:
            warnings.simplefilter("always")
            for i in range(20):
                src.alpha.dispatch(NumEvent(i))

        kept = min(size, 20)
        assert [w.category for w in caught] == [SignalQueueFull] * (20 - kept)
        assert await collect(stream, kept) == list(range(kept))
        src.alpha.dispatch(NumEvent(99))
        assert await collect(stream, 1) == [99]


async def test_zero_queue_size_delivers_only_to_a_waiting_receiver() -> None:
    src = Source("s")
    got: list[int] = []
    proceed = anyio.Event()

    async def receiver(task_status: TaskStatus[None]) -> None:
        async with src.alpha.stream_events(max_queue_size=0) as stream:
            task_status.started()
            async for event in stream:
                got.append(event.num)
                if event.num == 3:
                    break

                await proceed.wait()

    async with create_task_group() as tg:
        await tg.start(receiver)
        await sleep(0.05)  # the receiver is certainly waiting for an event now
        with warnings.catch_warnings():
            warnings.simplefilter("error")
            src.alpha.dispatch(NumEvent(2))  # handed over directly

        await sleep(0.05)  # the receiver is now blocked on "proceed", not receiving
        assert got == [2]
        with pytest.warns(SignalQueueFull):
            src.alpha.dispatch(NumEvent(-2))

        proceed.set()
        await sleep(0.05)
        src.alpha.dispatch(NumEvent(3))

    assert got == [2, 3]


@pytest.mark.parametrize("bad_size", [-1, -(2**70), 1.5, "10", None])
async def test_bad_queue_size_is_a_value_error_and_subscribes_nothing(
    bad_size: Any,
) -> None:
    src = Source("s")
    with pytest.raises(ValueError):
        async with stream_events([src.alpha, src.beta], max_queue_size=bad_size):
            pytest.fail("must not get here")

    with pytest.raises(ValueError):
        # The queue size is looked at before the signals
        async with stream_events([Source.alpha], max_queue_size=bad_size):
            pytest.fail("must not get here")

    with warnings.catch_warnings():
        warnings.simplefilter("error")
        for i in range(60):
            src.alpha.dispatch(NumEvent(i))
            src.beta.dispatch(NumEvent(i))


@pytest.mark.parametrize("position", [0, 1, 2])
async def test_unbound_signal_among_bound_ones(position: int) -> None:
    """The entry fails with UnboundSignal and leaves none of the signals subscribed."""
    s1, s2 = Source("s1"), Source("s2")
    signals = [s1.alpha, s2.beta]
    signals.insert(position, Source.alpha)
    async with s1.alpha.stream_events() as witness:
        with pytest.raises(UnboundSignal):
            async with stream_events(signals, max_queue_size=1):
                pytest.fail("must not get here")

        with pytest.raises(UnboundSignal):
            await wait_event(signals)

        with warnings.catch_warnings():
            warnings.simplefilter("error")  # a leftover size 1 queue would overflow
            for i in range(5):
                s1.alpha.dispatch(NumEvent(i))
                s2.beta.dispatch(NumEvent(i))

        assert await collect(witness, 5) == [0, 1, 2, 3, 4]


async def test_failing_body_unsubscribes() -> None:
    src = Source("s")
    with pytest.raises(RuntimeError, match="boom"):
        async with stream_events([src.alpha, src.beta], max_queue_size=1) as stream:
            src.alpha.dispatch(NumEvent(1))
            assert await collect(stream, 1) == [1]
            raise RuntimeError("boom")

    with warnings.catch_warnings():
        warnings.simplefilter("error")
        for i in range(5):
            src.alpha.dispatch(NumEvent(i))
            src.beta.dispatch(NumEvent(i))


async def test_filter_sees_every_queued_event_once_in_order() -> None:
    src = Source("s")
    seen: list[int] = []

    def flt(event: NumEvent) -> bool:
        seen.append(event.num)
        return event.num % 5 == 0

    async with stream_events([src.alpha, src.beta], flt) as stream:
        for i in range(1, 21):
            (src.alpha if i % 2 else src.beta).dispatch(NumEvent(i))

        assert await collect(stream, 4) == [5, 10, 15, 20]

    assert seen == list(range(1, 21))


async def test_wait_event_over_several_signals_and_instances() -> None:
    s1, s2 = Source("s1"), Source("s2")
    results: list[NumEvent] = []

    async def waiter(task_status: TaskStatus[None]) -> None:
        task_status.started()
        results.append(
            await wait_event((s1.alpha, s2.beta), lambda e: e.num > 10)
        )

    s2.beta.dispatch(NumEvent(50))  # too early
    async with create_task_group() as tg:
        await tg.start(waiter)
        await sleep(0.01)
        s1.beta.dispatch(NumEvent(60))  # not watched
        s1.alpha.dispatch(NumEvent(5))  # filtered
        s2.beta.dispatch(NumEvent(70))
        s1.alpha.dispatch(NumEvent(80))

    assert [e.num for e in results] == [70]
    assert results[0].source is s2 and results[0].topic == "beta"
