"""
Behaviour checks for refactoring 1 (``inject`` / ``resource`` and their helpers).

Everything goes through the public API only. Must pass both on the unchanged source and
with refactor1.diff applied.
"""

from __future__ import annotations

import gc
import sys
import warnings
import weakref
from typing import Any, Optional, Union

import pytest
from anyio import create_task_group, wait_all_tasks_blocked
from anyio.lowlevel import checkpoint

from asphalt.core import (
    AsyncResourceError,
    Context,
    NoCurrentContext,
    ResourceNotFound,
    add_resource,
    add_resource_factory,
    inject,
    resource,
)

pytestmark = pytest.mark.anyio


@pytest.fixture
def anyio_backend() -> str:
    return "asyncio"


class Marker:
    """A class only resolvable through the module globals (forward reference)."""


async def test_async_injection_all_flavours() -> None:
    @inject
    async def func(
        positional: int,
        *,
        keyword: str = "kw",
        plain: int = resource(),
        named: str = resource("alt"),
        optional_missing: Optional[float] = resource(),
        optional_present: Union[bytes, None] = resource("b"),
        reversed_union: Union[None, Marker] = resource(),
    ) -> tuple[Any, ...]:
        return (
            positional,
            keyword,
            plain,
            named,
            optional_missing,
            optional_present,
            reversed_union,
        )

    marker = Marker()
    async with Context():
        add_resource(5)
        add_resource("text", "alt")
        add_resource(b"bytes", "b")
        add_resource(marker)
        assert await func(1) == (1, "kw", 5, "text", None, b"bytes", marker)
        # Second call takes the "already resolved" path
        assert await func(2, keyword="x") == (
            2,
            "x",
            5,
            "text",
            None,
            b"bytes",
            marker,
        )

    assert func.__name__ == "func"
    assert func.__wrapped__.__name__ == "func"  # type: ignore[attr-defined]


async def test_sync_injection_all_flavours() -> None:
    @inject
    def func(
        positional: int,
        plain: int = resource(),
        named: str = resource("alt"),
        optional_missing: Optional[float] = resource(),
        optional_present: Optional[bytes] = resource("b"),
    ) -> tuple[Any, ...]:
        return positional, plain, named, optional_missing, optional_present

    async with Context():
        add_resource(5)
        add_resource("text", "alt")
        add_resource(b"bytes", "b")
        assert func(1) == (1, 5, "text", None, b"bytes")
        assert func(positional=7) == (7, 5, "text", None, b"bytes")

    assert not hasattr(func, "__await__")
    assert func.__name__ == "func"


@pytest.mark.skipif(sys.version_info < (3, 10), reason="needs PEP 604 unions")
async def test_pep604_union() -> None:
    @inject
    async def func(
        first: int | None = resource(), second: None | str = resource("s")
    ) -> tuple[Any, Any]:
        return first, second

    async with Context():
        assert await func() == (None, None)
        add_resource("value", "s")
        assert await func() == (None, "value")


async def test_resource_lookup_order_and_short_circuit() -> None:
    """
    Resources are looked up in parameter order, one at a time; a failing lookup stops
    the remaining ones and the target function is never called.
    """
    calls: list[str] = []

    def int_factory() -> int:
        calls.append("int")
        return 1

    async def str_factory() -> str:
        calls.append("str:start")
        await checkpoint()
        calls.append("str:end")
        return "s"

    def bytes_factory() -> bytes:
        calls.append("bytes")
        return b"b"

    @inject
    async def func(
        a: int = resource(),
        b: str = resource(),
        c: float = resource("missing"),
        d: bytes = resource(),
    ) -> None:
        calls.append("called")

    @inject
    async def good(
        a: int = resource(), b: str = resource(), d: bytes = resource()
    ) -> tuple[int, str, bytes]:
        calls.append("called")
        return a, b, d

    async with Context():
        add_resource_factory(int_factory)
        add_resource_factory(str_factory)
        add_resource_factory(bytes_factory)
        with pytest.raises(ResourceNotFound) as exc_info:
            await func()

        assert exc_info.value.type is float
        assert exc_info.value.name == "missing"
        assert str(exc_info.value) == (
            "no matching resource was found for type=float name='missing'"
        )
        assert calls == ["int", "str:start", "str:end"]

        del calls[:]
        assert await good() == (1, "s", b"b")
        # int and str were already generated in this context
        assert calls == ["bytes", "called"]


async def test_sync_wrapper_rejects_async_factory() -> None:
    async def factory() -> int:
        return 1

    @inject
    def func(a: int = resource()) -> int:
        return a

    async with Context():
        add_resource_factory(factory)
        with pytest.raises(AsyncResourceError):
            func()


async def test_sync_missing_resource() -> None:
    @inject
    def func(a: str = resource(), b: int = resource("nope")) -> None:
        pytest.fail("should not be called")

    async with Context():
        add_resource("x")
        with pytest.raises(ResourceNotFound) as exc_info:
            func()

        assert exc_info.value.type is int
        assert exc_info.value.name == "nope"


def test_no_current_context_sync() -> None:
    @inject
    def func(a: int = resource()) -> int:
        return a

    with pytest.raises(NoCurrentContext):
        func()


async def test_no_current_context_async() -> None:
    @inject
    async def func(a: "UndefinedName" = resource()) -> int:  # type: ignore # noqa
        return 1

    # Forward references are resolved before the context is looked up
    with pytest.raises(NameError):
        await func()

    @inject
    async def func2(a: int = resource()) -> int:
        return a

    with pytest.raises(NoCurrentContext):
        await func2()


async def test_explicit_argument_conflicts_with_injected() -> None:
    @inject
    async def func(a: int = resource()) -> int:
        return a

    @inject
    def sync_func(a: int = resource()) -> int:
        return a

    async with Context():
        add_resource(3)
        with pytest.raises(TypeError, match="multiple values for keyword argument 'a'"):
            await func(a=1)

        with pytest.raises(TypeError, match="multiple values for keyword argument 'a'"):
            sync_func(a=1)

        with pytest.raises(TypeError, match="multiple values for argument 'a'"):
            sync_func(1)


@pytest.mark.parametrize(
    "annotation",
    [
        pytest.param(Union[int, str], id="two_types"),
        pytest.param(Union[int, str, None], id="two_types_and_none"),
    ],
)
async def test_bad_union(annotation: Any) -> None:
    async def func(ok: Optional[bytes] = resource(), bad=resource("x")) -> None:  # type: ignore[no-untyped-def]
        pytest.fail("should not be called")

    func.__annotations__["bad"] = annotation
    wrapped = inject(func)
    markers = func.__kwdefaults__ or {}
    ok_marker, bad_marker = func.__defaults__  # type: ignore[misc]
    assert not markers
    async with Context():
        add_resource(1, "x")
        for _ in range(2):
            with pytest.raises(TypeError) as exc_info:
                await wrapped()

            assert str(exc_info.value) == (
                "Unions are only valid with dependency injection when there are "
                "exactly two items and other item is None"
            )
            # State of the markers after the failed resolution
            assert ok_marker.cls is bytes
            assert ok_marker.optional is True
            assert bad_marker.cls == annotation
            assert bad_marker.optional is False


def test_marker_public_face() -> None:
    marker = resource()
    assert repr(marker) == "_Dependency(name='default', optional=False)"
    assert repr(resource("foo")) == "_Dependency(name='foo', optional=False)"
    # Comparison touches the not-yet-resolved ``cls`` field
    with pytest.raises(AttributeError, match="did you forget to add the @inject"):
        marker == resource("default")

    assert marker.name == "default"
    assert marker.optional is False
    with pytest.raises(AttributeError, match="did you forget to add the @inject"):
        marker.cls

    with pytest.raises(AttributeError, match="did you forget to add the @inject"):
        marker.anything_else


def test_declaration_errors() -> None:
    def posonly(a: int = resource(), /) -> None:
        pass

    with pytest.raises(TypeError) as exc_info:
        inject(posonly)

    assert str(exc_info.value) == (
        "Cannot inject dependency to positional-only parameter 'a'"
    )

    def unannotated(x: int, foo=resource()) -> None:  # type: ignore[no-untyped-def]
        pass

    with pytest.raises(TypeError) as exc_info:
        inject(unannotated)

    assert str(exc_info.value) == (
        f"Dependency for parameter 'foo' of function "
        f"'{__name__}.test_declaration_errors.<locals>.unannotated' is missing the "
        f"type annotation"
    )

    def no_parens(x: int, foo: int = resource) -> None:
        pass

    with pytest.raises(TypeError) as exc_info:
        inject(no_parens)

    assert str(exc_info.value) == (
        f"Default value for parameter 'foo' of function "
        f"{__name__}.test_declaration_errors.<locals>.no_parens was the 'resource' "
        f"function – did you forget to add the parentheses at the end?"
    )

    # The first offending parameter (in declaration order) wins
    def several(a=resource(), b: int = resource, /) -> None:  # type: ignore[no-untyped-def]
        pass

    with pytest.raises(TypeError, match="positional-only parameter 'a'"):
        inject(several)

    def several2(a: int = resource, b=resource()) -> None:  # type: ignore[no-untyped-def]
        pass

    with pytest.raises(TypeError, match="was the 'resource' function"):
        inject(several2)

    def several3(a=resource(), b: int = resource) -> None:  # type: ignore[no-untyped-def]
        pass

    with pytest.raises(TypeError, match="parameter 'a' .* missing the type annotation"):
        inject(several3)


def test_nothing_to_inject_returns_original() -> None:
    def func(a: int, b: str = "x") -> None:
        pass

    async def afunc() -> None:
        pass

    for target in (func, afunc):
        with warnings.catch_warnings(record=True) as caught:
            warnings.simplefilter("always")
            assert inject(target) is target

        assert len(caught) == 1
        assert caught[0].category is UserWarning
        assert str(caught[0].message) == (
            f"{__name__}.test_nothing_to_inject_returns_original.<locals>."
            f"{target.__name__} does not have any injectable resources declared"
        )


async def test_local_forward_reference_and_release_of_locals() -> None:
    class LocalResource:
        pass

    class Canary:
        pass

    canary = Canary()
    canary_ref = weakref.ref(canary)

    def make() -> Any:
        local_canary = canary  # noqa: F841  (kept alive by the frame locals)

        @inject
        async def injected(res: "LocalResource" = resource()) -> Any:
            return res

        return injected

    LocalResource.__name__  # keep a reference in this frame
    func = make()
    del canary
    gc.collect()
    instance = LocalResource()
    async with Context():
        add_resource(instance)
        # The forward reference can't be resolved from make()'s locals, as the class
        # lives in *this* function's locals
        with pytest.raises(NameError):
            await func()

    gc.collect()
    alive_after_failure = canary_ref() is not None

    canary2 = Canary()
    canary2_ref = weakref.ref(canary2)

    def make2() -> Any:
        local_canary = canary2  # noqa: F841

        class Inner:
            pass

        @inject
        def injected(res: "Inner" = resource()) -> Any:
            return res

        return injected, Inner

    func2, inner_cls = make2()
    inner = inner_cls()
    async with Context():
        add_resource(inner)
        del canary2
        gc.collect()
        assert canary2_ref() is not None
        assert func2() is inner
        assert func2() is inner

    # The captured frame locals are kept after a failed resolution (for the next
    # attempt) and released after a successful one
    assert alive_after_failure is True
    gc.collect()
    assert canary2_ref() is None


async def test_concurrent_first_calls() -> None:
    """Several tasks racing through the first (forward ref resolving) call."""
    started = 0

    async def factory() -> Marker:
        nonlocal started
        started += 1
        await wait_all_tasks_blocked()
        return Marker()

    @inject
    async def func(
        idx: int, m: "Marker" = resource(), n: Optional["Marker"] = resource("n")
    ) -> None:
        results[idx] = (m, n)

    results: dict[int, Any] = {}
    async with Context():
        add_resource_factory(factory)
        async with create_task_group() as tg:
            for i in range(3):
                tg.start_soon(func, i)

    assert sorted(results) == [0, 1, 2]
    assert all(isinstance(m, Marker) and n is None for m, n in results.values())
    # Each task runs in the same context; a generated resource conflicts
    assert started >= 1


async def test_method_injection() -> None:
    class Service:
        @inject
        async def amethod(self, x: int, *, dep: str = resource()) -> tuple[Any, ...]:
            return self, x, dep

        @inject
        def method(self, x: int, *, dep: str = resource()) -> tuple[Any, ...]:
            return self, x, dep

    service = Service()
    async with Context():
        add_resource("dep")
        assert await service.amethod(1) == (service, 1, "dep")
        assert service.method(2) == (service, 2, "dep")
