"""
Behaviour check for refactoring 2 (control flow restructuring: guard clauses in the
two lookup methods, reordered branches in the ``types`` normalisation of
``add_resource`` and ``add_resource_factory``).

Exercises property C03 through the public API only.
"""

from __future__ import annotations

from collections.abc import Callable as AbcCallable
from typing import Any, Callable, Optional, Union

import pytest

from asphalt.core import (
    AsyncResourceError,
    Context,
    ResourceConflict,
    ResourceEvent,
    ResourceNotFound,
)

pytestmark = pytest.mark.anyio()


class EventLog:
    def __init__(self, ctx: Context, stream: Any) -> None:
        self.ctx = ctx
        self.stream = stream
        self.counter = 0

    async def drain(self) -> list[tuple[tuple[Any, ...], str, bool]]:
        self.counter += 1
        marker = f"sentinel_{self.counter}"
        self.ctx.add_resource(object(), marker)
        events = []
        async for event in self.stream:
            assert isinstance(event, ResourceEvent)
            if event.resource_name == marker:
                break

            events.append((event.resource_types, event.resource_name, event.is_factory))

        return events


class Base:
    pass


class Derived(Base):
    pass


async def test_lookup_outcomes() -> None:
    """All four outcomes of a lookup: static, generated, None, ResourceNotFound."""
    async with Context() as ctx:
        ctx.add_resource(Derived(), "static", types=[Base, Derived])
        ctx.add_resource_factory(Derived, "generated", types=(Base,))

        static = ctx.get_resource_nowait(Base, "static")
        assert await ctx.get_resource(Derived, "static") is static
        assert ctx.get_resource_nowait(Derived, "static", optional=True) is static
        assert await ctx.get_resource(Base, "static", optional=True) is static

        for type_, name in [(Base, "default"), (Derived, "generated"), (object, "static")]:
            assert ctx.get_resource_nowait(type_, name, optional=True) is None
            assert await ctx.get_resource(type_, name, optional=True) is None
            with pytest.raises(ResourceNotFound) as exc:
                ctx.get_resource_nowait(type_, name)
            assert exc.value.type is type_
            assert exc.value.name == name
            with pytest.raises(ResourceNotFound) as exc:
                await ctx.get_resource(type_, name, optional=False)
            assert exc.value.type is type_
            assert exc.value.name == name

        generated = await ctx.get_resource(Base, "generated", optional=True)
        assert isinstance(generated, Derived)
        assert generated is not static
        assert ctx.get_resource_nowait(Base, "generated") is generated
        assert ctx.get_resource_nowait(Base, "generated", optional=True) is generated
        assert await ctx.get_resource(Base, "generated") is generated
        # still not available under the type the factory was not registered for
        assert ctx.get_resource_nowait(Derived, "generated", optional=True) is None

    # lookups on a closed context fail before anything else
    with pytest.raises(RuntimeError, match="already been closed"):
        ctx.get_resource_nowait(Base, "static", optional=True)
    with pytest.raises(RuntimeError, match="already been closed"):
        await ctx.get_resource(Base, "nonexistent", optional=True)


async def test_falsy_resource_values_are_found() -> None:
    """Falsy (but not None) values must be treated as present."""
    async with Context() as ctx:
        ctx.add_resource(0)
        ctx.add_resource("", "empty")
        ctx.add_resource_factory(lambda: [], types=[list])
        ctx.add_resource_factory(lambda: 0, types=[int])  # shadowed by the static 0
        assert ctx.get_resource_nowait(int) == 0
        assert await ctx.get_resource(str, "empty", optional=True) == ""
        value = ctx.get_resource_nowait(list, optional=True)
        assert value == []
        assert await ctx.get_resource(list) is value
        with pytest.raises(ResourceConflict):
            ctx.add_resource(1)
        with pytest.raises(ResourceConflict):
            ctx.add_resource([1])
        assert ctx.get_resource_nowait(int) == 0
        assert ctx.get_resource_nowait(list) is value


async def test_factory_returning_none() -> None:
    """
    A factory that generates ``None``: the generated ``None`` is stored like any other
    generated value, so the factory is called only once and later lookups keep
    returning ``None``; the pair counts as taken for ``add_resource``.

    """
    calls = []

    def factory() -> Optional[int]:  # noqa: UP007
        calls.append(1)
        return None

    async with Context() as ctx:
        async with ctx.resource_added.stream_events() as stream:
            log = EventLog(ctx, stream)
            ctx.add_resource_factory(factory, types=[int])
            assert ctx.get_resource_nowait(int) is None
            assert ctx.get_resource_nowait(int, optional=True) is None
            assert await ctx.get_resource(int) is None
            assert len(calls) == 1
            with pytest.raises(ResourceConflict):
                ctx.add_resource(4)
            assert await log.drain() == [
                ((int,), "default", True),
                ((int,), "default", False),
            ]


async def test_async_factory_via_nowait_changes_nothing() -> None:
    async def factory() -> Derived:
        return Derived()

    async with Context() as ctx:
        async with ctx.resource_added.stream_events() as stream:
            log = EventLog(ctx, stream)
            ctx.add_resource_factory(factory, types=[Base, Derived])
            await log.drain()
            for optional in (False, True):
                with pytest.raises(AsyncResourceError):
                    ctx.get_resource_nowait(Base, optional=optional)  # type: ignore[call-overload]

            assert ctx.get_resources(Base) == {}
            assert await log.drain() == []
            # the pair is still free for a static resource, which then wins
            static = Derived()
            ctx.add_resource(static, types=Derived)
            assert ctx.get_resource_nowait(Derived) is static
            generated = await ctx.get_resource(Base)
            assert generated is not static
            assert await ctx.get_resource(Derived) is static
            assert ctx.get_resource_nowait(Base) is generated
            assert await log.drain() == [
                ((Derived,), "default", False),
                ((Base, Derived), "default", False),
            ]


@pytest.mark.parametrize(
    "types, expected",
    [
        pytest.param((), (Derived,), id="empty-tuple"),
        pytest.param([], (Derived,), id="empty-list"),
        pytest.param(Base, (Base,), id="single-class"),
        pytest.param([Base], (Base,), id="list-1"),
        pytest.param((Base, Derived, object), (Base, Derived, object), id="tuple-3"),
        pytest.param(
            Callable[[], int], (Callable[[], int],), id="single-generic-alias"
        ),
        pytest.param(
            [AbcCallable[..., Any], Base],
            (AbcCallable[..., Any], Base),
            id="list-with-generic-alias",
        ),
    ],
)
async def test_add_resource_types_normalisation(types: Any, expected: Any) -> None:
    value = Derived()
    async with Context() as ctx:
        async with ctx.resource_added.stream_events() as stream:
            log = EventLog(ctx, stream)
            ctx.add_resource(value, "res", types)
            assert await log.drain() == [(expected, "res", False)]
            for type_ in expected:
                assert ctx.get_resource_nowait(type_, "res") is value
                assert await ctx.get_resource(type_, "res") is value
                with pytest.raises(ResourceConflict) as exc:
                    ctx.add_resource(Derived(), "res", types=[type_])
                assert "using the name 'res'" in str(exc.value)

            assert await log.drain() == []
            if Derived not in expected:
                assert ctx.get_resource_nowait(Derived, "res", optional=True) is None


@pytest.mark.parametrize(
    "types",
    [
        pytest.param(5, id="int"),
        pytest.param("str", id="string"),
        pytest.param([Base, 5], id="list-with-int"),
        pytest.param([None], id="list-with-None"),
        pytest.param((Base, "x"), id="tuple-with-str"),
        pytest.param(Derived(), id="instance"),
        pytest.param([[Base]], id="nested"),
    ],
)
@pytest.mark.parametrize("value", [Derived(), None], ids=["value", "none"])
async def test_add_resource_invalid_types_change_nothing(
    types: Any, value: Any
) -> None:
    teardown_calls = []
    async with Context() as ctx:
        async with ctx.resource_added.stream_events() as stream:
            log = EventLog(ctx, stream)
            # invalid types win over a None value and an invalid name
            for name in ("default", "in valid"):
                with pytest.raises(TypeError) as exc:
                    ctx.add_resource(
                        value,
                        name,
                        types,
                        teardown_callback=lambda: teardown_calls.append(1),
                    )
                assert str(exc.value) == "types must be a type or sequence of types"

            assert await log.drain() == []
            for type_ in (Base, Derived, object, int, str):
                assert all(
                    name.startswith("sentinel_") for name in ctx.get_resources(type_)
                )
                assert ctx.get_resource_nowait(type_, optional=True) is None

    assert teardown_calls == []


@pytest.mark.parametrize("types", [(), [], None, 0, ""], ids=repr)
async def test_add_resource_falsy_types_use_value_type(types: Any) -> None:
    """Any falsy ``types`` argument means "use type(value)" (current behaviour)."""
    async with Context() as ctx:
        ctx.add_resource(Derived(), types=types)
        assert isinstance(ctx.get_resource_nowait(Derived), Derived)
        assert ctx.get_resource_nowait(Base, optional=True) is None
        with pytest.raises(ValueError, match='"value" must not be None'):
            ctx.add_resource(None, "other", types=types)
        assert ctx.get_resource_nowait(type(None), "other", optional=True) is None


async def test_none_value_and_bad_teardown_change_nothing() -> None:
    teardown_calls = []
    async with Context() as ctx:
        async with ctx.resource_added.stream_events() as stream:
            log = EventLog(ctx, stream)
            with pytest.raises(ValueError, match='"value" must not be None'):
                ctx.add_resource(
                    None,
                    types=[Base, Derived],
                    teardown_callback=lambda: teardown_calls.append(1),
                )

            with pytest.raises(TypeError, match="callback must be a callable"):
                ctx.add_resource(
                    Derived(),
                    types=[Base, Derived],
                    teardown_callback="not callable",  # type: ignore[arg-type]
                )

            assert await log.drain() == []
            assert ctx.get_resource_nowait(Base, optional=True) is None
            assert ctx.get_resource_nowait(Derived, optional=True) is None

            # and the same call with valid arguments then succeeds, once
            value = Derived()
            ctx.add_resource(
                value,
                types=[Base, Derived],
                teardown_callback=lambda: teardown_calls.append(2),
            )
            assert ctx.get_resource_nowait(Base) is value
            assert await log.drain() == [((Base, Derived), "default", False)]

    assert teardown_calls == [2]


async def test_conflict_on_last_type_changes_nothing() -> None:
    teardown_calls = []
    async with Context() as ctx:
        async with ctx.resource_added.stream_events() as stream:
            log = EventLog(ctx, stream)
            original = Derived()
            ctx.add_resource(original, types=Derived)
            ctx.add_resource_factory(Derived, types=[int, Derived])
            await log.drain()

            with pytest.raises(ResourceConflict) as exc:
                ctx.add_resource(
                    Derived(),
                    types=[Base, object, Derived],
                    teardown_callback=lambda: teardown_calls.append(1),
                )
            assert "Derived using the name 'default'" in str(exc.value)

            with pytest.raises(ResourceConflict) as exc:
                ctx.add_resource_factory(Derived, types=[Base, object, int])
            assert str(exc.value).endswith("resource factory for the type int")

            assert await log.drain() == []
            assert ctx.get_resource_nowait(Base, optional=True) is None
            assert ctx.get_resource_nowait(object, optional=True) is None
            assert await ctx.get_resource(Base, optional=True) is None
            assert ctx.get_resource_nowait(Derived) is original

    assert teardown_calls == []


@pytest.mark.parametrize(
    "types, expected",
    [
        pytest.param(Base, (Base,), id="single"),
        pytest.param([Base, Derived], (Base, Derived), id="list"),
        pytest.param((Derived,), (Derived,), id="tuple"),
        pytest.param((), (Derived,), id="annotation"),
    ],
)
async def test_factory_types_normalisation(types: Any, expected: Any) -> None:
    def factory() -> Derived:
        return Derived()

    async with Context() as ctx:
        async with ctx.resource_added.stream_events() as stream:
            log = EventLog(ctx, stream)
            ctx.add_resource_factory(factory, "f", types=types)
            assert await log.drain() == [(expected, "f", True)]
            value = ctx.get_resource_nowait(expected[0], "f")
            for type_ in expected:
                assert await ctx.get_resource(type_, "f") is value
                with pytest.raises(ResourceConflict):
                    ctx.add_resource_factory(factory, "f", types=[object, type_])

            assert ctx.get_resource_nowait(object, "f", optional=True) is None


async def test_factory_registration_errors_change_nothing() -> None:
    def union_factory() -> Union[int, None]:  # noqa: UP007
        return 1

    async with Context() as ctx:
        async with ctx.resource_added.stream_events() as stream:
            log = EventLog(ctx, stream)
            with pytest.raises(ValueError, match="does not have a return type hint"):
                ctx.add_resource_factory(lambda: 1)

            with pytest.raises(TypeError, match="None is not a valid resource type"):
                ctx.add_resource_factory(lambda: 1, types=[int, None])  # type: ignore[list-item]

            assert await log.drain() == []
            assert ctx.get_resource_nowait(int, optional=True) is None
            assert await ctx.get_resource(type(None), optional=True) is None
            # the pairs are all still free
            ctx.add_resource_factory(union_factory)
            assert await log.drain() == [((int, type(None)), "default", True)]
            assert ctx.get_resource_nowait(type(None)) == 1
            assert ctx.get_resource_nowait(int) == 1
