"""
Property C14 checks (layered deep merge of component configuration).

Focus of this file: the three equivalent ways of naming a component type (class,
``module:attr`` reference, entry point name), the alias as the default type, and
``kind/name`` aliases - at the root, in add_component() and in external configuration,
with several similarly named entry points registered.
"""

from __future__ import annotations

import sys
from copy import deepcopy
from typing import Any
from unittest.mock import Mock

import pytest

from asphalt.core import (
    Component,
    Context,
    add_resource,
    add_resource_factory,
    get_resource_nowait,
    get_resources,
    start_component,
)
from asphalt.core._component import component_types

if sys.version_info >= (3, 10):
    from importlib.metadata import EntryPoint
else:
    from importlib_metadata import EntryPoint

pytestmark = pytest.mark.anyio


@pytest.fixture
def anyio_backend() -> str:
    return "asyncio"


class Service(Component):
    def __init__(self, **kwargs: Any) -> None:
        self.kwargs = kwargs

    async def prepare(self) -> None:
        if self.kwargs.get("prepare_resource"):
            add_resource(self.kwargs["prepare_resource"], types=[bytes])

    async def start(self) -> None:
        add_resource(self, types=[Service])
        add_resource_factory(lambda: len(self.kwargs), types=[int])
        add_resource(self.kwargs.get("label", "?"), "label_" + self.kwargs.get("label", "x"))


class Service2(Service):
    pass


class Holder:
    """For exercising dotted attribute paths in references."""

    Inner = Service2


class Container(Component):
    def __init__(self, children: dict[str, dict[str, Any]] | None = None, **kwargs: Any):
        self.kwargs = kwargs
        for alias, options in (children or {}).items():
            self.add_component(alias, **options)


ENTRYPOINTS: dict[str, type[Component]] = {
    "service": Service,
    "services": Service2,
    "service2": Service2,
    "container": Container,
}


@pytest.fixture(autouse=True)
def plugins(monkeypatch: pytest.MonkeyPatch) -> dict[str, Mock]:
    entrypoints = {}
    for name, cls in ENTRYPOINTS.items():
        entrypoints[name] = Mock(EntryPoint)
        entrypoints[name].load.configure_mock(return_value=cls)

    monkeypatch.setattr(component_types, "_entrypoints", entrypoints)
    monkeypatch.setattr(component_types, "_resolved", {})
    return entrypoints


TYPE_SPELLINGS = [
    pytest.param(Service, id="class"),
    pytest.param(f"{__name__}:Service", id="reference"),
    pytest.param("service", id="entrypoint"),
]


@pytest.mark.parametrize("root_type", [Container, f"{__name__}:Container", "container"])
@pytest.mark.parametrize("child_type", TYPE_SPELLINGS)
async def test_equivalent_type_spellings(root_type: Any, child_type: Any) -> None:
    config = {
        "children": {
            "hard/h": {"type": child_type, "label": "h", "opts": {"a": {"b": 1}}},
            "service/byalias": {"label": "byalias"},
        },
        "components": {
            "hard/h": {"opts": {"a": {"c": 2}}},
            "ext/e": {"type": child_type, "label": "e", "prepare_resource": b"p"},
            "service/cfgonly": None,
            "services": {"label": "plural"},
            "deep/d": {
                "type": root_type,
                "children": {"x/inner": {"type": child_type, "label": "inner"}},
                "components": {
                    "x/inner": {"extra": [1]},
                    "y/dotted": {"type": f"{__name__}:Holder.Inner", "label": "dotted"},
                },
            },
        },
    }
    pristine = deepcopy(config)
    trees = []
    for _ in range(2):
        async with Context():
            root = await start_component(root_type, config)
            assert type(root) is Container
            assert root.kwargs == {}  # type: ignore[attr-defined]
            services = get_resources(Service)
            trees.append({name: (type(s), s.kwargs) for name, s in services.items()})
            assert get_resources(str) == {
                f"label_{label}": label
                for label in ("h", "byalias", "e", "plural", "inner", "dotted")
            } | {"label_x": "?"}
            # Factories added in start() are renamed as well
            assert get_resource_nowait(int, "h") == 2
            assert get_resource_nowait(int, "cfgonly") == 0
            assert get_resource_nowait(int, "inner") == 2
            # ...but not what was added in prepare()
            assert get_resource_nowait(bytes) == b"p"
            assert get_resource_nowait(bytes, "e", optional=True) is None

        assert config == pristine

    assert trees[0] == trees[1]
    assert trees[0] == {
        "h": (Service, {"label": "h", "opts": {"a": {"b": 1, "c": 2}}}),
        "byalias": (Service, {"label": "byalias"}),
        "e": (Service, {"label": "e", "prepare_resource": b"p"}),
        "cfgonly": (Service, {}),
        "default": (Service2, {"label": "plural"}),
        "inner": (Service, {"label": "inner", "extra": [1]}),
        "dotted": (Service2, {"label": "dotted"}),
    }


async def test_entry_point_loaded_once_and_reused(plugins: dict[str, Mock]) -> None:
    config = {
        "components": {
            "service/a": {"label": "a"},
            "service/b": {"label": "b"},
            "third/c": {"type": "service", "label": "c"},
        }
    }
    pristine = deepcopy(config)
    for _ in range(2):
        async with Context():
            await start_component("container", config)
            assert sorted(get_resources(Service)) == ["a", "b", "c"]

    assert config == pristine
    assert plugins["service"].load.call_count == 1
    assert plugins["container"].load.call_count == 1
    assert plugins["services"].load.call_count == 0
    assert plugins["service2"].load.call_count == 0


async def test_external_type_overrides_hardcoded_type() -> None:
    class Parent(Component):
        def __init__(self) -> None:
            self.add_component("service/one", label="one", opts={"k": 1})
            self.add_component("two", Service, label="two")

    config = {
        "components": {
            "service/one": {"type": "service2"},
            "two": {"type": f"{__name__}:Service2", "opts": {"k": 2}},
        }
    }
    pristine = deepcopy(config)
    async with Context():
        await start_component(Parent, config)
        one = get_resource_nowait(Service, "one")
        two = get_resource_nowait(Service)
        assert type(one) is Service2 and one.kwargs == {"label": "one", "opts": {"k": 1}}
        assert type(two) is Service2 and two.kwargs == {"label": "two", "opts": {"k": 2}}

    assert config == pristine


async def test_unknown_entry_point_still_lookup_error() -> None:
    config = {"components": {"nonexistent": {"label": "n"}}}
    pristine = deepcopy(config)
    async with Context():
        with pytest.raises(
            LookupError,
            match="no such entry point in asphalt.components: nonexistent",
        ):
            await start_component(Container, config)

    assert config == pristine
