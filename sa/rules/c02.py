"""C02 - resources are scoped to the context tree: snapshot down, nothing up or sideways."""
from __future__ import annotations

import ast

from ..cfg import iter_own
from ..loader import AnalysisError, FuncInfo, dotted, walk_own
from . import c04
from .common import Anchors, call_name, def_use_closure, find_assign_sources, is_const, names_in, self_attr
from .discharge import controlling_tests
from .tables import expand_alias, table_mutations

SHORTCUTS = (
    "add_resource",
    "add_resource_factory",
    "get_resource",
    "get_resource_nowait",
    "get_resources",
    "add_teardown_callback",
    "start_service_task",
    "start_background_task_factory",
)


def classify_table_init(expr, table: str) -> str:
    """'fresh' | 'copy' | 'alias' | 'unknown' for the value a table attribute is bound to."""
    if isinstance(expr, ast.Dict) and not expr.keys:
        return "fresh"
    if isinstance(expr, ast.Call) and call_name(expr) == "dict" and not expr.args and not expr.keywords:
        return "fresh"
    if isinstance(expr, ast.DictComp):
        return "copy"
    if isinstance(expr, ast.Call):
        if call_name(expr) in ("dict", "copy", "deepcopy", "OrderedDict") and expr.args and isinstance(expr.func, ast.Name):
            return "copy"
        if isinstance(expr.func, ast.Attribute) and expr.func.attr == "copy" and not expr.args:
            return "copy"
        if isinstance(expr.func, ast.Attribute) and expr.func.attr == "deepcopy":
            return "copy"
    if isinstance(expr, ast.Dict) and any(k is None for k in expr.keys):
        return "copy"
    if isinstance(expr, ast.Attribute) and expr.attr == table:
        return "alias"
    if isinstance(expr, ast.Name):
        return "unknown"
    if isinstance(expr, ast.IfExp):
        a_, b_ = classify_table_init(expr.body, table), classify_table_init(expr.orelse, table)
        if "alias" in (a_, b_):
            return "alias"
        if "unknown" in (a_, b_):
            return "unknown"
        return "copy" if "copy" in (a_, b_) else "fresh"
    if isinstance(expr, ast.BoolOp):
        kinds = [classify_table_init(v, table) for v in expr.values]
        if "alias" in kinds:
            return "alias"
    return "unknown"


def forwarding(ctx, g: FuncInfo, target: FuncInfo, remap_ok: tuple = ()) -> list:
    """Problems (strings) with g forwarding all of its parameters to `target`."""
    a = ctx.a
    cfg = a.cfg(g)
    params = [p for p in g.params if p not in ("self", "cls")]
    calls = []
    for n in cfg.live_nodes():
        for call, c in a.node_calls(g, cfg, n):
            if c.kind == "func" and c.func is target:
                calls.append((n, call))
    if not calls:
        return [f"never calls {target.qualname}"]
    tpos = [p for p in target.params if p not in ("self", "cls")]
    problems = []
    for p in params:
        for n, call in calls:
            passed = None
            for i, arg in enumerate(call.args):
                if i < len(tpos) and tpos[i] == p:
                    passed = arg
            for kw in call.keywords:
                if kw.arg == p:
                    passed = kw.value
            if isinstance(passed, ast.Name) and passed.id == p:
                continue
            # boolean forwarded by branching on it and passing the literal
            from .discharge import controlling_conditions

            tests = [(e_, "t" if truth else "f") for e_, truth, _t in controlling_conditions(cfg, n) if isinstance(e_, ast.Name) and e_.id == p]
            if tests:
                lab = tests[0][1]
                if lab == "t" and passed is not None and is_const(passed, True):
                    continue
                if lab == "f" and (passed is None or is_const(passed, False)):
                    continue
            if passed is None:
                problems.append(f"parameter `{p}` is not forwarded")
            else:
                problems.append(f"parameter `{p}` is forwarded as `{ast.unparse(passed)}`")
        # positional mismatch: p passed at another parameter's position
    # a forwarded parameter is the caller's object, not a wrapper built around it
    for p in params:
        for x in walk_own(g.node):
            tg_ = []
            if isinstance(x, ast.Assign):
                tg_ = x.targets
            elif isinstance(x, (ast.AnnAssign, ast.AugAssign)) and getattr(x, "value", None) is not None:
                tg_ = [x.target]
            if any(isinstance(t_, ast.Name) and t_.id == p for t_ in tg_):
                v_ = x.value
                # harmless rebinds: a constant, an attribute of self (the default-name remap),
                # another parameter, or a normalising call that does not involve the parameter
                plain = isinstance(v_, ast.Constant) or (isinstance(v_, ast.Attribute) and dotted(v_) is not None) or (isinstance(v_, ast.Name) and v_.id in g.params)
                wraps = not plain and (any(isinstance(c_, ast.Name) and c_.id == p for c_ in ast.walk(v_)) or isinstance(v_, (ast.Name, ast.Lambda)) or any(isinstance(c_, ast.Lambda) for c_ in ast.walk(v_)))
                if wraps:
                    problems.append(f"parameter `{p}` is replaced by `{ast.unparse(v_)[:60]}` before it is forwarded")
    # the same defaults: calling the wrapper without an argument means what calling the target
    # without it means
    for p in params:
        if p in tpos:
            dg, dt = g.param_default(p), target.param_default(p)
            tg_, tt_ = (ast.unparse(dg) if dg is not None else None), (ast.unparse(dt) if dt is not None else None)
            if tg_ != tt_ and not (tg_ == "..." or tt_ == "..."):
                problems.append(f"parameter `{p}` defaults to {tg_} here but to {tt_} in {target.qualname}")
    # the result of the target is the result of the forwarder
    returns_value = any(isinstance(r, ast.Return) and r.value is not None and not (isinstance(r.value, ast.Constant) and r.value.value is None) for r in walk_own(target.node))
    # (only where the properties speak about the result: the lookups and the task starters)
    if returns_value and target.name in ("get_resource", "get_resource_nowait", "get_resources", "start_service_task", "start_background_task_factory"):
        normal = lambda s_, d_, lab: lab not in ("e", "h")  # noqa: E731
        if not cfg.all_paths_pass(cfg.entry, [cfg.exit], [n.id for n, _c in calls], edge_ok=lambda s_, d_, lab: lab != "e" or True):
            problems.append(f"some path returns without asking {target.qualname}")
        for n, call in calls:
            if n.kind == "stmt" and isinstance(n.ast, ast.Return) and n.ast.value is not None and any(x is call for x in ast.walk(n.ast.value)):
                continue
            var = None
            if n.kind == "stmt" and isinstance(n.ast, (ast.Assign, ast.AnnAssign)) and getattr(n.ast, "value", None) is not None and any(x is call for x in ast.walk(n.ast.value)):
                tg0 = (n.ast.targets if isinstance(n.ast, ast.Assign) else [n.ast.target])[0]
                var = tg0.id if isinstance(tg0, ast.Name) else None
            rets = [cfg.nodes[i] for i in cfg.reach([n.id], edge_ok=normal) if cfg.nodes[i].kind == "stmt" and isinstance(cfg.nodes[i].ast, ast.Return)]
            falls_off = cfg.exit in cfg.reach([n.id], avoid=[r.id for r in rets], edge_ok=normal)
            if var is None or falls_off or not rets or not all(isinstance(r.ast.value, ast.Name) and r.ast.value.id == var for r in rets):
                problems.append(f"the result of {target.qualname} is not what is returned")
    # arguments that are not parameters (constants replacing a parameter)
    return sorted(set(problems))


def _wrapped_is_plain(ctx, an: Anchors) -> bool:
    """The context a component context wraps is never itself a component context: the
    constructor unwraps (`if/while isinstance(c, ComponentContext): c = c.<wrapped>`) before
    it stores the wrapped context."""
    a = ctx.a
    cinit = an.ComponentContext.methods["__init__"]
    unwrap = [t for t in walk_own(cinit.node) if isinstance(t, (ast.If, ast.While)) and "isinstance" in ast.unparse(t.test) and an.ComponentContext.name in ast.unparse(t.test)]
    unwraps_to_wrapped = any(isinstance(x, ast.Assign) and isinstance(x.value, ast.Attribute) and x.value.attr == an.wrapped_attr for t in unwrap for b in t.body for x in ast.walk(b)) or any(isinstance(t, ast.While) and "isinstance" in ast.unparse(t.test) and an.ComponentContext.name in ast.unparse(t.test) and any(isinstance(x, ast.Assign) and isinstance(x.value, ast.Attribute) and x.value.attr == an.wrapped_attr for b in t.body for x in ast.walk(b)) for t in walk_own(cinit.node))
    cicfg = a.cfg(cinit)
    wstores = [n for n in cicfg.live_nodes() if n.kind == "stmt" and isinstance(n.ast, (ast.Assign, ast.AnnAssign)) and getattr(n.ast, "value", None) is not None and any(self_attr(t) == an.wrapped_attr for t in (n.ast.targets if isinstance(n.ast, ast.Assign) else [n.ast.target]))]
    utests = [t for t in cicfg.live_nodes() if t.kind == "test" and any(t.ast is u.test for u in unwrap)]
    unwrap_first = bool(wstores) and bool(utests) and all(cicfg.dominates(utests[0].id, w_.id) for w_ in wstores)
    return bool(unwrap) and unwraps_to_wrapped and unwrap_first


def run(ctx) -> None:
    rep = ctx.rep
    a = ctx.a
    an = Anchors(a)
    init = an.ctx_method("__init__")
    icfg = a.cfg(init)
    tables = (an.resource_table, an.factory_table)

    # ------------------------------------------------------------------ R1 fresh tables, bound at construction
    for table in tables:
        binds = [n for n in icfg.live_nodes() if n.kind == "stmt" and isinstance(n.ast, (ast.Assign, ast.AnnAssign)) and any(self_attr(t) == table for t in (n.ast.targets if isinstance(n.ast, ast.Assign) else [n.ast.target])) and getattr(n.ast, "value", None) is not None]
        helper_binds = []
        for h in an.init_closure[1:]:
            hcfg = a.cfg(h)
            hb = [n for n in hcfg.live_nodes() if n.kind == "stmt" and isinstance(n.ast, (ast.Assign, ast.AnnAssign)) and any(self_attr(t) == table for t in (n.ast.targets if isinstance(n.ast, ast.Assign) else [n.ast.target])) and getattr(n.ast, "value", None) is not None]
            for b in hb:
                kind = classify_table_init(b.ast.value, table)
                if kind == "alias":
                    rep.violate("C02.R1", h, b.ast, f"self.{table} is bound to the parent's table object itself (`{ast.unparse(b.ast.value)}`)")
                elif kind == "unknown":
                    rep.unrecognised("C02.R1", h, b.ast, f"cannot classify the initial value `{ast.unparse(b.ast.value)}` of self.{table}")
                else:
                    rep.hold("C02.R1", h, b.ast, f"self.{table} bound in a constructor helper ({kind})")
            if hb:
                # the helper call stands for the binding in __init__
                helper_binds += [n for n in icfg.live_nodes() if any(c.kind == "func" and c.func is h for _, c in a.node_calls(init, icfg, n))]
        if not binds and helper_binds:
            ok = icfg.all_paths_pass(icfg.entry, [icfg.exit], [b.id for b in helper_binds], edge_ok=lambda s_, d, lab: lab not in ("e", "h"))
            rep.check("C02.R1", ok, init, init.node, f"self.{table} is bound (through a constructor helper) on every path through the constructor", f"some path through the constructor leaves self.{table} unbound")
            continue
        if not binds:
            rep.violate("C02.R1", init, init.node, f"Context.__init__ does not bind self.{table}: the snapshot of the parent is not taken when the child is created")
            continue
        for b in binds:
            kind = classify_table_init(b.ast.value, table)
            if kind == "unknown" and isinstance(b.ast.value, ast.Name):
                kinds = {k for h_, node_, k, d_ in c04.inherited_content(ctx, an, table) if h_ is init}
                if "alias" in kinds:
                    kind = "alias"
                elif "unknown" not in kinds and kinds:
                    kind = "copy" if kinds & {"comp", "copy_all", "loop_store"} else "fresh"
            if kind == "alias":
                rep.violate("C02.R1", init, b.ast, f"self.{table} is bound to the parent's table object itself (`{ast.unparse(b.ast.value)}`): additions in either context show up in the other")
            elif kind == "unknown":
                rep.unrecognised("C02.R1", init, b.ast, f"cannot classify the initial value `{ast.unparse(b.ast.value)}` of self.{table}")
            else:
                rep.hold("C02.R1", init, b.ast, f"self.{table} starts as {'a new empty table' if kind == 'fresh' else 'a copy of the parent table (snapshot)'}")
        ok = icfg.all_paths_pass(icfg.entry, [icfg.exit], [b.id for b in binds] + [b.id for b in helper_binds], edge_ok=lambda s, d, lab: lab not in ("e", "h"))
        rep.check("C02.R1", ok, init, binds[0].ast, f"self.{table} is bound on every path through the constructor", f"some path through the constructor leaves self.{table} unbound / shared")
        # copies come from the parent chosen at construction
        for b in binds:
            if classify_table_init(b.ast.value, table) == "copy" and not isinstance(b.ast.value, ast.Name):
                src = {x.attr for x in ast.walk(b.ast.value) if isinstance(x, ast.Attribute)}
                rep.check("C02.R1", table in src, init, b.ast, f"the copy is taken from the parent's {table}", f"self.{table} is copied from something else than the parent's {table}")
    # no rebinding later (a snapshot taken on entry or lazily is not a snapshot at creation)
    n_sites = 0
    for table in tables:
        for f, n, m, recv in table_mutations(a, table):
            n_sites += 1
            if m.kind == "rebind" and f not in an.init_closure:
                rep.violate("C02.R1", f, m.node, f"{'.'.join(recv)}.{table} is (re)bound outside Context.__init__: the child's view is not the snapshot taken when it was created")
    rep.floor("C02.R1", n_sites, 6)

    # ------------------------------------------------------------------ R2 writes are to self only
    writes = 0
    for table in tables:
        for f, n, m, recv in table_mutations(a, table):
            if m.kind == "rebind" and f in an.init_closure:
                continue
            writes += 1
            ok = recv == ("self",) and f.owner_class is an.Context
            rep.check("C02.R2", ok, f, m.node, f"write to self.{table} inside Context", f"`{m.kind}` on {'.'.join(recv)}.{table}: a context writes into another context's table (up / sideways leak)")
    rep.floor("C02.R2", writes, 4)

    # ------------------------------------------------------------------ R3 lookups read own tables only
    parent_attr = None
    for n in walk_own(init.node):
        if isinstance(n, ast.Assign) and isinstance(n.value, ast.BoolOp) and "parent" in names_in(n.value):
            for t in n.targets:
                if self_attr(t):
                    parent_attr = self_attr(t)
    child_attr = None
    for n, m in a.func_mutations(an.ctx_method("__aenter__")):
        if m.kind == "call:add":
            child_attr = m.path[-1]
    def _helpers_of(f0, depth=2):
        """Context methods a lookup hands part of its work to (the lookups themselves and the
        lifecycle guard excluded)."""
        out, work = [], [(f0, depth)]
        seen = {id(f0)}
        while work:
            g, d = work.pop()
            for _call, c in a.func_calls(g):
                if c.kind == "func" and id(c.func) not in seen and c.func.owner_class is not None and ctx.p.is_subclass(c.func.owner_class, an.Context.name) and c.func is not an.guard and c.func.name not in ("get_resource_nowait", "get_resource", "get_resources", "add_resource", "add_resource_factory", "add_teardown_callback"):
                    seen.add(id(c.func))
                    out.append(c.func)
                    if d > 1:
                        work.append((c.func, d - 1))
        return out

    for name in ("get_resource_nowait", "get_resource", "get_resources"):
        f = an.ctx_method(name)
        reads = 0
        for h in _helpers_of(f):
            for x in walk_own(h.node):
                if isinstance(x, ast.Attribute) and x.attr in (parent_attr, child_attr) and x.attr is not None:
                    rep.violate("C02.R3", h, x, f"{name} goes through {h.name}(), which walks to `{ast.unparse(x)}`: resources / factories of other contexts become visible (or get generated there) at lookup time")
                if isinstance(x, ast.Attribute) and x.attr in tables and dotted(x.value) != "self":
                    rep.violate("C02.R3", h, x, f"{name} goes through {h.name}(), which reads `{ast.unparse(x)}`: the lookup consults another context's table")
        for x in walk_own(f.node):
            if isinstance(x, ast.Attribute) and x.attr in tables:
                reads += 1
                base = dotted(x.value)
                ok = base == "self" or any(p[:-1] == ("self",) for p in expand_alias(f, (base or "?", x.attr)) if len(p) == 2)
                rep.check("C02.R3", ok, f, x, f"{name} reads self.{x.attr}", f"{name} reads `{ast.unparse(x)}`: the lookup consults another context's table")
            if isinstance(x, ast.Attribute) and x.attr in (parent_attr, child_attr) and x.attr is not None:
                rep.violate("C02.R3", f, x, f"{name} walks to `{ast.unparse(x)}`: resources of other contexts become visible at lookup time")
        if reads == 0:
            rep.unrecognised("C02.R3", f, f.node, f"{name} reads neither table")
    # the parent's tables are read while the child is constructed - and never again
    # (a later read anywhere - entry, lookup, teardown - lets what was added to the parent
    # after the child's creation leak into the child)
    late = 0
    mutators = {id(f_) for t_ in tables for f_, _n, m_, _r in table_mutations(a, t_) if m_.kind != "rebind" or True}
    for f in ctx.p.all_functions():
        if f in an.init_closure or f.is_lambda:
            continue
        # only where the function also writes a table: that is how foreign entries get in
        # (reading another context's table for a repr / a count is harmless; lookups are R3)
        if id(f) not in mutators:
            continue
        for x in walk_own(f.node):
            if isinstance(x, ast.Attribute) and x.attr in tables and isinstance(x.ctx, ast.Load):
                base = dotted(x.value) or "?"
                own = base in ("self", f"self.{an.wrapped_attr}") or any(p[:-1] in (("self",), ("self", an.wrapped_attr)) for p in expand_alias(f, (base, x.attr)) if len(p) >= 2)
                if not own and (parent_attr in base.split(".") or base.split(".")[0] not in ("self",)):
                    late += 1
                    rep.violate("C02.R1", f, x, f"`{ast.unparse(x)}` is read in {f.qualname}, after construction: the child no longer sees exactly what was visible in its parent when it was created (later additions to the parent leak in)")
    if not late:
        rep.hold("C02.R1", init, init.node, "no context's tables are read through another context outside the constructor", nontrivial=False)
    # get_resources must select by membership of the requested type in the container's types
    gr = an.ctx_method("get_resources")
    # (comprehensions have been lowered to loops by the normalisation pre-pass)
    tparam = gr.params[1] if len(gr.params) > 1 else "type"
    gcfg = a.cfg(gr)
    filt = [t for t in gcfg.live_nodes() if t.kind == "test" and isinstance(t.ast, ast.AST) and tparam in names_in(t.ast)]
    comps = [x for x in walk_own(gr.node) if isinstance(x, (ast.DictComp, ast.ListComp, ast.GeneratorExp, ast.SetComp))]
    conds = [t.ast for t in filt] + [cond for c in comps for g_ in c.generators for cond in g_.ifs if tparam in names_in(cond)]
    by_value = [c for c in conds if any(isinstance(x, ast.Compare) and any(isinstance(o, (ast.In, ast.Eq)) for o in x.ops) and tparam in names_in(x) for x in ast.walk(c))]
    by_identity = [c for c in conds if any(isinstance(x, ast.Compare) and any(isinstance(o, (ast.Is, ast.IsNot)) for o in x.ops) and tparam in names_in(x) and not any(isinstance(k, ast.Constant) and k.value is None for k in x.comparators) for x in ast.walk(c))]
    rep.check("C02.R3", bool(by_value) and not by_identity, gr, (by_identity or conds or [gr.node])[0], "get_resources selects containers by the requested type (membership / equality, as the other lookups' dictionary keys do)", "get_resources does not filter by the requested type, or compares it by identity: equal but not identical types (list[int], Union[...]) are found by get_resource() but not listed by get_resources()")

    # ... and by the type the entry is stored UNDER (its table key), which is what the other
    # lookups hit.  The types recorded inside the container are not the same thing: generation
    # stores a container only under those of its types that are still free (setdefault), so a
    # container can name a (type, name) pair that belongs to another resource.
    key_names: set = set()
    val_names: set = set()
    for lp in [x for x in walk_own(gr.node) if isinstance(x, (ast.For, ast.comprehension))]:
        it = lp.iter
        meth = it.func.attr if isinstance(it, ast.Call) and isinstance(it.func, ast.Attribute) else None
        base = it.func.value if meth else it
        if not (isinstance(base, ast.Attribute) and base.attr == an.resource_table):
            continue
        tg = lp.target
        if meth == "items" and isinstance(tg, ast.Tuple) and len(tg.elts) == 2:
            key_names |= names_in(tg.elts[0])
            val_names |= names_in(tg.elts[1])
        elif meth == "values":
            val_names |= names_in(tg)
        elif meth in ("keys", None):
            key_names |= names_in(tg)
    if key_names or val_names:
        from .common import def_use_closure as _duc

        def _side(c) -> str:
            deps = set()
            for x in ast.walk(c):
                if isinstance(x, ast.Compare) and tparam in names_in(x):
                    for part in [x.left] + list(x.comparators):
                        if tparam not in names_in(part) or not isinstance(part, ast.Name):
                            deps |= set(_duc(gr, part)) | names_in(part)
            if deps & key_names and not (deps & val_names):
                return "key"
            if deps & val_names:
                return "value"
            return "?"

        sides = [_side(c) for c in by_value]
        partial_stores = any(m.kind == "call:setdefault" for f_ in (an.ctx_method("get_resource"), an.ctx_method("get_resource_nowait")) for _n, m in a.func_mutations(f_) if any(len(p_) >= 2 and p_[-1] == an.resource_table for p_ in expand_alias(f_, m.path)))
        if "value" in sides and partial_stores:
            bad_c = by_value[sides.index("value")]
            rep.violate("C02.R3", gr, bad_c, f"get_resources selects entries by a field of the stored container (`{ast.unparse(bad_c)}`), not by the key they are stored under: a generated resource is stored only under those of its types that are still free, so it is listed under a (type, name) pair that get_resource() / get_resource_nowait() answer with another resource")
        elif "key" in sides or not partial_stores:
            rep.hold("C02.R3", gr, by_value[0] if by_value else gr.node, "get_resources selects entries by the type they are stored under (the table key), as the other lookups do")

    # every lookup path agrees on what is visible: the sync API never answers "not there" for
    # a resource the async API produces (shared with C04.R3)
    from .common import include_fn

    include_fn(ctx, c04.sync_async_agreement, "C02.R3", only=("C04.R3",))
    # ... and injected parameters are just such lookups, made in the context current at call
    # time (shared with C19.R1; c19 adopts C02.R3 in turn, hence the entry point without includes)
    from . import c19

    include_fn(ctx, lambda sub: c19.run(sub, skip_includes=True), "C02.R3", only=("C19.R1",))

    # ------------------------------------------------------------------ R4 one API, one implementation
    mod = an.Context.module
    n_fw = 0
    for name in SHORTCUTS:
        target = an.Context.methods.get(name)
        sc = mod.functions.get(name)
        if target is None:
            raise AnalysisError(f"anchor-missing Context.{name}")
        if sc is None:
            rep.violate("C02.R4", None, None, f"module-level shortcut {name}() is missing")
        else:
            n_fw += 1
            probs = forwarding(ctx, sc, target)
            # the receiver must be current_context()
            def _is_current(sc_, recv) -> bool:
                if isinstance(recv, ast.Call) and call_name(recv) == "current_context":
                    return True
                if isinstance(recv, ast.Name):
                    srcs = find_assign_sources(sc_, recv.id)
                    return bool(srcs) and all(isinstance(v_, ast.Call) and call_name(v_) == "current_context" for v_ in srcs)
                return False

            recv_ok = any(isinstance(c.func, ast.Attribute) and _is_current(sc, c.func.value) for c, cal in a.func_calls(sc) if cal.kind == "func" and cal.func is target)
            if not recv_ok:
                probs.append("the receiver is not current_context()")
            rep.check("C02.R4", not probs, sc, sc.node, f"{name}() forwards every parameter to current_context().{name}", f"shortcut {name}(): " + "; ".join(probs))
        w = an.ComponentContext.methods.get(name)
        if w is not None:
            n_fw += 1
            probs = forwarding(ctx, w, target)
            recv_ok = any(isinstance(c.func, ast.Attribute) and self_attr(c.func.value) == an.wrapped_attr for c, cal in a.func_calls(w) if cal.kind == "func" and cal.func is target)
            if not recv_ok:
                probs.append(f"the receiver is not self.{an.wrapped_attr}")
            rep.check("C02.R4", not probs, w, w.node, f"ComponentContext.{name} forwards every parameter to the wrapped context's {name}", f"ComponentContext.{name}: " + "; ".join(probs))
    rep.floor("C02.R4", n_fw, 16)
    # the wrapped context is the real (non-component) context current at construction
    cinit = an.ComponentContext.methods["__init__"]
    unwrap = [t for t in walk_own(cinit.node) if isinstance(t, (ast.If, ast.While)) and "isinstance" in ast.unparse(t.test) and an.ComponentContext.name in ast.unparse(t.test)]
    rep.check("C02.R4", _wrapped_is_plain(ctx, an), cinit, unwrap[0] if unwrap else cinit.node, "component contexts are unwrapped when choosing the context to delegate to", "a ComponentContext may delegate to another ComponentContext (which exits sooner)")
    # every resource-related Context method is overridden by ComponentContext (no table of its own is used)
    for name in ("add_resource", "add_resource_factory", "get_resource", "get_resource_nowait", "get_resources", "add_teardown_callback", "start_service_task", "start_background_task_factory"):
        rep.check("C02.R4", name in an.ComponentContext.methods, an.ComponentContext.methods.get(name), None, f"ComponentContext overrides {name}", f"ComponentContext does not override {name}: the call lands on the component context's own (empty, short-lived) tables")

    # ------------------------------------------------------------------ R5 parent selection
    from ..dataflow import ReachingDefs
    from ..facts import Facts

    prop = an.Context.methods.get("parent")
    pattr = None
    if prop is not None:
        for r_ in walk_own(prop.node):
            if isinstance(r_, ast.Return) and self_attr(r_.value):
                pattr = self_attr(r_.value)
    pattr = pattr or parent_attr
    pparam = init.params[1] if len(init.params) > 1 else None
    ird = ReachingDefs(a, init)
    ifacts = Facts(a, init, ird)
    # definitions (of a local or of self.<parent attr>) that choose between the explicit argument and the current context
    sel = []
    for n in icfg.live_nodes():
        if n.kind == "stmt" and isinstance(n.ast, (ast.Assign, ast.AnnAssign)) and getattr(n.ast, "value", None) is not None:
            v = n.ast.value
            txt = ast.unparse(v)
            uses_var = "_current_context" in txt or ("current_context" in txt and isinstance(v, (ast.Call, ast.BoolOp)))
            uses_param = pparam in names_in(v)
            if uses_var or (uses_param and isinstance(v, ast.Name)):
                tgt = (n.ast.targets if isinstance(n.ast, ast.Assign) else [n.ast.target])[0]
                sel.append((n, v, dotted(tgt) or ast.unparse(tgt), uses_var, uses_param))
    var_defs = [x for x in sel if x[3]]
    if pattr is None or not var_defs:
        rep.violate("C02.R5", init, init.node, "the parent is not chosen as `explicit argument or current context`")
    else:
        for n, v, tgt, uses_var, uses_param in var_defs:
            if isinstance(v, ast.BoolOp) and isinstance(v.op, ast.Or):
                first_is_param = isinstance(v.values[0], ast.Name) and v.values[0].id == pparam
                rep.check("C02.R5", first_is_param and len(v.values) == 2, init, n.ast, "parent = explicit argument, else the context current at creation", f"parent is chosen as `{ast.unparse(v)}`: the explicit argument does not take precedence")
            else:
                # `if parent: P = parent else: P = <current>` (any spelling): the current context is
                # consulted only when no explicit parent was given, and the explicit one is used otherwise
                no_explicit = ifacts.implied(n.id, ast.Name(id=pparam, ctx=ast.Load()), False) or ifacts.implied(n.id, ast.parse(f"{pparam} is None", mode="eval").body, True)
                explicit_defs = [x for x in sel if x[4] and isinstance(x[1], ast.Name) and x[2] == tgt]
                rep.check("C02.R5", no_explicit and bool(explicit_defs), init, n.ast, "the current context is used only when no explicit parent was given", "the current context is consulted although an explicit parent was given (or the explicit parent is never used)")
        # `parent or <current>` / `if parent:` decide by the TRUTHINESS of a context object:
        # that is only "was a parent given" as long as contexts are always truthy
        by_truth = any(isinstance(v, ast.BoolOp) for _n, v, *_ in var_defs) or any(t.kind == "test" and isinstance(t.ast, ast.Name) and t.ast.id == pparam for t in icfg.live_nodes())
        if by_truth:
            falsy = [(ci, m) for ci in ctx.p.classes.values() if ctx.p.is_subclass(ci, an.Context.name) for m in ("__len__", "__bool__") if m in ci.methods]
            for ci, m in falsy:
                rep.violate("C02.R5", ci.methods[m], ci.methods[m].node, f"{ci.name}.{m} makes a context falsy in some states while the parent is chosen by truthiness (`parent or current`): an explicitly given but 'empty' parent is silently replaced by the current context")
            if not falsy:
                rep.hold("C02.R5", init, init.node, "contexts define neither __len__ nor __bool__: choosing the parent by truthiness means 'a parent was given'")
        # the chosen value ends up in the parent attribute
        pvars = {x[2] for x in var_defs}
        # component contexts are skipped
        skip = None
        for t in icfg.live_nodes():
            if t.kind == "test" and "isinstance" in ast.unparse(t.ast) and an.ComponentContext.name in ast.unparse(t.ast) and any(pv in ast.unparse(t.ast) for pv in pvars | {f"self.{pattr}"}):
                skip = t
        if skip is None:
            rep.violate("C02.R5", init, init.node, "component contexts are not skipped when choosing the parent (they exit sooner than the contexts created under them)")
        else:
            body = icfg.reach([d for d, lab in skip.succ if lab == "t"], avoid=[skip.id])
            re_ = [icfg.nodes[i] for i in body if icfg.nodes[i].kind == "stmt" and isinstance(icfg.nodes[i].ast, ast.Assign) and isinstance(icfg.nodes[i].ast.value, ast.Attribute) and icfg.nodes[i].ast.value.attr == an.wrapped_attr]
            rep.check("C02.R5", bool(re_), init, skip.ast, "component contexts are replaced by the real context they wrap", "the component-context skip does not move to the wrapped context")
            copies = [n for n in icfg.live_nodes() if n.kind in ("stmt", "for_iter") and icfg.own_ast(n) is not None and any(isinstance(x, ast.Attribute) and x.attr in tables and dotted(x.value) != "self" for x in iter_own(icfg.own_ast(n)))]
            # forward "may still be a ComponentContext" analysis over the constructor: the value
            # chosen as parent may be one until it has left the isinstance(.., ComponentContext)
            # loop (false edge) or is known to be None; copies must read from a cleared value
            CCN = an.ComponentContext.name

            def _var(e):
                d_ = dotted(e)
                return d_ if d_ else None

            wrapped_plain = _wrapped_is_plain(ctx, an)
            may: dict = {n.id: None for n in icfg.live_nodes()}  # node -> set of vars that may be a CC (None = unreached)
            may[icfg.entry] = set()
            work = [icfg.entry]

            def _transfer(n, inset):
                out = set(inset)
                if n.kind == "stmt" and isinstance(n.ast, (ast.Assign, ast.AnnAssign)) and getattr(n.ast, "value", None) is not None:
                    tgs = n.ast.targets if isinstance(n.ast, ast.Assign) else [n.ast.target]
                    v = n.ast.value
                    if n.id in {x[0].id for x in sel}:
                        tainted = True
                    elif isinstance(v, ast.Attribute) and v.attr == an.wrapped_attr and _var(v.value) is not None:
                        # one hop out of a component context: a plain context iff component
                        # contexts never wrap one another (C02.R4's unwrap at construction)
                        tainted = _var(v.value) in inset and not wrapped_plain
                    elif _var(v) is not None:
                        tainted = _var(v) in inset
                    else:
                        tainted = False
                    for t_ in tgs:
                        tv = _var(t_)
                        if tv is None:
                            continue
                        if tainted:
                            out.add(tv)
                        else:
                            out.discard(tv)
                return out

            def _edge(n, lab, outset):
                if n.kind != "test":
                    return outset
                e_, pol = n.ast, True
                while isinstance(e_, ast.UnaryOp) and isinstance(e_.op, ast.Not):
                    e_, pol = e_.operand, not pol
                taken = (lab == "t") == pol  # the stripped expression is true on this edge
                res = set(outset)
                if isinstance(e_, ast.Call) and call_name(e_) == "isinstance" and len(e_.args) == 2 and CCN in ast.unparse(e_.args[1]) and _var(e_.args[0]):
                    if not taken:
                        res.discard(_var(e_.args[0]))
                elif isinstance(e_, ast.Compare) and len(e_.ops) == 1 and isinstance(e_.comparators[0], ast.Constant) and e_.comparators[0].value is None and _var(e_.left):
                    is_none = isinstance(e_.ops[0], ast.Is) == taken
                    if is_none:
                        res.discard(_var(e_.left))
                elif _var(e_) is not None and not taken:
                    res.discard(_var(e_))  # falsy: not a context object at all
                return res

            while work:
                nid = work.pop()
                n = icfg.nodes[nid]
                outset = _transfer(n, may[nid])
                for d_, lab in n.succ:
                    if lab in ("e", "h"):
                        continue
                    s_ = _edge(n, lab, outset)
                    if may[d_] is None or not s_ <= may[d_]:
                        may[d_] = (may[d_] or set()) | s_
                        work.append(d_)
            dirty = []
            for c in copies:
                inset = may.get(c.id) or set()
                for x in iter_own(icfg.own_ast(c)):
                    if isinstance(x, ast.Attribute) and x.attr in tables and dotted(x.value) != "self" and (dotted(x.value) or "") in inset:
                        dirty.append((c, x))
            rep.check("C02.R5", bool(copies) and not dirty, init, dirty[0][0].ast if dirty and isinstance(dirty[0][0].ast, ast.AST) else skip.ast, "whatever the parent's tables are read from has left the component-context skip (or is None) on every path", f"`{ast.unparse(dirty[0][1]) if dirty else ''}` may still be a ComponentContext when its tables are copied: the child snapshots the component context's stale tables")
        # nothing else moves the parent link: every other (re)definition of the chosen value
        # must be a plain copy of it or the component-context skip
        sel_nodes = {x[0].id for x in sel}
        for n in icfg.live_nodes():
            if n.kind != "stmt" or not isinstance(n.ast, (ast.Assign, ast.AnnAssign)) or getattr(n.ast, "value", None) is None or n.id in sel_nodes:
                continue
            tg = (n.ast.targets if isinstance(n.ast, ast.Assign) else [n.ast.target])[0]
            tname = dotted(tg) or ""
            if tname not in pvars | {f"self.{pattr}"}:
                continue
            v = n.ast.value
            plain_copy = (isinstance(v, ast.Name) and (v.id in pvars or v.id == pparam)) or (dotted(v) or "") in pvars | {f"self.{pattr}"}
            is_skip = isinstance(v, ast.Attribute) and v.attr == an.wrapped_attr and (dotted(v.value) or "") in pvars | {f"self.{pattr}"}
            none_when_none = isinstance(v, ast.Constant) and v.value is None and any(ifacts.implied(n.id, ast.parse(f"{pv} is None", mode="eval").body, True) for pv in pvars | {f"self.{pattr}"} if pv != tname)
            rep.check("C02.R5", plain_copy or is_skip or none_when_none, init, n.ast, "the chosen parent is only copied or unwrapped from a component context", f"`{ast.unparse(n.ast)}` moves the parent link away from the chosen context (explicit argument / context current at creation): the new context inherits from, and is attached to, a different context")
        stores = [n for n in icfg.live_nodes() if n.kind == "stmt" and isinstance(n.ast, (ast.Assign, ast.AnnAssign)) and any(self_attr(t) == pattr for t in (n.ast.targets if isinstance(n.ast, ast.Assign) else [n.ast.target]))]
        rep.check("C02.R5", bool(stores) and icfg.all_paths_pass(icfg.entry, [icfg.exit], [x.id for x in stores], edge_ok=lambda s_, d_, lab: lab not in ("e", "h")), init, stores[0].ast if stores else init.node, f"self.{pattr} is set on every path through the constructor", "some path leaves the parent link unset")

    # ------------------------------------------------------------------ R6 generated values not inherited
    c04.rule_r2(ctx, an, rule="C02.R6")
    rep.assume("dict semantics (a copy does not observe later writes to the original)")
