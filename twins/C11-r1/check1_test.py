"""
Behaviour check for refactoring 1 (C11): binding of Signal descriptors.

Exercises ``Signal.__get__`` through the public API only: identity of bound signals,
independence across attributes / instances / subclasses, first-access order,
class-level access, UnboundSignal, and that binding never keeps the owner alive.
"""

from __future__ import annotations

import gc
import itertools
import weakref

import pytest
from anyio import fail_after
from anyio.lowlevel import checkpoint

from asphalt.core import Event, Signal, UnboundSignal, stream_events, wait_event

pytestmark = pytest.mark.anyio


@pytest.fixture
def anyio_backend() -> str:
    return "asyncio"


class AEvent(Event):
    def __init__(self, payload: object = None) -> None:
        self.payload = payload


class BEvent(Event):
    pass


class Base:
    alpha = Signal(AEvent)
    beta = Signal(BEvent)


class Derived(Base):
    gamma = Signal(AEvent)


class Overriding(Base):
    alpha = Signal(BEvent)  # shadows Base.alpha with another declaration


NAMES = {"alpha": AEvent, "beta": BEvent, "gamma": AEvent}


def test_class_access_returns_declaration() -> None:
    assert Base.alpha is Base.__dict__["alpha"]
    assert Derived.alpha is Base.__dict__["alpha"]
    assert Derived.gamma is Derived.__dict__["gamma"]
    assert Overriding.alpha is Overriding.__dict__["alpha"]
    assert Overriding.alpha is not Base.alpha
    assert Base.alpha.event_class is AEvent


@pytest.mark.parametrize("order", list(itertools.permutations(sorted(NAMES))))
def test_same_bound_signal_any_first_access_order(order: tuple[str, ...]) -> None:
    objs = [Derived() for _ in range(3)]
    first: dict[tuple[int, str], Signal] = {}
    # first access, attribute-major, in the given order
    for name in order:
        for i, obj in enumerate(objs):
            first[i, name] = getattr(obj, name)

    # repeat accesses in a different (instance-major, reversed) order
    for i, obj in reversed(list(enumerate(objs))):
        for name in reversed(order):
            assert getattr(obj, name) is first[i, name]

    # all 9 channels are distinct objects, none is the declaration
    assert len({id(s) for s in first.values()}) == 9
    for (i, name), sig in first.items():
        assert sig is not getattr(Derived, name)
        assert sig.event_class is NAMES[name]


async def test_bound_signal_carries_topic_event_class_and_source() -> None:
    objs = [Derived(), Derived(), Base(), Overriding()]
    for obj in objs:
        for name, event_class in NAMES.items():
            if not hasattr(type(obj), name):
                continue
            if isinstance(obj, Overriding) and name == "alpha":
                event_class = BEvent

            signal = getattr(obj, name)
            assert signal.event_class is event_class
            async with signal.stream_events() as stream:
                event = event_class()
                signal.dispatch(event)
                with fail_after(1):
                    received = await stream.__anext__()

            assert received is event
            assert received.topic == name
            assert received.source is obj


async def test_inherited_signal_channels_are_per_instance() -> None:
    base, derived1, derived2 = Base(), Derived(), Derived()
    received: dict[str, list[Event]] = {"base": [], "d1": [], "d2": []}
    async with (
        base.alpha.stream_events() as s_base,
        derived1.alpha.stream_events() as s_d1,
        derived2.alpha.stream_events() as s_d2,
    ):
        e_base, e_d1, e_d2 = AEvent("base"), AEvent("d1"), AEvent("d2")
        derived2.alpha.dispatch(e_d2)
        base.alpha.dispatch(e_base)
        derived1.alpha.dispatch(e_d1)
        await checkpoint()
        for key, stream in (("base", s_base), ("d1", s_d1), ("d2", s_d2)):
            with fail_after(1):
                received[key].append(await stream.__anext__())

        # nothing else is queued anywhere
        derived1.gamma.dispatch(AEvent("noise"))
        derived1.beta.dispatch(BEvent())
        marker = {"base": AEvent("m"), "d1": AEvent("m"), "d2": AEvent("m")}
        base.alpha.dispatch(marker["base"])
        derived1.alpha.dispatch(marker["d1"])
        derived2.alpha.dispatch(marker["d2"])
        for key, stream in (("base", s_base), ("d1", s_d1), ("d2", s_d2)):
            with fail_after(1):
                assert await stream.__anext__() is marker[key]

    assert received == {"base": [e_base], "d1": [e_d1], "d2": [e_d2]}


async def test_unbound_signal_usage_raises() -> None:
    for declaration, event in (
        (Base.alpha, AEvent()),
        (Derived.beta, BEvent()),
        (Derived.gamma, AEvent()),
    ):
        with pytest.raises(UnboundSignal):
            declaration.dispatch(event)

        # also when the event is of the wrong class: unbound check comes first
        with pytest.raises(UnboundSignal):
            declaration.dispatch(object())  # type: ignore[arg-type]

        with pytest.raises(UnboundSignal):
            async with declaration.stream_events():
                pass

        with pytest.raises(UnboundSignal):
            async with stream_events([declaration]):
                pass

        with pytest.raises(UnboundSignal):
            await declaration.wait_event()

        with pytest.raises(UnboundSignal):
            await wait_event([declaration])


async def test_unbound_in_signal_list_leaves_bound_ones_unsubscribed() -> None:
    obj = Base()
    with pytest.raises(UnboundSignal):
        async with stream_events([obj.alpha, Base.alpha]):
            pass

    # obj.alpha still works as an independent channel afterwards
    async with obj.alpha.stream_events() as stream:
        event = AEvent()
        obj.alpha.dispatch(event)
        with fail_after(1):
            assert await stream.__anext__() is event


def test_using_class_signal_stays_unbound_after_instances_bound() -> None:
    objs = [Base() for _ in range(4)]
    for obj in objs:
        obj.alpha, obj.beta
    with pytest.raises(UnboundSignal):
        Base.alpha.dispatch(AEvent())
    with pytest.raises(UnboundSignal):
        Base.beta.dispatch(BEvent())


def test_binding_does_not_keep_instance_alive() -> None:
    refs = []
    signals = []
    for _ in range(5):
        obj = Derived()
        signals.append((obj.alpha, obj.beta, obj.gamma))
        refs.append(weakref.ref(obj))
        del obj

    gc.collect()
    assert all(ref() is None for ref in refs)

    # A bound signal that outlived its instance reports no source
    alpha = signals[0][0]
    alpha.dispatch(AEvent())  # still bound: no UnboundSignal, no subscribers

    # new instances get fresh channels, distinct from the surviving ones
    fresh = Derived()
    survivors = {id(s) for triple in signals for s in triple}
    assert id(fresh.alpha) not in survivors
    assert fresh.alpha is fresh.alpha


async def test_dead_instance_source_is_none() -> None:
    obj = Base()
    signal = obj.alpha
    async with signal.stream_events() as stream:
        del obj
        gc.collect()
        event = AEvent()
        signal.dispatch(event)
        with fail_after(1):
            received = await stream.__anext__()

    assert received is event
    assert received.source is None
    assert received.topic == "alpha"


def test_instance_without_weakref_support_is_rejected() -> None:
    class Slotted:
        __slots__ = ()
        sig = Signal(AEvent)

    obj = Slotted()
    with pytest.raises(TypeError, match="weak reference"):
        obj.sig


def test_signal_assigned_after_class_creation_has_no_topic() -> None:
    class Late:
        pass

    Late.sig = Signal(AEvent)  # type: ignore[attr-defined]  # no __set_name__ call
    obj = Late()
    with pytest.raises(AttributeError) as exc_info:
        obj.sig  # type: ignore[attr-defined]

    assert isinstance(exc_info.value.__context__, KeyError)
    # and nothing was cached: the failure repeats
    with pytest.raises(AttributeError):
        obj.sig  # type: ignore[attr-defined]
