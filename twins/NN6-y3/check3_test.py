"""
Behaviour checks for refactoring 3 (sync/async lookup twins share helpers, loops
became comprehensions, closure-local names renamed).

Focus: what happens on every call of an injected function - the order of the
lookups, how required and optional dependencies are requested from the context,
which errors surface (and when, relative to the wrapped function being called),
parity between the sync and async wrappers, and cancellation of an async lookup.
"""

from __future__ import annotations

from typing import Any, Optional

import anyio
import pytest
from anyio import create_task_group, wait_all_tasks_blocked

from asphalt.core import (
    AsyncResourceError,
    Context,
    NoCurrentContext,
    ResourceNotFound,
    add_resource,
    add_resource_factory,
    get_resource_nowait,
    inject,
    resource,
)

pytestmark = pytest.mark.anyio()


class Alpha:
    pass


class Beta:
    pass


class Gamma:
    pass


class RecordingContext(Context):
    """Records exactly how the wrappers ask for the resources."""

    def __init__(self) -> None:
        super().__init__()
        self.calls: list[tuple[str, tuple[Any, ...], dict[str, Any]]] = []

    def get_resource_nowait(self, *args: Any, **kwargs: Any) -> Any:
        self.calls.append(("nowait", args, kwargs))
        return super().get_resource_nowait(*args, **kwargs)

    async def get_resource(self, *args: Any, **kwargs: Any) -> Any:
        self.calls.append(("async", args, kwargs))
        return await super().get_resource(*args, **kwargs)


class TestLookupProtocol:
    async def test_sync_wrapper_requests(self) -> None:
        @inject
        def func(
            a: Alpha = resource(),
            b: Optional[Beta] = resource("bee"),
            *,
            c: Gamma = resource("sea"),
        ) -> Any:
            return a, b, c

        alpha, gamma = Alpha(), Gamma()
        async with RecordingContext() as ctx:
            add_resource(alpha)
            add_resource(gamma, "sea")
            assert func() == (alpha, None, gamma)
            assert ctx.calls == [
                ("nowait", (Alpha, "default"), {}),
                ("nowait", (Beta, "bee"), {"optional": True}),
                ("nowait", (Gamma, "sea"), {}),
            ]

    async def test_async_wrapper_requests(self) -> None:
        @inject
        async def func(
            a: Alpha = resource(),
            b: Optional[Beta] = resource("bee"),
            *,
            c: Gamma = resource("sea"),
        ) -> Any:
            return a, b, c

        alpha, gamma = Alpha(), Gamma()
        async with RecordingContext() as ctx:
            add_resource(alpha)
            add_resource(gamma, "sea")
            assert await func() == (alpha, None, gamma)
            assert ctx.calls == [
                ("async", (Alpha, "default"), {}),
                ("async", (Beta, "bee"), {"optional": True}),
                ("async", (Gamma, "sea"), {}),
            ]

    async def test_lookup_stops_at_first_missing_resource(self) -> None:
        produced: list[str] = []

        def make_gamma() -> Gamma:
            produced.append("gamma")
            return Gamma()

        @inject
        def sync_func(
            a: Alpha = resource(), b: Beta = resource(), c: Gamma = resource()
        ) -> Any:
            produced.append("called")

        @inject
        async def async_func(
            a: Alpha = resource(), b: Beta = resource(), c: Gamma = resource()
        ) -> Any:
            produced.append("called")

        async with RecordingContext() as ctx:
            add_resource(Alpha())
            add_resource_factory(make_gamma)
            with pytest.raises(ResourceNotFound) as exc:
                sync_func()

            assert (exc.value.type, exc.value.name) == (Beta, "default")
            with pytest.raises(ResourceNotFound) as exc:
                await async_func()

            assert (exc.value.type, exc.value.name) == (Beta, "default")
            assert [call[1][0] for call in ctx.calls] == [Alpha, Beta, Alpha, Beta]
            assert produced == []

    async def test_context_is_looked_up_on_every_call(self) -> None:
        @inject
        def sync_func(a: Alpha = resource()) -> Alpha:
            return a

        @inject
        async def async_func(a: Alpha = resource()) -> Alpha:
            return a

        @inject
        def needs_beta(b: Beta = resource()) -> Beta:
            return b

        alpha, beta = Alpha(), Beta()
        async with Context():
            add_resource(alpha)
            assert sync_func() is alpha
            with pytest.raises(ResourceNotFound):
                needs_beta()

            async with Context():
                # the child context starts out with the resources of its parent
                assert sync_func() is alpha
                assert await async_func() is alpha
                add_resource(beta)
                assert needs_beta() is beta

            # ... but what was added to the child is gone with it
            with pytest.raises(ResourceNotFound):
                needs_beta()

            assert await async_func() is alpha

        with pytest.raises(NoCurrentContext):
            sync_func()

        with pytest.raises(NoCurrentContext):
            await async_func()

    async def test_closing_context(self) -> None:
        @inject
        def func(a: Alpha = resource()) -> Alpha:
            return a

        # a teardown callback runs while the context is closing: lookups still work
        seen: list[Any] = []

        def callback() -> None:
            seen.append(func())

        alpha = Alpha()
        async with Context() as ctx:
            ctx.add_resource(alpha)
            ctx.add_teardown_callback(callback)

        assert seen == [alpha]


class TestFactories:
    async def test_sync_wrapper_with_sync_and_async_factories(self) -> None:
        made: list[str] = []

        def make_alpha() -> Alpha:
            made.append("alpha")
            return Alpha()

        async def make_beta() -> Beta:
            made.append("beta")
            return Beta()

        @inject
        def needs_alpha(a: Alpha = resource()) -> Alpha:
            return a

        @inject
        def needs_both(a: Alpha = resource(), b: Optional[Beta] = resource()) -> Any:
            return a, b

        async with Context():
            add_resource_factory(make_alpha)
            add_resource_factory(make_beta)
            first = needs_alpha()
            assert needs_alpha() is first
            assert made == ["alpha"]
            # an async factory cannot be served by the sync wrapper, optional or not
            with pytest.raises(AsyncResourceError):
                needs_both()

            assert made == ["alpha"]

    async def test_async_wrapper_awaits_async_factories(self) -> None:
        events: list[str] = []

        async def make_alpha() -> Alpha:
            events.append("alpha:start")
            await anyio.sleep(0)
            events.append("alpha:end")
            return Alpha()

        async def make_beta() -> Beta:
            events.append("beta:start")
            await anyio.sleep(0)
            events.append("beta:end")
            return Beta()

        @inject
        async def func(b: Beta = resource(), a: Optional[Alpha] = resource()) -> Any:
            events.append("body")
            return a, b

        async with Context():
            add_resource_factory(make_alpha)
            add_resource_factory(make_beta)
            a, b = await func()
            assert isinstance(a, Alpha) and isinstance(b, Beta)
            assert await func() == (a, b)
            assert get_resource_nowait(Alpha) is a

        # strictly sequential, in parameter order, all before the body runs
        assert events == [
            "beta:start",
            "beta:end",
            "alpha:start",
            "alpha:end",
            "body",
            "body",
        ]

    async def test_factory_error_propagates_unchanged(self) -> None:
        class Boom(Exception):
            pass

        def make_alpha() -> Alpha:
            raise Boom("sync")

        async def make_beta() -> Beta:
            raise Boom("async")

        @inject
        def sync_func(a: Alpha = resource()) -> Any:
            raise AssertionError("must not be called")

        @inject
        async def async_func(b: Beta = resource()) -> Any:
            raise AssertionError("must not be called")

        async with Context():
            add_resource_factory(make_alpha)
            add_resource_factory(make_beta)
            with pytest.raises(Boom, match="^sync$"):
                sync_func()

            with pytest.raises(Boom, match="^async$"):
                await async_func()


class TestCallSemantics:
    async def test_explicit_value_for_injected_parameter(self) -> None:
        looked_up: list[str] = []

        def make_alpha() -> Alpha:
            looked_up.append("alpha")
            return Alpha()

        @inject
        def sync_func(x: int, a: Alpha = resource()) -> Any:
            raise AssertionError("must not be called")

        @inject
        async def async_func(x: int, *, a: Alpha = resource()) -> Any:
            raise AssertionError("must not be called")

        async with Context():
            add_resource_factory(make_alpha)
            with pytest.raises(TypeError, match="multiple values for keyword argument 'a'"):
                sync_func(1, a=Alpha())

            # the lookup had already happened when the clash was detected
            assert looked_up == ["alpha"]
            with pytest.raises(TypeError, match="multiple values for keyword argument 'a'"):
                await async_func(1, a=Alpha())

            with pytest.raises(TypeError, match="multiple values for argument 'a'"):
                sync_func(1, Alpha())

    async def test_async_wrapper_call_is_lazy(self) -> None:
        events: list[str] = []

        def make_alpha() -> Alpha:
            events.append("lookup")
            return Alpha()

        @inject
        async def func(a: Alpha = resource()) -> Alpha:
            events.append("body")
            return a

        async with Context():
            add_resource_factory(make_alpha)
            coro = func()
            assert events == []
            result = await coro
            assert isinstance(result, Alpha)
            assert events == ["lookup", "body"]

    async def test_return_values_and_exceptions_pass_through(self) -> None:
        class Custom(Exception):
            pass

        @inject
        def sync_func(flag: bool, a: Alpha = resource()) -> Any:
            if flag:
                raise Custom(a)
            return [a]

        @inject
        async def async_func(flag: bool, a: Alpha = resource()) -> Any:
            await anyio.sleep(0)
            if flag:
                raise Custom(a)
            return [a]

        alpha = Alpha()
        async with Context():
            add_resource(alpha)
            assert sync_func(False) == [alpha]
            assert await async_func(False) == [alpha]
            with pytest.raises(Custom) as exc:
                sync_func(True)

            assert exc.value.args == (alpha,)
            with pytest.raises(Custom) as exc:
                await async_func(True)

            assert exc.value.args == (alpha,)

    async def test_sync_wrapper_around_generator_function(self) -> None:
        @inject
        def gen(n: int, a: Alpha = resource()) -> Any:
            for _ in range(n):
                yield a

        alpha = Alpha()
        async with Context():
            add_resource(alpha)
            assert list(gen(2)) == [alpha, alpha]

    async def test_cancellation_during_async_lookup(self) -> None:
        events: list[str] = []
        started = anyio.Event()

        async def slow_alpha() -> Alpha:
            events.append("factory:start")
            started.set()
            try:
                await anyio.sleep_forever()
            except BaseException as exc:
                events.append(f"factory:{type(exc).__name__}")
                raise

            raise AssertionError("unreachable")

        def make_beta() -> Beta:
            events.append("beta")
            return Beta()

        @inject
        async def func(a: Alpha = resource(), b: Beta = resource()) -> Any:
            events.append("body")

        async def runner() -> None:
            try:
                await func()
            finally:
                events.append("runner:done")

        async with Context() as ctx:
            add_resource_factory(slow_alpha)
            add_resource_factory(make_beta)
            async with create_task_group() as tg:
                tg.start_soon(runner)
                await started.wait()
                await wait_all_tasks_blocked()
                tg.cancel_scope.cancel()

            assert events[0] == "factory:start"
            assert events[1].startswith("factory:Cancel")
            assert events[2:] == ["runner:done"]
            # nothing was stored for the cancelled lookup, and the second
            # dependency was never requested
            assert ctx.get_resources(Alpha) == {}
            assert ctx.get_resources(Beta) == {}

    async def test_concurrent_first_calls(self) -> None:
        # Two tasks make the very first call at the same time; the async lookup
        # yields in between, so both go through the whole resolve-then-lookup path
        results: list[Any] = []

        async def make_alpha() -> Alpha:
            await anyio.sleep(0)
            return Alpha()

        @inject
        async def func(tag: str, a: "Alpha" = resource(), b: "Optional[Beta]" = resource()) -> None:
            results.append((tag, type(a), b))

        async with Context():
            add_resource_factory(make_alpha)
            async with create_task_group() as tg:
                tg.start_soon(func, "one")
                tg.start_soon(func, "two")

        assert sorted(results) == [("one", Alpha, None), ("two", Alpha, None)]
