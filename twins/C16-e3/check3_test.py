"""
Property check C16 (focus: precedence chain files < --set < service section, and the deep merge itself), via the ``asphalt run``
command line interface.  Must pass both on the unchanged source and with change 3.
"""

from __future__ import annotations

import copy
import random
import re
from pathlib import Path
from typing import Any
from unittest.mock import patch

import pytest
import yaml
from click.testing import CliRunner

from asphalt.core import _cli, merge_config

ERROR = object()


# --------------------------------------------------------------------------- model
def deep_merge(a: dict[str, Any], b: dict[str, Any]) -> dict[str, Any]:
    out = dict(a)
    for key, value in b.items():
        if isinstance(out.get(key), dict) and isinstance(value, dict):
            out[key] = deep_merge(out[key], value)
        else:
            out[key] = value
    return out


def expected_config(
    documents: list[dict[str, Any]],
    overrides: list[str],
    service: str | None,
    env_service: str | None,
) -> Any:
    config: dict[str, Any] = {}
    for doc in documents:
        config = deep_merge(config, copy.deepcopy(doc))

    for override in overrides:
        key, value = override.split("=", 1)
        parts = [p.replace("\\.", ".") for p in re.split(r"(?<!\\)\.", key)]
        section = config
        for part in parts[:-1]:
            section = section.setdefault(part, {})
            if not isinstance(section, dict):
                return ERROR  # cannot descend into a scalar: the command must fail

        section[parts[-1]] = yaml.safe_load(value)

    services = config.pop("services", {})
    if "component" in config:
        services.setdefault("default", {"component": config.pop("component")})

    name = service or env_service
    if not services:
        return ERROR
    if name:
        if name not in services:
            return ERROR
        selected = services[name]
    elif len(services) == 1:
        selected = next(iter(services.values()))
    elif "default" in services:
        selected = services["default"]
    else:
        return ERROR

    return deep_merge(config, selected)


# ------------------------------------------------------------------------- harness
def invoke(
    monkeypatch: pytest.MonkeyPatch,
    documents: list[dict[str, Any]],
    overrides: list[str] = [],
    service: str | None = None,
    env_service: str | None = None,
) -> Any:
    """Run ``asphalt run`` and return the config handed to run_application."""
    if env_service is None:
        monkeypatch.delenv("ASPHALT_SERVICE", raising=False)
    else:
        monkeypatch.setenv("ASPHALT_SERVICE", env_service)

    runner = CliRunner()
    with (
        runner.isolated_filesystem(),
        patch("asphalt.core._cli.run_application") as run_app,
    ):
        args = ["run"]
        if service is not None:
            args += ["--service", service]
        for i, doc in enumerate(documents):
            Path(f"conf{i}.yml").write_text(yaml.safe_dump(doc))
            args.append(f"conf{i}.yml")
        for override in overrides:
            args += ["--set", override]

        result = runner.invoke(_cli.main, args)

    if run_app.call_count == 0:
        assert result.exit_code != 0
        assert "Error" in result.output
        return ERROR

    assert result.exit_code == 0, result.output
    assert run_app.call_count == 1
    (component_type, component_config), kwargs = run_app.call_args
    config = dict(kwargs)
    config["component"] = {"type": component_type, **component_config}
    return config


def normalise(expected: Any) -> Any:
    """Add the defaults that the command supplies itself."""
    if expected is ERROR:
        return ERROR
    expected = dict(expected)
    expected.setdefault("backend", "asyncio")
    expected.setdefault("backend_options", {})
    return expected


def comp(name: str, **extra: Any) -> dict[str, Any]:
    return {"type": f"pkg.mod:{name}", **extra}


def random_tree(rng: random.Random, depth: int) -> dict[str, Any]:
    tree: dict[str, Any] = {}
    for key in rng.sample(["a", "b", "c", "d.e", "f"], rng.randint(0, 4)):
        if depth and rng.random() < 0.6:
            tree[key] = random_tree(rng, depth - 1)
        else:
            tree[key] = rng.choice([1, "x", None, True, [1, 2], {}, 2.5])
    return tree


@pytest.mark.parametrize("seed", range(40))
def test_merge_config_matches_model_and_does_not_mutate(seed: int) -> None:
    rng = random.Random(1000 + seed)
    original, overrides = random_tree(rng, 3), random_tree(rng, 3)
    original_copy, overrides_copy = copy.deepcopy(original), copy.deepcopy(overrides)
    merged = merge_config(original, overrides)
    assert merged == deep_merge(original, overrides)
    assert type(merged) is dict
    assert merged is not original
    assert original == original_copy
    assert overrides == overrides_copy
    # key order: original's keys first, then the new ones (matters for "only service")
    assert list(merged) == list(original) + [k for k in overrides if k not in original]


@pytest.mark.parametrize(
    "original, overrides, expected",
    [
        (None, None, {}),
        (None, {"a": 1}, {"a": 1}),
        ({"a": 1}, None, {"a": 1}),
        ({}, {}, {}),
        ({"a": {"b": 1}}, {"a": None}, {"a": None}),
        ({"a": None}, {"a": {"b": 1}}, {"a": {"b": 1}}),
        ({"a": {"b": {"c": 1, "d": 2}}}, {"a": {"b": {"c": 3}}}, {"a": {"b": {"c": 3, "d": 2}}}),
        ({"a.b": 1}, {"a": {"b": 2}}, {"a.b": 1, "a": {"b": 2}}),
    ],
)
def test_merge_config_corner_cases(original: Any, overrides: Any, expected: Any) -> None:
    assert merge_config(original, overrides) == expected


@pytest.mark.parametrize("seed", range(25))
def test_precedence_files_then_overrides_then_service(
    monkeypatch: pytest.MonkeyPatch, seed: int
) -> None:
    rng = random.Random(seed)
    names = rng.sample(["web", "worker", "default", "cli"], rng.randint(1, 3))
    documents: list[dict[str, Any]] = []
    for _ in range(rng.randint(1, 3)):
        doc: dict[str, Any] = {"opts": random_tree(rng, 2), "services": {}}
        for name in names:
            if rng.random() < 0.7:
                doc["services"][name] = {
                    "component": {"components": random_tree(rng, 2)},
                    "opts": random_tree(rng, 2),
                }
        documents.append(doc)

    for name in names:
        documents[-1]["services"].setdefault(name, {}).setdefault("component", {})[
            "type"
        ] = f"pkg:{name}"

    overrides = [
        "opts.a=from-set",
        "opts.b.c={deep: [1, 2]}",
        f"services.{names[0]}.opts.f=1e3",
        rf"services.{names[0]}.component.components.d\.e=false",
    ][: rng.randint(0, 4)]
    service = rng.choice([None, None, *names, "missing"])
    env_service = rng.choice([None, None, *names, "missing"])

    actual = invoke(monkeypatch, documents, overrides, service, env_service)
    assert actual == normalise(
        expected_config(documents, overrides, service, env_service)
    )


def test_precedence_explicit(monkeypatch: pytest.MonkeyPatch) -> None:
    documents = [
        {
            "max_threads": 1,
            "opts": {"from_file1": 1, "shared": "file1", "nested": {"k": "file1"}},
            "services": {
                "default": {"component": comp("Def"), "opts": {"shared": "service"}},
                "alt": {"component": comp("Alt"), "opts": {"nested": {"s": "alt"}}},
            },
        },
        {
            "max_threads": 2,
            "opts": {"from_file2": 2, "shared": "file2", "nested": {"k": "file2"}},
        },
    ]
    overrides = ["opts.nested.k=set", "opts.shared=set", "max_threads=3"]

    default = invoke(monkeypatch, documents, overrides)
    assert default["component"] == comp("Def")
    assert default["max_threads"] == 3
    assert default["opts"] == {
        "from_file1": 1,
        "from_file2": 2,
        "shared": "service",
        "nested": {"k": "set"},
    }

    for kwargs in ({"service": "alt"}, {"env_service": "alt"}):
        alt = invoke(monkeypatch, documents, overrides, **kwargs)
        assert alt["component"] == comp("Alt")
        assert alt["opts"] == {
            "from_file1": 1,
            "from_file2": 2,
            "shared": "set",
            "nested": {"k": "set", "s": "alt"},
        }

    # --service beats ASPHALT_SERVICE; unknown names fail even if a default exists
    both = invoke(monkeypatch, documents, overrides, "default", "alt")
    assert both["component"] == comp("Def")
    assert invoke(monkeypatch, documents, overrides, "nope", "alt") is ERROR
    assert invoke(monkeypatch, documents, overrides, None, "nope") is ERROR
