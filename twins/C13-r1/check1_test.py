"""
Behaviour check for refactoring 1 (``Context._ensure_state`` / ``Context.closed``).

Every guarded operation of the context API is applied in every lifecycle state and the
exact outcome (including the exact RuntimeError message, and that nothing was changed)
is asserted.
"""

from __future__ import annotations

from typing import Any

import pytest

from asphalt.core import Context, ResourceNotFound

pytestmark = pytest.mark.anyio()

NOT_ENTERED = "this context has not been entered yet"
ALREADY_ENTERED = "this context has already been entered"
TEARING_DOWN = "this context is being torn down"
ALREADY_CLOSED = "this context has already been closed"


@pytest.fixture
def anyio_backend() -> str:
    return "asyncio"


def factory() -> float:
    return 1.5


async def apply_all(ctx: Context) -> dict[str, Any]:
    """Apply all five guarded operations; return outcome (None or the exception)."""
    outcomes: dict[str, Any] = {}

    def record(name: str, exc: BaseException | None) -> None:
        outcomes[name] = None if exc is None else (type(exc), str(exc))

    try:
        ctx.add_resource(object(), "blocked")
    except Exception as exc:
        record("add_resource", exc)
    else:
        record("add_resource", None)

    try:
        ctx.add_resource_factory(factory, "blocked")
    except Exception as exc:
        record("add_resource_factory", exc)
    else:
        record("add_resource_factory", None)

    try:
        ctx.get_resource_nowait(int, "missing", optional=True)
    except Exception as exc:
        record("get_resource_nowait", exc)
    else:
        record("get_resource_nowait", None)

    try:
        await ctx.get_resource(int, "missing", optional=True)
    except Exception as exc:
        record("get_resource", exc)
    else:
        record("get_resource", None)

    try:
        ctx.add_teardown_callback(lambda: None)
    except Exception as exc:
        record("add_teardown_callback", exc)
    else:
        record("add_teardown_callback", None)

    return outcomes


def all_blocked(message: str) -> dict[str, Any]:
    return {
        name: (RuntimeError, message)
        for name in (
            "add_resource",
            "add_resource_factory",
            "get_resource_nowait",
            "get_resource",
            "add_teardown_callback",
        )
    }


async def test_never_entered_everything_blocked_nothing_changed() -> None:
    ctx = Context()
    assert ctx.closed is False
    assert await apply_all(ctx) == all_blocked(NOT_ENTERED)
    assert ctx.closed is False

    # Nothing was registered by the rejected calls
    async with ctx:
        assert ctx.get_resource_nowait(object, "blocked", optional=True) is None
        assert ctx.get_resource_nowait(float, "blocked", optional=True) is None
        assert ctx.get_resources(object) == {}


async def test_open_everything_allowed_and_reentry_blocked() -> None:
    async with Context() as ctx:
        assert ctx.closed is False
        assert await apply_all(ctx) == dict.fromkeys(all_blocked(""), None)
        assert ctx.get_resource_nowait(float, "blocked") == 1.5
        with pytest.raises(RuntimeError) as exc_info:
            await ctx.__aenter__()

        assert str(exc_info.value) == ALREADY_ENTERED
        assert ctx.closed is False
        # The failed re-entry must not have disturbed the open context
        ctx.add_resource(5, "after_reentry")
        assert ctx.get_resource_nowait(int, "after_reentry") == 5


async def test_during_teardown_only_factory_blocked() -> None:
    seen: list[Any] = []
    ctx = Context()

    async def callback() -> None:
        seen.append(ctx.closed)
        seen.append(await apply_all(ctx))
        with pytest.raises(RuntimeError) as exc_info:
            await ctx.__aenter__()

        seen.append(str(exc_info.value))
        seen.append(ctx.get_resource_nowait(float, "blocked", optional=True))
        with pytest.raises(ResourceNotFound):
            ctx.get_resource_nowait(int, "missing")

    async with ctx:
        ctx.add_teardown_callback(callback)

    expected = dict.fromkeys(all_blocked(""), None)
    expected["add_resource_factory"] = (RuntimeError, TEARING_DOWN)
    assert seen == [True, expected, TEARING_DOWN, None]
    assert ctx.closed is True


@pytest.mark.parametrize("exit_kind", ["clean", "block_error", "teardown_error"])
async def test_closed_everything_blocked_nothing_changed(exit_kind: str) -> None:
    ctx = Context()

    def failing_callback() -> None:
        raise LookupError("teardown failed")

    if exit_kind == "clean":
        async with ctx:
            ctx.add_resource("kept", "kept")
    elif exit_kind == "block_error":
        with pytest.raises(KeyError):
            async with ctx:
                ctx.add_resource("kept", "kept")
                raise KeyError("block failed")
    else:
        with pytest.raises(BaseException) as exc_info:
            async with ctx:
                ctx.add_resource("kept", "kept")
                ctx.add_teardown_callback(failing_callback)

        assert not isinstance(exc_info.value, RuntimeError)

    assert ctx.closed is True
    assert await apply_all(ctx) == all_blocked(ALREADY_CLOSED)
    with pytest.raises(RuntimeError) as exc_info2:
        await ctx.__aenter__()

    assert str(exc_info2.value) == ALREADY_CLOSED
    assert ctx.closed is True
    # get_resources() is not guarded; it shows that the blocked add changed nothing
    assert ctx.get_resources(object) == {}
    assert ctx.get_resources(str) == {"kept": "kept"}


async def test_states_are_per_context() -> None:
    """A child being closed / not entered does not affect the parent and vice versa."""
    async with Context() as parent:
        child = Context()
        assert child.parent is parent
        with pytest.raises(RuntimeError, match=NOT_ENTERED):
            child.add_resource(1)

        parent.add_resource(2, "two")
        async with child:
            # Created before the resource was added to the parent -> not inherited
            assert child.get_resource_nowait(int, "two", optional=True) is None
            child.add_resource(3, "three")
            assert parent.get_resource_nowait(int, "three", optional=True) is None

        assert child.closed is True
        assert parent.closed is False
        with pytest.raises(RuntimeError, match=ALREADY_CLOSED):
            child.get_resource_nowait(int, "three")

        assert parent.get_resource_nowait(int, "two") == 2
