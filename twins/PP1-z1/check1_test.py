"""
Behaviour check for refactoring 1 (everyday clean-up of merge_config, qualified_name,
callable_name and resolve_reference in asphalt.core._utils).

Everything here goes through the public ``asphalt.core`` API.
"""

from __future__ import annotations

from collections import OrderedDict
from functools import partial
from types import MappingProxyType
from typing import Any

import pytest

from asphalt.core import (
    Context,
    Event,
    ResourceConflict,
    Signal,
    callable_name,
    context_teardown,
    merge_config,
    qualified_name,
    resolve_reference,
)

pytestmark = pytest.mark.anyio


@pytest.fixture
def anyio_backend() -> str:
    return "asyncio"


class Outer:
    class Inner:
        def method(self) -> None:
            pass

    def __call__(self) -> None:
        pass


def plain_function() -> None:
    pass


# --- merge_config -----------------------------------------------------------------


@pytest.mark.parametrize(
    "original, overrides, expected",
    [
        (None, None, {}),
        ({}, {}, {}),
        (None, {"a": 1}, {"a": 1}),
        ({"a": 1}, None, {"a": 1}),
        ({"a": 1}, {}, {"a": 1}),
        ({}, {"a": {"b": 1}}, {"a": {"b": 1}}),
        ({"a": 1, "b": 2}, {"b": 3, "c": 4}, {"a": 1, "b": 3, "c": 4}),
        ({"a": {"x": 1}}, {"a": None}, {"a": None}),
        ({"a": None}, {"a": {"x": 1}}, {"a": {"x": 1}}),
        ({"a": {"x": 1}}, {"a": [1]}, {"a": [1]}),
        (
            {"a": {"x": 1, "y": {"z": 1}}, "b": 1},
            {"a": {"y": {"w": 2}, "q": 3}},
            {"a": {"x": 1, "y": {"z": 1, "w": 2}, "q": 3}, "b": 1},
        ),
        ({"a.b": {"c": 1}}, {"a.b": {"d": 2}, "a": {"b": 5}}, {"a.b": {"c": 1, "d": 2}, "a": {"b": 5}}),
    ],
)
def test_merge_config_results(original: Any, overrides: Any, expected: Any) -> None:
    result = merge_config(original, overrides)
    assert result == expected
    assert type(result) is dict


def test_merge_config_key_order_and_no_mutation() -> None:
    original = {"z": {"k": 1}, "a": 2, "m": {"n": {}}}
    overrides = {"new": 0, "m": {"n": {"o": 1}, "first": 1}, "z": {"j": 2, "k": 3}}
    original_snapshot = repr(original)
    overrides_snapshot = repr(overrides)
    result = merge_config(original, overrides)
    assert list(result) == ["z", "a", "m", "new"]
    assert list(result["z"]) == ["k", "j"]
    assert list(result["m"]) == ["n", "first"]
    assert result["z"] == {"k": 3, "j": 2}
    assert repr(original) == original_snapshot
    assert repr(overrides) == overrides_snapshot
    # merged sub-dicts are fresh copies, untouched ones are shared
    assert result["z"] is not original["z"]
    assert result["m"]["n"] is not original["m"]["n"]


def test_merge_config_identity_of_values() -> None:
    shared = {"deep": [1, 2]}
    override_value = {"only": "here"}
    original = {"keep": shared, "other": 1}
    result = merge_config(original, {"added": override_value})
    assert result is not original
    assert result["keep"] is shared
    assert result["added"] is override_value
    # no overrides: still a copy
    result2 = merge_config(original, None)
    assert result2 == original and result2 is not original
    assert result2["keep"] is shared
    # an empty original dict being overridden by a dict: merged -> new dict
    empty: dict[str, Any] = {}
    value = {"x": 1}
    result3 = merge_config({"a": empty}, {"a": value})
    assert result3 == {"a": {"x": 1}}
    assert result3["a"] is not value and result3["a"] is not empty
    # an empty override dict on a dict: copy of the original
    inner = {"x": 1}
    result4 = merge_config({"a": inner}, {"a": {}})
    assert result4 == {"a": {"x": 1}}
    assert result4["a"] is not inner


def test_merge_config_non_dict_mappings() -> None:
    # Only real dicts (and subclasses) are merged; other mappings are replaced
    original = {"a": MappingProxyType({"x": 1}), "b": OrderedDict(p=1)}
    proxy = MappingProxyType({"y": 2})
    result = merge_config(original, {"a": {"y": 2}, "b": OrderedDict(q=2)})
    assert result["a"] == {"y": 2}
    assert type(result["b"]) is dict
    assert result["b"] == {"p": 1, "q": 2}
    result = merge_config({"a": {"x": 1}}, {"a": proxy})
    assert result["a"] is proxy
    # top level arguments may be any mapping
    result = merge_config(MappingProxyType({"a": {"x": 1}}), MappingProxyType({"a": {"y": 1}}))
    assert result == {"a": {"x": 1, "y": 1}}


def test_merge_config_errors() -> None:
    with pytest.raises(AttributeError):
        merge_config({"a": 1}, [("a", 2)])  # type: ignore[arg-type]

    with pytest.raises(TypeError):
        merge_config([1], None)  # type: ignore[arg-type]

    assert merge_config(["ab"], None) == {"a": "b"}  # type: ignore[arg-type]

    # falsey non-mapping arguments are treated like None
    assert merge_config((), ()) == {}  # type: ignore[arg-type]
    assert merge_config(0, "") == {}  # type: ignore[arg-type]


# --- qualified_name / callable_name -----------------------------------------------


def test_qualified_name_variants() -> None:
    assert qualified_name(int) == "int"
    assert qualified_name(3) == "int"
    assert qualified_name(None) == "NoneType"
    assert qualified_name(type) == "type"
    assert qualified_name(plain_function) == "function"
    assert qualified_name(Outer.Inner) == f"{__name__}.Outer.Inner"
    assert qualified_name(Outer.Inner()) == f"{__name__}.Outer.Inner"
    assert qualified_name(OrderedDict()) == "collections.OrderedDict"
    assert qualified_name(Context) == "asphalt.core.Context"
    assert qualified_name(partial(print)) == "functools.partial"


def test_callable_name_variants() -> None:
    assert callable_name(len) == "len"
    assert callable_name(plain_function) == f"{__name__}.plain_function"
    assert callable_name(Outer.Inner.method) == f"{__name__}.Outer.Inner.method"
    assert callable_name(Outer.Inner().method) == f"{__name__}.Outer.Inner.method"
    assert callable_name(Outer()) == f"{__name__}.Outer"
    assert callable_name(Outer) == f"{__name__}.Outer"
    assert callable_name(partial(plain_function)) == f"{__name__}.plain_function"
    assert callable_name(partial(len)) == "len"
    assert callable_name(partial(Outer())) == f"{__name__}.Outer"
    # bound builtin methods have __module__ None (pinned as is, not fixed)
    assert callable_name("abc".upper) == "None.str.upper"
    # method descriptors have a __qualname__ but no __module__
    with pytest.raises(AttributeError, match="__module__"):
        callable_name(str.upper)

    assert callable_name(dict) == "dict"
    assert callable_name(merge_config) == "asphalt.core.merge_config"
    local = lambda: None  # noqa: E731
    assert (
        callable_name(local)
        == f"{__name__}.test_callable_name_variants.<locals>.<lambda>"
    )


async def test_names_in_public_error_messages() -> None:
    async with Context() as ctx:
        ctx.add_resource(Outer.Inner(), "res")
        with pytest.raises(ResourceConflict) as exc:
            ctx.add_resource(Outer.Inner(), "res")

        assert str(exc.value) == (
            f"this context already contains a resource of type "
            f"{__name__}.Outer.Inner using the name 'res'"
        )
        ctx.add_resource(5)
        with pytest.raises(ResourceConflict, match="resource of type int using"):
            ctx.add_resource(6)

    with pytest.raises(TypeError) as exc2:
        context_teardown(plain_function)  # type: ignore[arg-type]

    assert str(exc2.value) == (
        f"{__name__}.plain_function must be an async generator function"
    )

    class Source:
        signal = Signal(Event)

    class OtherEvent:
        pass

    with pytest.raises(TypeError) as exc3:
        Source().signal.dispatch(OtherEvent())  # type: ignore[arg-type]

    assert str(exc3.value) == (
        f"Event type mismatch: event ({__name__}.test_names_in_public_error_messages."
        f"<locals>.OtherEvent) is not a subclass of asphalt.core.Event"
    )


# --- resolve_reference ------------------------------------------------------------


def test_resolve_reference_passthrough() -> None:
    marker = object()
    assert resolve_reference(marker) is marker
    assert resolve_reference(None) is None
    assert resolve_reference("no_colon.here") == "no_colon.here"
    assert resolve_reference("") == ""
    assert resolve_reference(b"os:path") == b"os:path"


def test_resolve_reference_success() -> None:
    import collections
    import os.path

    assert resolve_reference("os.path:join") is os.path.join
    assert resolve_reference("collections:OrderedDict.fromkeys") == OrderedDict.fromkeys
    assert resolve_reference("collections:abc.Mapping") is collections.abc.Mapping
    assert resolve_reference(f"{__name__}:Outer.Inner.method") is Outer.Inner.method
    assert resolve_reference("asphalt.core:Context") is Context


@pytest.mark.parametrize(
    "ref, message, has_cause",
    [
        ("nonexistent_mod_xyz:foo", "could not import module", True),
        ("asphalt.core.nonexistent:foo", "could not import module", True),
        ("asphalt.core:nonexistent", "error looking up object", False),
        ("asphalt.core:Context.nonexistent.more", "error looking up object", False),
        ("asphalt.core:", "error looking up object", False),
        ("asphalt.core:Context:add_resource", "error looking up object", False),
        ("asphalt.core:Context..x", "error looking up object", False),
    ],
)
def test_resolve_reference_lookup_errors(ref: str, message: str, has_cause: bool) -> None:
    with pytest.raises(LookupError) as exc:
        resolve_reference(ref)

    assert type(exc.value) is LookupError
    assert str(exc.value) == f"error resolving reference {ref}: {message}"
    if has_cause:
        assert isinstance(exc.value.__cause__, ModuleNotFoundError)
        assert exc.value.__cause__ is exc.value.__context__
    else:
        assert exc.value.__cause__ is None
        assert isinstance(exc.value.__context__, AttributeError)
        assert not exc.value.__suppress_context__


def test_resolve_reference_other_errors_propagate() -> None:
    with pytest.raises(ValueError):
        resolve_reference(":foo")

    with pytest.raises(TypeError):
        resolve_reference(".relative:foo")
