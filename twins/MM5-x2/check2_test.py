"""
Behaviour checks for refactoring 2 (the start-up phases of ``_start_component``).

Everything goes through the public API and must pass both on the unchanged source and
with refactor2.diff applied.
"""

from __future__ import annotations

import logging
import sys
from typing import Any

import anyio
import pytest
from anyio import get_current_task
from pytest import LogCaptureFixture

from asphalt.core import (
    Component,
    ComponentStartError,
    Context,
    add_resource,
    add_teardown_callback,
    current_context,
    get_resource,
    get_resource_nowait,
    get_resources,
    start_component,
)

if sys.version_info < (3, 11):
    from exceptiongroup import ExceptionGroup

pytestmark = pytest.mark.anyio


@pytest.fixture(params=["asyncio", "trio"])
def anyio_backend(request: Any) -> str:
    return request.param


EVENTS: list[Any] = []


@pytest.fixture(autouse=True)
def reset_events() -> None:
    EVENTS.clear()


class Recorder(Component):
    """Implements both prepare() and start() and records what it sees."""

    def __init__(self, tag: str, children: dict[str, Any] | None = None) -> None:
        self.tag = tag
        for alias, child_config in (children or {}).items():
            self.add_component(alias, **child_config)

    async def prepare(self) -> None:
        EVENTS.append(("prepare", self.tag, get_current_task().name))
        await anyio.sleep(0)

    async def start(self) -> None:
        EVENTS.append(("start", self.tag, get_current_task().name))
        add_resource(len(self.tag), types=[int])
        await anyio.sleep(0)


class OnlyStart(Component):
    def __init__(self, tag: str) -> None:
        self.tag = tag

    async def start(self) -> None:
        EVENTS.append(("start", self.tag))


class Inert(Component):
    """Implements neither prepare() nor start()."""


async def test_phase_order_logging_and_default_resource_names(
    caplog: LogCaptureFixture,
) -> None:
    caplog.set_level(logging.DEBUG, "asphalt.core")
    config = {
        "tag": "root",
        "children": {
            "mid/alt": {
                "type": Recorder,
                "tag": "mid",
                "children": {"leaf/deep": {"type": Recorder, "tag": "leaf"}},
            }
        },
    }
    async with Context():
        root_task_name = get_current_task().name
        root = await start_component(Recorder, config)
        assert isinstance(root, Recorder)
        # resources added in start() get the alias-derived default name
        assert get_resources(int) == {"default": 4, "alt": 3, "deep": 4}

        # add_component() is locked on every started component
        with pytest.raises(RuntimeError, match="child components cannot be added"):
            root.add_component("late", Inert)

    mod = __name__
    mid_task = f"Starting component mid/alt ({mod}.Recorder)"
    leaf_task = f"Starting component mid/alt.leaf/deep ({mod}.Recorder)"
    assert EVENTS == [
        ("prepare", "root", root_task_name),
        ("prepare", "mid", mid_task),
        ("prepare", "leaf", leaf_task),
        ("start", "leaf", leaf_task),
        ("start", "mid", mid_task),
        ("start", "root", root_task_name),
    ]
    messages = [m for m in caplog.messages if not m.startswith(("Creating", "Created"))]
    assert messages == [
        "Calling prepare() of the root component",
        "Returned from prepare() of the root component",
        "Starting the child components of the root component",
        "Calling prepare() of component 'mid/alt'",
        "Returned from prepare() of component 'mid/alt'",
        "Starting the child components of component 'mid/alt'",
        "Calling prepare() of component 'mid/alt.leaf/deep'",
        "Returned from prepare() of component 'mid/alt.leaf/deep'",
        "Calling start() of component 'mid/alt.leaf/deep'",
        "Component 'mid/alt.leaf/deep' added a resource (types=[int], name='deep')",
        "Returned from start() of component 'mid/alt.leaf/deep'",
        "Calling start() of component 'mid/alt'",
        "Component 'mid/alt' added a resource (types=[int], name='alt')",
        "Returned from start() of component 'mid/alt'",
        "Calling start() of the root component",
        "The root component added a resource (types=[int], name='default')",
        "Returned from start() of the root component",
    ]


async def test_exact_log_sequence(caplog: LogCaptureFixture) -> None:
    class PrepOnly(Component):
        def __init__(self) -> None:
            self.add_component("kid/named", Kid)
            self.add_component("inert", Inert)

        async def prepare(self) -> None:
            add_resource("from-prepare")

    class Kid(Component):
        async def prepare(self) -> None:
            add_resource(1.5)

        async def start(self) -> None:
            # the parent's prepare() ran before, so this is available synchronously
            assert get_resource_nowait(str) == "from-prepare"
            add_resource(b"from-start")

    caplog.set_level(logging.DEBUG, "asphalt.core")
    async with Context():
        await start_component(PrepOnly)
        assert get_resource_nowait(float) == 1.5
        assert get_resource_nowait(bytes, "named") == b"from-start"

    messages = [m for m in caplog.messages if not m.startswith(("Creating", "Created"))]
    assert messages == [
        "Calling prepare() of the root component",
        "The root component added a resource (type=str, name='default')",
        "Returned from prepare() of the root component",
        "Starting the child components of the root component",
        "Calling prepare() of component 'kid/named'",
        "Component 'kid/named' added a resource (type=float, name='default')",
        "Returned from prepare() of component 'kid/named'",
        "Calling start() of component 'kid/named'",
        "Component 'kid/named' added a resource (type=bytes, name='named')",
        "Returned from start() of component 'kid/named'",
    ]


async def test_current_context_inside_phases() -> None:
    seen: list[Any] = []

    class Probe(Component):
        def __init__(self) -> None:
            self.add_component("sub", SubProbe)

        async def prepare(self) -> None:
            seen.append(("prepare", current_context().path))  # type: ignore[attr-defined]

        async def start(self) -> None:
            seen.append(("start", current_context().path))  # type: ignore[attr-defined]

    class SubProbe(Component):
        async def start(self) -> None:
            seen.append(("substart", current_context().path))  # type: ignore[attr-defined]

    async with Context() as ctx:
        await start_component(Probe)
        assert current_context() is ctx

    assert seen == [("prepare", ""), ("substart", "sub"), ("start", "")]


async def test_error_in_prepare_skips_children_and_start(
    caplog: LogCaptureFixture,
) -> None:
    class Parent(Component):
        def __init__(self) -> None:
            self.add_component("a", FailingPrepare)

        async def start(self) -> None:
            EVENTS.append("parent start")

    class FailingPrepare(Component):
        def __init__(self) -> None:
            self.add_component("b", OnlyStart, tag="b")

        async def prepare(self) -> None:
            add_teardown_callback(lambda: EVENTS.append("teardown"))
            raise LookupError("prepare failed")

        async def start(self) -> None:
            EVENTS.append("a start")

    caplog.set_level(logging.DEBUG, "asphalt.core")
    with pytest.raises(ComponentStartError) as exc:
        async with Context():
            await start_component(Parent)

    assert EVENTS == ["teardown"]
    assert exc.value.phase == "preparing"
    assert exc.value.path == "a"
    assert exc.value.component_type is FailingPrepare
    assert type(exc.value.__cause__) is LookupError
    assert exc.value.__cause__.args == ("prepare failed",)
    assert str(exc.value).startswith("error preparing component 'a' (")
    messages = [m for m in caplog.messages if not m.startswith(("Creating", "Created"))]
    assert messages == [
        "Starting the child components of the root component",
        "Calling prepare() of component 'a'",
    ]


async def test_error_in_nested_start() -> None:
    class Failing(Component):
        async def start(self) -> None:
            await anyio.sleep(0)
            raise OSError(5, "start failed")

    config = {
        "tag": "root",
        "children": {
            "x": {"type": Recorder, "tag": "x", "children": {"y": {"type": Failing}}}
        },
    }
    with pytest.raises(ComponentStartError) as exc:
        async with Context():
            await start_component(Recorder, config)

    assert (exc.value.phase, exc.value.path) == ("starting", "x.y")
    assert exc.value.component_type is Failing
    assert type(exc.value.__cause__) is OSError
    # neither x nor the root got to their start()
    assert [e[:2] for e in EVENTS] == [("prepare", "root"), ("prepare", "x")]


async def test_failing_child_cancels_sibling() -> None:
    class Stalling(Component):
        async def start(self) -> None:
            try:
                await anyio.sleep(10)
            finally:
                EVENTS.append("stalling cancelled")

    class Failing(Component):
        async def start(self) -> None:
            await anyio.sleep(0.05)
            raise ValueError("nope")

    class Parent(Component):
        def __init__(self) -> None:
            self.add_component("stalling", Stalling)
            self.add_component("failing", Failing)

        async def start(self) -> None:
            EVENTS.append("never")

    with anyio.fail_after(5):
        with pytest.raises(ComponentStartError) as exc:
            async with Context():
                await start_component(Parent)

    assert EVENTS == ["stalling cancelled"]
    assert (exc.value.phase, exc.value.path) == ("starting", "failing")
    assert type(exc.value.__cause__) is ValueError


async def test_two_failing_children_give_exception_group() -> None:
    class Failing(Component):
        def __init__(self, message: str) -> None:
            self.message = message

        async def start(self) -> None:
            raise ValueError(self.message)

    class Parent(Component):
        def __init__(self) -> None:
            self.add_component("one", Failing, message="first")
            self.add_component("two", Failing, message="second")

    def check(group: Any) -> None:
        assert type(group) is ExceptionGroup
        errors = sorted(group.exceptions, key=lambda e: e.path)
        assert [type(e) for e in errors] == [ComponentStartError, ComponentStartError]
        assert [(e.phase, e.path) for e in errors] == [
            ("starting", "one"),
            ("starting", "two"),
        ]
        assert [str(e.__cause__) for e in errors] == ["first", "second"]

    # Without the watchdog, the group of the children's task group comes out as is
    async with Context():
        with pytest.raises(ExceptionGroup) as exc:
            await start_component(Parent, timeout=None)

    check(exc.value)

    # With the watchdog's task group around it, it is nested in another group (a lone
    # nested group is not unwrapped)
    async with Context():
        with pytest.raises(ExceptionGroup) as exc:
            await start_component(Parent)

    assert type(exc.value) is ExceptionGroup
    assert len(exc.value.exceptions) == 1
    check(exc.value.exceptions[0])


async def test_non_coroutine_lifecycle_methods() -> None:
    class SyncPrepareReturningNone(Component):
        def prepare(self) -> None:  # type: ignore[override]
            EVENTS.append("sync prepare")

    class SyncStartRaising(Component):
        def start(self) -> None:  # type: ignore[override]
            raise ZeroDivisionError("raised synchronously")

    async with Context():
        # the call succeeds, awaiting its result fails -> wrapped
        with pytest.raises(ComponentStartError) as exc:
            await start_component(SyncPrepareReturningNone)

        assert exc.value.phase == "preparing"
        assert type(exc.value.__cause__) is TypeError
        assert EVENTS == ["sync prepare"]

        # raised by the call itself, before anything is awaited -> not wrapped
        with pytest.raises(ZeroDivisionError, match="raised synchronously"):
            await start_component(SyncStartRaising)


async def test_base_exception_is_not_wrapped() -> None:
    class Custom(BaseException):
        pass

    class Raises(Component):
        async def prepare(self) -> None:
            raise Custom

    raised = False
    try:
        async with Context():
            await start_component(Raises, timeout=None)
    except Custom:
        raised = True
    except BaseException as exc:  # trio wraps it in a group in some versions
        raised = isinstance(exc, BaseException) and not isinstance(
            exc, ComponentStartError
        )

    assert raised


async def test_cancellation_during_start() -> None:
    class Stalling(Component):
        async def prepare(self) -> None:
            add_teardown_callback(lambda: EVENTS.append("teardown"))
            EVENTS.append("prepared")

        async def start(self) -> None:
            EVENTS.append("starting")
            try:
                await anyio.sleep(10)
            except BaseException as exc:
                EVENTS.append(type(exc).__name__)
                raise

            EVENTS.append("unreachable")

    class Parent(Component):
        def __init__(self) -> None:
            self.add_component("stalling", Stalling)

        async def start(self) -> None:
            EVENTS.append("never")

    async with Context():
        with anyio.move_on_after(0.1) as scope:
            await start_component(Parent, timeout=None)
            EVENTS.append("not reached")

        assert scope.cancelled_caught
        assert EVENTS[:2] == ["prepared", "starting"]
        assert EVENTS[2] in ("CancelledError", "Cancelled")
        assert len(EVENTS) == 3

    assert EVENTS[3:] == ["teardown"]


async def test_waiting_for_sibling_resource_between_phases() -> None:
    class Provider(Component):
        async def prepare(self) -> None:
            await anyio.sleep(0.05)

        async def start(self) -> None:
            add_resource("provided", "late")

    class Consumer(Component):
        async def start(self) -> None:
            EVENTS.append(await get_resource(str, "late"))

    class Parent(Component):
        def __init__(self) -> None:
            self.add_component("consumer", Consumer)
            self.add_component("provider", Provider)

        async def start(self) -> None:
            EVENTS.append(get_resource_nowait(str, "late") + "!")

    with anyio.fail_after(5):
        async with Context():
            await start_component(Parent)

    assert EVENTS == ["provided", "provided!"]


async def test_inert_tree() -> None:
    class Parent(Component):
        def __init__(self) -> None:
            self.add_component("a", Inert)
            self.add_component("b", Inert)

    async with Context():
        root = await start_component(Parent)
        with pytest.raises(RuntimeError, match="child components cannot be added"):
            root.add_component("c", Inert)
