"""
Behaviour checks for refactoring 2 (sync / async lookup twins merged into shared
private helpers).

The scenarios concentrate on the things the shared helpers now do for both twins: the
order of side effects while a generated resource is published, the contents of the
``resource_added`` event, the "not found" exits, and interleavings of concurrent async
lookups.  Everything goes through the public API of ``asphalt.core``.
"""

from __future__ import annotations

import warnings
from typing import Any, Union

import pytest
from anyio import Event, create_task_group, fail_after, wait_all_tasks_blocked
from anyio.lowlevel import checkpoint

from asphalt.core import (
    AsyncResourceError,
    Component,
    Context,
    ResourceEvent,
    ResourceNotFound,
    SignalQueueFull,
    add_resource,
    add_resource_factory,
    get_resource,
    get_resource_nowait,
    get_resources,
    inject,
    resource,
    start_component,
)

pytestmark = pytest.mark.anyio()


@pytest.fixture
def anyio_backend() -> str:
    return "asyncio"


def describe(event: ResourceEvent) -> tuple[Any, ...]:
    return (
        event.resource_types,
        event.resource_name,
        event.resource_description,
        event.is_factory,
    )


@pytest.mark.parametrize("use_async", [False, True], ids=["nowait", "async"])
class TestTwins:
    """The same scenario driven through either twin must give the same outcome."""

    async def lookup(
        self, ctx: Context, use_async: bool, *args: Any, **kwargs: Any
    ) -> Any:
        if use_async:
            return await ctx.get_resource(*args, **kwargs)

        return ctx.get_resource_nowait(*args, **kwargs)

    async def test_generated_resource_event_and_storage(self, use_async: bool) -> None:
        trace: list[str] = []

        def factory() -> Union[int, float]:
            trace.append("factory")
            return 42

        async with Context() as ctx:
            async with ctx.resource_added.stream_events() as stream:
                ctx.add_resource_factory(factory, "answer", description="the answer")
                assert ctx.get_resources(int) == {}
                result = await self.lookup(ctx, use_async, float, "answer")
                trace.append("returned")
                assert result == 42
                assert ctx.get_resources(int) == {"answer": 42}
                assert ctx.get_resources(float) == {"answer": 42}

                # served from the context now, no second event and no second call
                assert await self.lookup(ctx, use_async, int, "answer") == 42
                ctx.add_resource("marker")

                events = []
                with fail_after(3):
                    async for event in stream:
                        events.append(event)
                        if len(events) == 3:
                            break

        assert trace == ["factory", "returned"]
        assert [describe(e) for e in events] == [
            ((int, float), "answer", "the answer", True),
            ((int, float), "answer", "the answer", False),
            ((str,), "default", None, False),
        ]
        assert all(e.source is ctx for e in events)

    async def test_resource_is_visible_to_event_listener(self, use_async: bool) -> None:
        """By the time the event is delivered, the resource has been stored."""
        seen: list[Any] = []

        def factory() -> str:
            return "generated"

        async def listener(ctx: Context, ready: Event) -> None:
            async with ctx.resource_added.stream_events(
                lambda e: not e.is_factory
            ) as stream:
                ready.set()
                async for event in stream:
                    seen.append(
                        ctx.get_resource_nowait(
                            event.resource_types[0], event.resource_name
                        )
                    )
                    break

        async with Context() as ctx, create_task_group() as tg:
            ready = Event()
            tg.start_soon(listener, ctx, ready)
            await ready.wait()
            ctx.add_resource_factory(factory)
            assert await self.lookup(ctx, use_async, str) == "generated"

        assert seen == ["generated"]

    async def test_existing_sibling_type_is_kept(self, use_async: bool) -> None:
        def factory() -> Union[int, float, str]:
            return 7

        async with Context() as ctx:
            ctx.add_resource_factory(factory)
            ctx.add_resource(2.5)
            ctx.add_resource("text")
            assert await self.lookup(ctx, use_async, int) == 7
            assert await self.lookup(ctx, use_async, float) == 2.5
            assert await self.lookup(ctx, use_async, str) == "text"
            assert ctx.get_resources(int) == {"default": 7}
            # The generated container is not stored under float / str ...
            assert ctx.get_resources(bytes) == {}

    async def test_not_found(self, use_async: bool) -> None:
        async with Context() as ctx:
            assert await self.lookup(ctx, use_async, str, optional=True) is None
            assert await self.lookup(ctx, use_async, str, "x", optional=True) is None
            with pytest.raises(ResourceNotFound) as exc:
                await self.lookup(ctx, use_async, str, "x")

            assert (exc.value.type, exc.value.name) == (str, "x")
            assert isinstance(exc.value, LookupError)
            with pytest.raises(ResourceNotFound) as exc:
                await self.lookup(ctx, use_async, int, optional=False)

            assert str(exc.value) == (
                "no matching resource was found for type=int name='default'"
            )

    async def test_name_mismatch_is_not_found(self, use_async: bool) -> None:
        def factory() -> str:
            return "generated"

        async with Context() as ctx:
            ctx.add_resource_factory(factory, "one")
            ctx.add_resource(5, "two")
            with pytest.raises(ResourceNotFound):
                await self.lookup(ctx, use_async, str)

            with pytest.raises(ResourceNotFound):
                await self.lookup(ctx, use_async, str, "two")

            with pytest.raises(ResourceNotFound):
                await self.lookup(ctx, use_async, int, "one")

            # subclass / superclass relationships are not considered
            with pytest.raises(ResourceNotFound):
                await self.lookup(ctx, use_async, object, "two")

    async def test_state_error_beats_everything(self, use_async: bool) -> None:
        ctx = Context()
        with pytest.raises(RuntimeError, match="not been entered yet"):
            await self.lookup(ctx, use_async, str, optional=True)

        async with ctx:
            ctx.add_resource("x")

        with pytest.raises(RuntimeError, match="already been closed"):
            await self.lookup(ctx, use_async, str)

    async def test_factory_error(self, use_async: bool) -> None:
        class Boom(Exception):
            pass

        def factory() -> str:
            raise Boom("no luck")

        async with Context() as ctx:
            async with ctx.resource_added.stream_events() as stream:
                ctx.add_resource_factory(factory)
                with pytest.raises(Boom, match="no luck"):
                    await self.lookup(ctx, use_async, str, optional=True)

                assert ctx.get_resources(str) == {}
                ctx.add_resource(1)
                events = []
                with fail_after(3):
                    async for event in stream:
                        events.append(event)
                        if len(events) == 2:
                            break

        # No event for the failed generation
        assert [e.is_factory for e in events] == [True, False]
        assert events[1].resource_types == (int,)

    async def test_full_subscriber_queue_warns(self, use_async: bool) -> None:
        def factory() -> str:
            return "generated"

        async with Context() as ctx:
            async with ctx.resource_added.stream_events(max_queue_size=1):
                ctx.add_resource_factory(factory)
                with pytest.warns(SignalQueueFull, match=r"Queue full \(1\)"):
                    assert await self.lookup(ctx, use_async, str) == "generated"

                # the resource was stored regardless
                assert ctx.get_resource_nowait(str) == "generated"


class TestAsyncOnly:
    async def test_async_factory_via_nowait(self) -> None:
        started: list[int] = []

        async def factory() -> str:
            started.append(1)
            return "value"

        async with Context() as ctx:
            ctx.add_resource_factory(factory)
            with warnings.catch_warnings():
                warnings.simplefilter("error")
                with pytest.raises(AsyncResourceError):
                    ctx.get_resource_nowait(str)

            assert started == []
            assert ctx.get_resources(str) == {}
            assert await ctx.get_resource(str) == "value"
            assert started == [1]

    async def test_concurrent_async_lookups_first_stored_wins(self) -> None:
        """
        Two lookups racing through a slow async factory both call the factory and get
        their own value; the first one to finish is what stays in the context.
        """
        release = {"a": Event(), "b": Event()}
        order: list[str] = []
        results: dict[str, Any] = {}

        async def factory() -> list:  # type: ignore[type-arg]
            tag = "a" if not order else "b"
            order.append(tag)
            await release[tag].wait()
            return [tag]

        async def requester(ctx: Context, tag: str) -> None:
            results[tag] = await ctx.get_resource(list)

        async with Context() as ctx:
            ctx.add_resource_factory(factory)
            async with create_task_group() as tg:
                tg.start_soon(requester, ctx, "first")
                await wait_all_tasks_blocked()
                tg.start_soon(requester, ctx, "second")
                await wait_all_tasks_blocked()
                assert order == ["a", "b"]
                assert ctx.get_resources(list) == {}
                # let the *second* call finish first
                release["b"].set()
                await wait_all_tasks_blocked()
                assert ctx.get_resources(list) == {"default": ["b"]}
                release["a"].set()

            assert results == {"first": ["a"], "second": ["b"]}
            assert ctx.get_resource_nowait(list) == ["b"]
            assert await ctx.get_resource(list) == ["b"]

    async def test_cancelled_while_awaiting_factory(self) -> None:
        entered = Event()

        async def factory() -> str:
            entered.set()
            await Event().wait()
            return "never"

        async with Context() as ctx:
            async with ctx.resource_added.stream_events() as stream:
                ctx.add_resource_factory(factory)
                async with create_task_group() as tg:
                    tg.start_soon(ctx.get_resource, str)
                    await entered.wait()
                    tg.cancel_scope.cancel()

                assert ctx.get_resources(str) == {}
                assert ctx.get_resource_nowait(int, optional=True) is None
                ctx.add_resource(1)
                with fail_after(3):
                    events = [await stream.__anext__(), await stream.__anext__()]

        assert [e.is_factory for e in events] == [True, False]
        assert events[1].resource_types == (int,)

    async def test_non_coroutine_awaitable(self) -> None:
        class Awaitable:
            def __await__(self) -> Any:
                yield from checkpoint().__await__()
                return "awaited"

        def factory() -> Any:
            return Awaitable()

        async with Context() as ctx:
            ctx.add_resource_factory(factory, types=[str])
            ctx.add_resource_factory(factory, "raw", types=[object])
            assert await ctx.get_resource(str) == "awaited"
            # The sync twin only rejects coroutine objects
            raw = ctx.get_resource_nowait(object, "raw")
            assert isinstance(raw, Awaitable)


class TestThroughOtherPublicEntryPoints:
    async def test_module_level_functions_and_inject(self) -> None:
        def factory() -> int:
            return 11

        @inject
        async def injected(
            number: int = resource(), text: str = resource("greeting")
        ) -> tuple[int, str]:
            return number, text

        @inject
        def injected_sync(missing: Union[bytes, None] = resource()) -> Any:
            return missing

        async with Context():
            add_resource_factory(factory)
            add_resource("hi", "greeting")
            assert await injected() == (11, "hi")
            assert injected_sync() is None
            assert get_resource_nowait(int) == 11
            assert await get_resource(str, "greeting") == "hi"
            assert get_resources(int) == {"default": 11}
            with pytest.raises(ResourceNotFound):
                get_resource_nowait(bytes)

    async def test_component_waits_for_sibling_factory(self) -> None:
        got: list[Any] = []

        class Provider(Component):
            async def start(self) -> None:
                await checkpoint()
                add_resource_factory(lambda: "from-factory", types=[str])

        class Consumer(Component):
            async def start(self) -> None:
                got.append(await get_resource(str))
                got.append(await get_resource(int, optional=True))

        class Root(Component):
            def __init__(self) -> None:
                self.add_component("consumer", Consumer)
                self.add_component("provider", Provider)

        async with Context():
            with fail_after(5):
                await start_component(Root)

            # generated in (and bound to) the shared context
            assert got == ["from-factory", None]
            assert get_resources(str) == {"default": "from-factory"}
