"""
Behaviour check for refactoring 3 (private lookup tables renamed, ``get_resources``
moved in front of the lookup methods and written as a loop).

Only the public API is used.  The file must pass on the unchanged source as well as
with the refactoring applied.
"""

from __future__ import annotations

from collections.abc import AsyncGenerator, AsyncIterator
from contextlib import asynccontextmanager
from typing import Any, Optional

import pytest
from anyio import fail_after

from asphalt.core import (
    AsyncResourceError,
    Context,
    Component,
    NoCurrentContext,
    ResourceConflict,
    ResourceEvent,
    ResourceNotFound,
    get_resource,
    get_resource_nowait,
    get_resources,
    inject,
    resource,
    start_component,
)

pytestmark = pytest.mark.anyio()


class _Sentinel:
    pass


class Recorder:
    """Collects the ``resource_added`` events of a context in dispatch order."""

    def __init__(self, ctx: Context, stream: AsyncIterator[ResourceEvent]) -> None:
        self.ctx = ctx
        self.stream = stream
        self.count = 0

    async def drain(self) -> list[tuple[Any, ...]]:
        self.count += 1
        marker = f"sentinel_{self.count}"
        self.ctx.add_resource(_Sentinel(), marker)
        seen: list[tuple[Any, ...]] = []
        with fail_after(3):
            async for event in self.stream:
                if event.resource_name == marker:
                    break

                assert event.source is self.ctx
                assert event.topic == "resource_added"
                seen.append(
                    (
                        event.resource_types,
                        event.resource_name,
                        event.resource_description,
                        event.is_factory,
                    )
                )

        return seen


@asynccontextmanager
async def recording(ctx: Context) -> AsyncGenerator[Recorder, None]:
    async with ctx.resource_added.stream_events(max_queue_size=200) as stream:
        yield Recorder(ctx, stream)


@pytest.fixture
async def context() -> AsyncGenerator[Context, None]:
    async with Context() as ctx:
        yield ctx


async def test_get_resources_needs_no_open_context() -> None:
    ctx = Context()
    assert ctx.get_resources(int) == {}
    async with ctx:
        ctx.add_resource(1)
        assert ctx.get_resources(int) == {"default": 1}

    # Still readable after the context has been closed
    assert ctx.get_resources(int) == {"default": 1}
    with pytest.raises(RuntimeError, match="this context has already been closed"):
        ctx.get_resource_nowait(int)


async def test_get_resources_order_and_independence(context: Context) -> None:
    def factory() -> int:
        return 30

    context.add_resource(10, "zeta")
    context.add_resource("text", "alpha")
    context.add_resource(20, "alpha", types=[int, float])
    context.add_resource_factory(factory, "gen")
    first = context.get_resources(int)
    assert type(first) is dict
    assert list(first.items()) == [("zeta", 10), ("alpha", 20)]
    assert context.get_resources(float) == {"alpha": 20}
    assert context.get_resources(str) == {"alpha": "text"}
    assert context.get_resources(bytes) == {}

    # Factories are not triggered, only already generated resources are listed
    assert "gen" not in first
    assert await context.get_resource(int, "gen") == 30
    second = context.get_resources(int)
    assert list(second.items()) == [("zeta", 10), ("alpha", 20), ("gen", 30)]

    # Each call builds a new mapping that is detached from the context
    assert first is not second
    assert list(first) == ["zeta", "alpha"]
    second.clear()  # type: ignore[attr-defined]
    assert context.get_resource_nowait(int, "zeta") == 10
    assert len(context.get_resources(int)) == 3


async def test_generic_alias_types(context: Context) -> None:
    """Types are compared by equality, not identity."""
    context.add_resource([1, 2], types=[list[int]])
    context.add_resource(["a"], "strings", types=[list[str]])

    def factory() -> dict[str, int]:
        return {"a": 1}

    context.add_resource_factory(factory)
    assert context.get_resources(list[int]) == {"default": [1, 2]}
    assert context.get_resources(list[str]) == {"strings": ["a"]}
    assert context.get_resources(list) == {}
    assert context.get_resource_nowait(list[int]) == [1, 2]
    assert await context.get_resource(list[str], "strings") == ["a"]
    assert context.get_resource_nowait(list, optional=True) is None
    with pytest.raises(ResourceNotFound) as excinfo:
        await context.get_resource(list[bytes])

    assert excinfo.value.type == list[bytes]
    assert context.get_resource_nowait(dict[str, int]) == {"a": 1}
    assert context.get_resources(dict[str, int]) == {"default": {"a": 1}}


async def test_generated_resource_listing_respects_taken_slots(
    context: Context,
) -> None:
    def factory() -> Any:
        return "generated"

    context.add_resource("static", types=[bytes])
    context.add_resource_factory(factory, types=[str, bytes])
    assert context.get_resource_nowait(str) == "generated"
    assert context.get_resources(str) == {"default": "generated"}
    assert context.get_resources(bytes) == {"default": "static"}
    assert await context.get_resource(bytes) == "static"


async def test_conflicts_and_tables_are_separate(context: Context) -> None:
    def factory() -> int:
        return 1

    context.add_resource_factory(factory)
    with pytest.raises(ResourceConflict, match="already contains a resource factory"):
        context.add_resource_factory(factory)

    # A factory does not block a resource of the same type and name...
    context.add_resource(5)
    with pytest.raises(ResourceConflict, match="already contains a resource of type"):
        context.add_resource(6)

    # ...which then wins the lookup
    assert context.get_resource_nowait(int) == 5
    assert context.get_resources(int) == {"default": 5}


async def test_inheritance_chain() -> None:
    calls: list[str] = []

    def factory() -> float:
        calls.append("called")
        return len(calls) / 2

    async with Context() as root:
        root.add_resource(1, "one")
        root.add_resource_factory(factory)
        assert root.get_resource_nowait(float) == 0.5
        async with Context() as middle:
            middle.add_resource(2, "two")
            # Static resources are inherited, generated ones are not
            assert middle.get_resources(int) == {"one": 1, "two": 2}
            assert middle.get_resources(float) == {}
            async with Context() as leaf:
                async with recording(leaf) as recorder:
                    assert leaf.parent is middle
                    assert leaf.get_resources(int) == {"one": 1, "two": 2}
                    assert await leaf.get_resource(float) == 1.0
                    assert leaf.get_resource_nowait(int, "two") == 2
                    assert await recorder.drain() == [
                        ((float,), "default", None, False)
                    ]

                # Resources added to an ancestor later are not seen by the leaf
                root.add_resource(3, "three")
                middle.add_resource_factory(lambda: "late", types=[str])
                assert leaf.get_resource_nowait(int, "three", optional=True) is None
                assert await leaf.get_resource(str, optional=True) is None
                with pytest.raises(ResourceNotFound, match="type=int name='three'"):
                    await leaf.get_resource(int, "three")

                assert leaf.get_resources(int) == {"one": 1, "two": 2}

            assert middle.get_resource_nowait(str) == "late"
            assert middle.get_resources(float) == {}

        assert root.get_resources(int) == {"one": 1, "three": 3}
        assert root.get_resources(float) == {"default": 0.5}
        assert root.get_resource_nowait(str, optional=True) is None

    assert calls == ["called", "called"]


async def test_explicit_parent() -> None:
    async with Context() as first:
        first.add_resource("from first")
        async with Context() as second:
            second.add_resource(b"from second")
            async with Context(first) as third:
                assert third.parent is first
                assert third.get_resource_nowait(str) == "from first"
                assert third.get_resource_nowait(bytes, optional=True) is None
                assert third.get_resources(bytes) == {}


async def test_shortcuts_and_injection() -> None:
    @inject
    async def injected(
        number: int = resource(),
        text: str = resource("named"),
        missing: Optional[float] = resource(),  # noqa: UP007
    ) -> tuple[Any, ...]:
        return number, text, missing

    @inject
    def injected_sync(number: int = resource(), *, text: str = resource("named")) -> Any:
        return number, text

    @inject
    def injected_missing(value: bytes = resource()) -> Any:
        return value

    with pytest.raises(NoCurrentContext):
        get_resources(int)

    async with Context() as ctx:
        ctx.add_resource(4)
        ctx.add_resource_factory(lambda: "generated", "named", types=[str])
        assert await injected() == (4, "generated", None)
        assert injected_sync() == (4, "generated")
        with pytest.raises(ResourceNotFound, match="type=bytes name='default'"):
            injected_missing()

        assert get_resources(str) == {"named": "generated"}
        assert get_resource_nowait(str, "named") == "generated"
        assert await get_resource(int) == 4


async def test_component_resources() -> None:
    seen: dict[str, Any] = {}

    class Child(Component):
        async def start(self) -> None:
            from asphalt.core import add_resource, add_resource_factory

            add_resource(11, "child")
            add_resource_factory(lambda: "made", "child", types=[str])

    class Parent(Component):
        def __init__(self) -> None:
            self.add_component("child", Child)

        async def start(self) -> None:
            seen["ints"] = get_resources(int)
            seen["str"] = await get_resource(str, "child")
            seen["optional"] = get_resource_nowait(bytes, optional=True)
            try:
                get_resource_nowait(bytes)
            except ResourceNotFound as exc:
                seen["error"] = str(exc)

    async with Context() as ctx:
        await start_component(Parent)
        assert ctx.get_resources(int) == {"child": 11}

    assert seen == {
        "ints": {"child": 11},
        "str": "made",
        "optional": None,
        "error": "no matching resource was found for type=bytes name='default'",
    }
