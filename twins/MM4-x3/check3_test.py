"""
Behaviour checks for refactoring 3 (consistent renaming of the private attributes of
Component and ComponentContext across the package, renamed locals, formatting helper
moved to the end of the class).

The renamed attributes carry: the child component configurations, the "start has been
initiated" flag, the startup state, the child component contexts, the pending
prepare()/start() coroutine and the plain context that a component context delegates to.
Each of those is exercised here through the public API only. Must pass both on the
unchanged source and with refactor3.diff applied.
"""

from __future__ import annotations

import logging
import re
from typing import Any

import pytest
from anyio import Event, sleep
from anyio.abc import TaskStatus
from pytest import LogCaptureFixture

from asphalt.core import (
    Component,
    ComponentStartError,
    Context,
    ResourceNotFound,
    add_resource,
    add_resource_factory,
    add_teardown_callback,
    current_context,
    get_resource_nowait,
    get_resources,
    start_component,
    start_service_task,
)

pytestmark = pytest.mark.anyio()


@pytest.fixture(params=["asyncio", "trio"])
def anyio_backend(request: Any) -> str:
    return request.param


def component_messages(caplog: LogCaptureFixture) -> list[str]:
    return [
        record.getMessage()
        for record in caplog.records
        if record.name == "asphalt.core"
        and (
            " added a resource" in record.getMessage()
            or " started a " in record.getMessage()
        )
    ]


async def test_timeout_report_for_nested_tree(caplog: LogCaptureFixture) -> None:
    """The watchdog reports the state and pending coroutine of every unfinished node."""

    class Root(Component):
        def __init__(self) -> None:
            self.add_component("a", HangsInPrepare)
            self.add_component("b", Quick)
            self.add_component("c", Middle)

        async def start(self) -> None:
            raise AssertionError("must never be called")

    class HangsInPrepare(Component):
        def __init__(self) -> None:
            self.add_component("never_started", Quick)

        async def prepare(self) -> None:
            await Event().wait()

    class Quick(Component):
        async def start(self) -> None:
            add_resource(object(), f"quick{len(get_resources(object))}")

    class Middle(Component):
        def __init__(self) -> None:
            self.add_component("d", HangsInStart)
            self.add_component("e", Quick)
            self.add_component("f", NoMethods)

    class HangsInStart(Component):
        async def start(self) -> None:
            await hang()

    class NoMethods(Component):
        pass

    async def hang() -> None:
        await Event().wait()

    caplog.set_level(logging.DEBUG, "asphalt.core")
    async with Context():
        with pytest.raises(TimeoutError, match="timeout starting component tree"):
            await start_component(Root, timeout=0.3)

        assert sorted(get_resources(object)) == ["quick0", "quick1"]

    errors = [r.getMessage() for r in caplog.records if r.levelno >= logging.ERROR]
    assert len(errors) == 1
    sections = errors[0].split("\n\n")
    assert sections[0] == "Timeout waiting for the component tree to start"
    assert sections[1] == (
        "Current status of the components still waiting to finish startup\n"
        "----------------------------------------------------------------"
    )
    assert sections[2] == (
        "(root): starting children\n"
        "  a: preparing\n"
        "    never_started: initialized\n"
        "  c: starting children\n"
        "    d: starting"
    )
    assert sections[3] == (
        "Stack summaries of components still waiting to start\n"
        "----------------------------------------------------"
    )
    prefix = f"{__name__}.test_timeout_report_for_nested_tree.<locals>."
    assert len(sections) == 6
    lines_a = sections[4].splitlines()
    assert lines_a[0] == f"a ({prefix}HangsInPrepare):"
    assert re.fullmatch(r'  File ".*check3_test\.py", line \d+, in prepare', lines_a[1])
    assert lines_a[2] == "    await Event().wait()"
    lines_d = sections[5].splitlines()
    assert lines_d[0] == f"c.d ({prefix}HangsInStart):"
    assert re.fullmatch(r'  File ".*check3_test\.py", line \d+, in start', lines_d[1])
    assert lines_d[2] == "    await hang()"
    assert re.fullmatch(r'  File ".*check3_test\.py", line \d+, in hang', lines_d[3])


async def test_no_timeout_report_when_startup_finishes(
    caplog: LogCaptureFixture,
) -> None:
    class Root(Component):
        def __init__(self) -> None:
            self.add_component("child", Child)

        async def prepare(self) -> None:
            await sleep(0.05)

    class Child(Component):
        async def start(self) -> None:
            await sleep(0.05)

    caplog.set_level(logging.DEBUG, "asphalt.core")
    async with Context():
        for timeout in (0.5, None, 0):
            assert isinstance(await start_component(Root, timeout=timeout), Root)

    assert not [rec for rec in caplog.records if rec.levelno >= logging.WARNING]


async def test_default_name_depends_on_startup_state(caplog: LogCaptureFixture) -> None:
    """
    The default resource name is rewritten only while the component is in the "starting"
    state: not during prepare(), and no longer once start() has returned.
    """

    class Root(Component):
        def __init__(self) -> None:
            self.add_component("child/renamed", Child)

    class Child(Component):
        async def prepare(self) -> None:
            contexts.append(current_context())
            add_resource("prepare")
            await start_service_task(service, "svc")

        async def start(self) -> None:
            assert current_context() is contexts[0]
            add_resource("start")
            add_resource_factory(lambda: 1, types=int)
            await sleep(0.05)
            add_resource(b"end of start")

    async def service(*, task_status: TaskStatus[None]) -> None:
        task_status.started()

    caplog.set_level(logging.DEBUG, "asphalt.core")
    contexts: list[Context] = []
    async with Context() as ctx:
        await start_component(Root)
        assert current_context() is ctx
        component_ctx = contexts[0]
        assert component_ctx is not ctx
        assert ctx.get_resources(str) == {"default": "prepare", "renamed": "start"}
        assert ctx.get_resources(bytes) == {"renamed": b"end of start"}
        # The component context has been exited, but it still forwards to the plain
        # context which remains open
        assert component_ctx.get_resource_nowait(str) == "prepare"
        assert component_ctx.get_resource_nowait(str, "after", optional=True) is None
        with pytest.raises(ResourceNotFound):
            component_ctx.get_resource_nowait(str, "after")

        assert await component_ctx.get_resource(int, "renamed") == 1
        assert await component_ctx.get_resource(int, "nope", optional=True) is None
        assert component_ctx.get_resources(str) == ctx.get_resources(str)

    assert component_messages(caplog) == [
        "Component 'child/renamed' added a resource (type=str, name='default')",
        "Component 'child/renamed' started a service task (svc)",
        "Component 'child/renamed' added a resource (type=str, name='renamed')",
        "Component 'child/renamed' added a resource factory (type=int, name='renamed')",
        "Component 'child/renamed' added a resource (type=bytes, name='renamed')",
    ]


async def test_state_after_start_not_rewritten(caplog: LogCaptureFixture) -> None:
    class Root(Component):
        def __init__(self) -> None:
            self.add_component("child/renamed", Child)

    class Child(Component):
        async def start(self) -> None:
            contexts.append(current_context())
            add_resource("start")

    caplog.set_level(logging.DEBUG, "asphalt.core")
    contexts: list[Context] = []
    async with Context() as ctx:
        await start_component(Root)
        contexts[0].add_resource("after start")
        contexts[0].add_resource_factory(lambda: 2, types=[int], description="late")
        contexts[0].add_resource(5.5, "explicit")
        assert ctx.get_resources(str) == {"renamed": "start", "default": "after start"}
        assert ctx.get_resource_nowait(int) == 2
        assert ctx.get_resource_nowait(int, "renamed", optional=True) is None

    assert component_messages(caplog) == [
        "Component 'child/renamed' added a resource (type=str, name='renamed')",
        "Component 'child/renamed' added a resource (type=str, name='default')",
        "Component 'child/renamed' added a resource factory (types=[int], "
        "name='default', description='late')",
        "Component 'child/renamed' added a resource (type=float, name='explicit')",
    ]


async def test_delegation_target_and_context_parents() -> None:
    class Root(Component):
        def __init__(self) -> None:
            self.add_component("mid", Mid)

        async def prepare(self) -> None:
            add_teardown_callback(lambda: events.append("root teardown"))

    class Mid(Component):
        def __init__(self) -> None:
            self.add_component("deep", Deep)

    class Deep(Component):
        async def start(self) -> None:
            add_teardown_callback(deep_teardown, pass_exception=True)
            parents.append(current_context().parent)
            async with Context() as sub:
                parents.append(sub.parent)
                async with Context() as subsub:
                    parents.append(subsub.parent)
                    add_resource("hidden")

            add_resource("visible")
            events.append("deep started")

    def deep_teardown(exc: BaseException | None) -> None:
        events.append(f"deep teardown {type(exc).__name__}")

    events: list[str] = []
    parents: list[Context | None] = []
    with pytest.raises(KeyError):
        async with Context() as outer:
            await start_component(Root)
            # Teardown callbacks were added to the plain context, so they have not run
            # even though all component contexts have been exited
            events.append("started")
            assert get_resources(str) == {"default": "visible"}
            raise KeyError("foo")

    assert events == [
        "deep started",
        "started",
        "deep teardown KeyError",
        "root teardown",
    ]
    assert parents[0] is outer
    assert parents[1] is outer
    assert parents[2] is not outer and parents[2] is not None
    assert parents[2].parent is outer


async def test_child_configs_and_started_flag() -> None:
    class Container(Component):
        def __init__(self, extra: bool = False) -> None:
            self.add_component("one", Leaf, value=1)
            if extra:
                self.add_component("two", Leaf, value=2)

        async def prepare(self) -> None:
            with pytest.raises(RuntimeError, match="child components cannot be added"):
                self.add_component("three", Leaf, value=3)

        async def start(self) -> None:
            with pytest.raises(RuntimeError, match="child components cannot be added"):
                self.add_component("one", Leaf, value=4)

    class Leaf(Component):
        def __init__(self, value: int) -> None:
            values.append(value)

    class FailsInPrepare(Component):
        def __init__(self) -> None:
            self.add_component("leaf", Leaf, value=10)

        async def prepare(self) -> None:
            raise ValueError("prepare failed")

    values: list[int] = []
    # Adding components to an instance that is never started affects nothing else
    loose = Container()
    loose.add_component("loose", Leaf, value=99)
    with pytest.raises(ValueError, match="there is already a child component named"):
        loose.add_component("loose", Leaf, value=98)

    async with Context():
        first = await start_component(Container, {"extra": True})
        overrides = {"one": {"value": 5}, "zero": {"type": Leaf, "value": 0}}
        second = await start_component(Container, {"components": overrides})
        with pytest.raises(ComponentStartError) as exc_info:
            await start_component(FailsInPrepare)

        for component in (first, second):
            with pytest.raises(RuntimeError, match="child components cannot be added"):
                component.add_component("late", Leaf)

    assert values == [1, 2, 5, 0, 10]
    assert exc_info.value.path == ""
    assert isinstance(exc_info.value.__cause__, ValueError)
    # A never-started instance still accepts children
    loose.add_component("another", Leaf, value=97)
    assert values == [1, 2, 5, 0, 10]
