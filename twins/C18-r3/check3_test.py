"""
Behaviour check for refactoring 3 (local renames, all() -> explicit loop, if/else ->
conditional expression and split dispatch statements in Context.add_resource and
Context.add_resource_factory).

Exercises the C18 property for add_resource() / add_resource_factory(): every accepted
spelling of the ``types`` argument, every failure path (which must announce nothing and
publish nothing), teardown-time publication, and the module level functions.
"""

from __future__ import annotations

import warnings
from collections.abc import Sequence
from typing import Any, Union

import pytest
from anyio import create_task_group, wait_all_tasks_blocked
from anyio.abc import TaskStatus

from asphalt.core import (
    Context,
    ResourceConflict,
    ResourceEvent,
    SignalQueueFull,
    add_resource,
    add_resource_factory,
)

pytestmark = pytest.mark.anyio()


class Recorder:
    def __init__(self) -> None:
        self.events: dict[str, list[ResourceEvent]] = {}
        self.contexts: dict[str, Context] = {}

    async def listen(
        self, label: str, ctx: Context, *, task_status: TaskStatus[None]
    ) -> None:
        self.events[label] = []
        self.contexts[label] = ctx
        async with ctx.resource_added.stream_events() as stream:
            task_status.started()
            async for event in stream:
                self.events[label].append(event)

    async def take(self) -> dict[str, list[tuple[Any, ...]]]:
        """Return and clear what every listener has seen so far."""
        await wait_all_tasks_blocked()
        result: dict[str, list[tuple[Any, ...]]] = {}
        for label, events in self.events.items():
            for event in events:
                assert event.source is self.contexts[label]
                assert event.topic == "resource_added"

            result[label] = [
                (
                    e.resource_types,
                    e.resource_name,
                    e.resource_description,
                    e.is_factory,
                )
                for e in events
            ]
            events.clear()

        return result


class Base:
    pass


class Derived(Base):
    pass


async def test_add_resource_type_spellings() -> None:
    rec = Recorder()
    async with create_task_group() as tg, Context() as root, Context() as child:
        await tg.start(rec.listen, "root", root)
        await tg.start(rec.listen, "child", child)
        value = Derived()

        child.add_resource(value)  # type of the value
        child.add_resource(value, "single", Base, description="one type")
        child.add_resource(value, "tuple", (Base, Derived))
        child.add_resource(value, "list", [Derived, object, Base], description="")
        child.add_resource([1, 2], "generic", list[int])
        child.add_resource([3], "generics", [list[int], Sequence[int]])
        child.add_resource(value, "dupes", [Base, Base])
        child.add_resource(0, "falsy", int)
        child.add_resource("", "empty_types", [])
        assert await rec.take() == {
            "root": [],
            "child": [
                ((Derived,), "default", None, False),
                ((Base,), "single", "one type", False),
                ((Base, Derived), "tuple", None, False),
                ((Derived, object, Base), "list", "", False),
                ((list[int],), "generic", None, False),
                ((list[int], Sequence[int]), "generics", None, False),
                ((Base, Base), "dupes", None, False),
                ((int,), "falsy", None, False),
                ((str,), "empty_types", None, False),
            ],
        }
        assert child.get_resource_nowait(Base, "list") is value
        assert child.get_resource_nowait(object, "list") is value
        assert child.get_resource_nowait(list[int], "generic") == [1, 2]
        assert child.get_resource_nowait(Sequence[int], "generics") == [3]  # type: ignore[type-abstract]
        assert child.get_resource_nowait(Base, "dupes") is value
        assert child.get_resource_nowait(Derived, "dupes", optional=True) is None
        assert root.get_resource_nowait(Derived, optional=True) is None
        assert await rec.take() == {"root": [], "child": []}
        tg.cancel_scope.cancel()


async def test_add_resource_failures_announce_nothing() -> None:
    rec = Recorder()
    async with create_task_group() as tg, Context() as root, Context() as child:
        await tg.start(rec.listen, "root", root)
        await tg.start(rec.listen, "child", child)
        child.add_resource(1, "taken")
        child.add_resource(1.5, "taken")
        assert await rec.take() == {
            "root": [],
            "child": [
                ((int,), "taken", None, False),
                ((float,), "taken", None, False),
            ],
        }

        with pytest.raises(ValueError, match='"value" must not be None'):
            child.add_resource(None)

        with pytest.raises(ValueError, match='"value" must not be None'):
            child.add_resource(None, "x", [int, str])

        # The types are validated before the value and the name
        with pytest.raises(TypeError, match="types must be a type or sequence of"):
            child.add_resource(None, "bad name", [int, "str"])  # type: ignore[list-item]

        with pytest.raises(TypeError, match="types must be a type or sequence of"):
            child.add_resource(5, "x", 5)  # type: ignore[arg-type]

        with pytest.raises(TypeError, match="types must be a type or sequence of"):
            child.add_resource(5, "x", ["int"])  # type: ignore[list-item]

        with pytest.raises(TypeError, match="types must be a type or sequence of"):
            child.add_resource(5, "x", (list[int], 3, str))  # type: ignore[arg-type]

        for bad_name in ("", "a b", "a.b", "ä-"):
            with pytest.raises(ValueError, match='"name" must be a nonempty string'):
                child.add_resource(5, bad_name)

        # Conflict on the first, on a later and on a generic type
        with pytest.raises(ResourceConflict, match="of type int using the name 'tak"):
            child.add_resource(2, "taken")

        with pytest.raises(ResourceConflict, match="of type float using the name"):
            child.add_resource("s", "taken", [str, bytes, float, int])

        # Not a callable teardown callback: rejected before anything is published
        with pytest.raises(TypeError, match="callback must be a callable"):
            child.add_resource("s", "cb", teardown_callback="nope")  # type: ignore[arg-type]

        assert await rec.take() == {"root": [], "child": []}
        assert child.get_resources(str) == {}
        assert child.get_resources(bytes) == {}
        assert child.get_resources(int) == {"taken": 1}
        assert child.get_resource_nowait(str, "taken", optional=True) is None
        assert child.get_resource_nowait(str, "cb", optional=True) is None

        # The same name/type is fine in another context of the tree (announced there)
        root.add_resource(2, "taken")
        assert await rec.take() == {
            "root": [((int,), "taken", None, False)],
            "child": [],
        }
        tg.cancel_scope.cancel()


async def test_add_resource_state_checks_and_teardown_time_publication() -> None:
    rec = Recorder()
    torn_down: list[str] = []
    ctx = Context()
    with pytest.raises(RuntimeError, match="has not been entered yet"):
        ctx.add_resource(1)

    with pytest.raises(RuntimeError, match="has not been entered yet"):
        ctx.add_resource_factory(lambda: 1, types=int)

    def late_publisher() -> None:
        # The context is closing: resources may still be added, factories may not
        ctx.add_resource("late", description="added during teardown")
        with pytest.raises(RuntimeError, match="this context is being torn down"):
            ctx.add_resource_factory(lambda: 1, types=int)

    async with create_task_group() as tg:
        async with ctx:
            await tg.start(rec.listen, "ctx", ctx)
            ctx.add_teardown_callback(late_publisher)
            ctx.add_resource(
                1, teardown_callback=lambda: torn_down.append("int"), description="i"
            )
            assert await rec.take() == {"ctx": [((int,), "default", "i", False)]}

        assert torn_down == ["int"]
        assert await rec.take() == {
            "ctx": [((str,), "default", "added during teardown", False)]
        }
        with pytest.raises(RuntimeError, match="has already been closed"):
            ctx.add_resource(2, "two")

        with pytest.raises(RuntimeError, match="has already been closed"):
            ctx.add_resource_factory(lambda: 1, types=int)

        assert await rec.take() == {"ctx": []}
        tg.cancel_scope.cancel()


async def test_add_resource_factory_type_spellings_and_failures() -> None:
    rec = Recorder()

    def union_factory() -> Union[int, float]:  # noqa: UP007
        return 1

    def pep604_factory() -> bytes | bytearray:
        return b""

    def plain_factory() -> str:
        return "s"

    def generic_factory() -> list[int]:
        return [1]

    def unannotated():  # type: ignore[no-untyped-def]
        return object()

    async with create_task_group() as tg, Context() as root, Context() as child:
        await tg.start(rec.listen, "root", root)
        await tg.start(rec.listen, "child", child)

        child.add_resource_factory(union_factory, description="union")
        child.add_resource_factory(pep604_factory, "b")
        child.add_resource_factory(plain_factory)
        child.add_resource_factory(generic_factory, "g", description="")
        child.add_resource_factory(unannotated, "single", types=Base)
        child.add_resource_factory(unannotated, "seq", types=[Base, Derived])
        child.add_resource_factory(unannotated, "tup", types=(Derived,))
        child.add_resource_factory(plain_factory, "override", types=[object])
        expected = [
            ((int, float), "default", "union", True),
            ((bytes, bytearray), "b", None, True),
            ((str,), "default", None, True),
            ((list[int],), "g", "", True),
            ((Base,), "single", None, True),
            ((Base, Derived), "seq", None, True),
            ((Derived,), "tup", None, True),
            ((object,), "override", None, True),
        ]
        assert await rec.take() == {"root": [], "child": expected}

        # Failures
        with pytest.raises(ValueError, match="does not have a return type hint"):
            child.add_resource_factory(unannotated, "nohint")

        with pytest.raises(ValueError, match="does not have a return type hint"):
            child.add_resource_factory(unannotated, "nohint", types=())

        with pytest.raises(TypeError, match="None is not a valid resource type"):
            child.add_resource_factory(unannotated, "none", types=[Base, None])  # type: ignore[list-item]

        for bad_name in ("", "a b", "a:b"):
            with pytest.raises(ValueError, match='"name" must be a nonempty string'):
                child.add_resource_factory(plain_factory, bad_name)

        # The name is validated before the types
        with pytest.raises(ValueError, match='"name" must be a nonempty string'):
            child.add_resource_factory(unannotated, "a b")

        with pytest.raises(ResourceConflict, match="resource factory for the type int"):
            child.add_resource_factory(union_factory)

        with pytest.raises(ResourceConflict, match="factory for the type float"):
            child.add_resource_factory(unannotated, types=[complex, float, int])

        assert await rec.take() == {"root": [], "child": []}
        # Nothing of the partially conflicting registration was kept
        assert child.get_resource_nowait(complex, optional=True) is None

        # A factory does not conflict with a plain resource of the same type/name, and
        # the same factory key is free in the parent context
        child.add_resource(5)
        root.add_resource_factory(union_factory, description="root union")
        assert await rec.take() == {
            "root": [((int, float), "default", "root union", True)],
            "child": [((int,), "default", None, False)],
        }
        tg.cancel_scope.cancel()


async def test_module_level_functions_publish_on_current_context() -> None:
    rec = Recorder()

    def factory() -> frozenset:  # type: ignore[type-arg]
        return frozenset()

    async with create_task_group() as tg, Context() as root:
        await tg.start(rec.listen, "root", root)
        add_resource("r", "on_root", description="root res")
        async with Context() as child:
            await tg.start(rec.listen, "child", child)
            add_resource("c", "on_child", [str, object], description="child res")
            add_resource_factory(factory, "fs", description="child factory")
            add_resource_factory(factory, "fs2", types=[frozenset, set])
            with pytest.raises(ResourceConflict):
                add_resource("again", "on_root")  # inherited from the root context

            with pytest.raises(ResourceConflict):
                add_resource_factory(factory, "fs")

        add_resource_factory(factory, "fs")
        assert await rec.take() == {
            "root": [
                ((str,), "on_root", "root res", False),
                ((frozenset,), "fs", None, True),
            ],
            "child": [
                ((str, object), "on_child", "child res", False),
                ((frozenset,), "fs", "child factory", True),
                ((frozenset, set), "fs2", None, True),
            ],
        }
        tg.cancel_scope.cancel()


async def test_full_listener_queue_warns_and_other_listeners_still_get_event() -> None:
    """A listener with a full queue gets a SignalQueueFull warning, others the event."""
    rec = Recorder()
    async with create_task_group() as tg, Context() as ctx:
        await tg.start(rec.listen, "ctx", ctx)
        async with ctx.resource_added.stream_events(max_queue_size=1) as stream:
            ctx.add_resource(1, "first")
            with pytest.warns(SignalQueueFull):
                ctx.add_resource(2, "second")

            with pytest.warns(SignalQueueFull):
                ctx.add_resource_factory(lambda: 1.5, "third", types=float)

            with warnings.catch_warnings():
                warnings.simplefilter("error")
                event = await stream.__anext__()
                assert event.resource_name == "first"

        assert await rec.take() == {
            "ctx": [
                ((int,), "first", None, False),
                ((int,), "second", None, False),
                ((float,), "third", None, True),
            ]
        }
        tg.cancel_scope.cancel()
