"""
Behaviour check for refactoring 3 (the loops that collect the injected keyword
arguments in ``inject.<locals>.resolve_resources`` / ``resolve_resources_async``
replaced by dict comprehensions).

Exercises the call-time part of the property: the injected values are exactly what
get_resource() / get_resource_nowait() return in the context that is current *at
call time*, for static, factory-made, inherited and missing resources, in sync and
async functions, including error paths (ResourceNotFound, AsyncResourceError, a
failing factory, cancellation while waiting for an async factory), re-entrancy and
concurrently running tasks in different contexts.
"""

from __future__ import annotations

from typing import Any, Optional

import anyio
import pytest
from anyio import create_task_group, fail_after, wait_all_tasks_blocked

from asphalt.core import (
    AsyncResourceError,
    Context,
    NoCurrentContext,
    ResourceNotFound,
    add_resource,
    add_resource_factory,
    current_context,
    get_resource,
    get_resource_nowait,
    inject,
    resource,
)

pytestmark = pytest.mark.anyio()


class Thing:
    def __init__(self, tag: str) -> None:
        self.tag = tag

    def __repr__(self) -> str:
        return f"Thing({self.tag!r})"


@inject
async def afunc(
    a: int,
    r1: Thing = resource(),
    *,
    k: str = "k",
    r2: Optional[Thing] = resource("second"),
    r3: str | None = resource("third"),
) -> Any:
    return a, r1, k, r2, r3


@inject
def sfunc(
    a: int,
    r1: Thing = resource(),
    *,
    k: str = "k",
    r2: Optional[Thing] = resource("second"),
    r3: str | None = resource("third"),
) -> Any:
    return a, r1, k, r2, r3


async def explicit_async(a: int, k: str = "k") -> Any:
    return (
        a,
        await get_resource(Thing),
        k,
        await get_resource(Thing, "second", optional=True),
        await get_resource(str, "third", optional=True),
    )


def explicit_sync(a: int, k: str = "k") -> Any:
    return (
        a,
        get_resource_nowait(Thing),
        k,
        get_resource_nowait(Thing, "second", optional=True),
        get_resource_nowait(str, "third", optional=True),
    )


async def test_static_inherited_and_missing() -> None:
    outer, inner = Thing("outer"), Thing("inner")
    async with Context():
        add_resource(outer)
        assert await afunc(1) == await explicit_async(1) == (1, outer, "k", None, None)
        assert sfunc(1) == explicit_sync(1) == (1, outer, "k", None, None)
        async with Context():
            add_resource(inner, "second")
            add_resource("3rd", "third")
            expected = (2, outer, "K", inner, "3rd")
            assert await afunc(2, k="K") == await explicit_async(2, "K") == expected
            assert sfunc(2, k="K") == explicit_sync(2, "K") == expected
            # identity, not just equality
            assert (await afunc(2))[1] is outer and sfunc(2)[3] is inner

        # the inner context's resources are gone again
        assert await afunc(3) == (3, outer, "k", None, None)
        assert sfunc(3) == (3, outer, "k", None, None)


async def test_sibling_child_contexts() -> None:
    left, right, shared = Thing("left"), Thing("right"), Thing("shared")
    async with Context():
        add_resource(shared, "second")
        async with Context():
            add_resource(left)
            assert (await afunc(0))[1] is left is await get_resource(Thing)
            assert sfunc(0) == (0, left, "k", shared, None)

        async with Context():
            add_resource(right)
            assert (await afunc(0))[1] is right
            assert sfunc(0) == (0, right, "k", shared, None)

        with pytest.raises(ResourceNotFound):
            sfunc(0)


async def test_missing_required_resource_raises_before_body() -> None:
    ran: list[str] = []

    @inject
    async def a_inner(opt: Optional[str] = resource(), req: Thing = resource()) -> None:
        ran.append("a")

    @inject
    def s_inner(opt: Optional[str] = resource(), req: Thing = resource()) -> None:
        ran.append("s")

    async with Context():
        with pytest.raises(ResourceNotFound) as exc:
            await a_inner()

        assert (exc.value.type, exc.value.name) == (Thing, "default")
        assert str(exc.value) == str(ResourceNotFound(Thing, "default"))
        with pytest.raises(ResourceNotFound) as exc:
            s_inner()

        assert (exc.value.type, exc.value.name) == (Thing, "default")
        assert ran == []
        # Same exception as the explicit lookup
        with pytest.raises(ResourceNotFound):
            get_resource_nowait(Thing)


async def test_factories_sync_and_async() -> None:
    made: list[str] = []

    def sync_factory() -> Thing:
        made.append("sync")
        return Thing(f"sync{len(made)}")

    async def async_factory() -> Thing:
        await anyio.sleep(0)
        made.append("async")
        return Thing(f"async{len(made)}")

    async with Context():
        add_resource_factory(sync_factory, types=[Thing])
        add_resource_factory(async_factory, "second", types=[Thing])

        # sync function + async factory for an (optional) parameter: same error as
        # get_resource_nowait, raised before the body runs
        async with Context():
            with pytest.raises(AsyncResourceError):
                sfunc(1)

            with pytest.raises(AsyncResourceError):
                get_resource_nowait(Thing, "second", optional=True)

            # the first (sync) factory had already been triggered by the failed call
            assert made == ["sync"]
            first = get_resource_nowait(Thing)
            assert first.tag == "sync1"
            assert made == ["sync"]

        made.clear()
        async with Context():
            result = await afunc(1)
            assert made == ["sync", "async"]
            assert result == await explicit_async(1)
            assert result[1].tag == "sync1" and result[3].tag == "async2"
            # generated once per context: the second call reuses them
            again = await afunc(1)
            assert again[1] is result[1] and again[3] is result[3]
            assert made == ["sync", "async"]
            # and now that it has been generated, the sync variant sees it too
            assert sfunc(1) == result

        # a new context generates new ones
        async with Context():
            other = await afunc(1)
            assert other[1] is not result[1]
            assert made == ["sync", "async", "sync", "async"]


async def test_failing_factory_propagates_and_skips_later_lookups() -> None:
    calls: list[str] = []

    def bad_factory() -> Thing:
        calls.append("bad")
        raise RuntimeError("factory failed")

    def later_factory() -> str:
        calls.append("later")
        return "later"

    async with Context():
        add_resource_factory(bad_factory, types=[Thing])
        add_resource_factory(later_factory, "third", types=[str])
        async with Context():
            with pytest.raises(RuntimeError, match="factory failed"):
                await afunc(1)

            with pytest.raises(RuntimeError, match="factory failed"):
                sfunc(1)

            assert calls == ["bad", "bad"]
            assert get_resource_nowait(str, "third") == "later"


async def test_context_is_looked_up_at_call_time() -> None:
    with pytest.raises(NoCurrentContext):
        sfunc(1)

    with pytest.raises(NoCurrentContext):
        await afunc(1)

    one, two = Thing("one"), Thing("two")
    async with Context() as ctx1:
        add_resource(one)
        assert sfunc(1)[1] is one

    async with Context() as ctx2:
        add_resource(two)
        assert current_context() is ctx2 is not ctx1
        assert sfunc(1)[1] is two
        assert (await afunc(1))[1] is two


async def test_concurrent_tasks_in_different_contexts() -> None:
    results: dict[str, Any] = {}
    release = anyio.Event()

    async def slow_factory() -> str:
        await release.wait()
        return "slow-" + get_resource_nowait(Thing).tag

    async def worker(tag: str) -> None:
        async with Context():
            add_resource(Thing(tag))
            results[tag] = await afunc(len(tag))

    with fail_after(5):
        async with Context():
            add_resource_factory(slow_factory, "third", types=[str])
            async with create_task_group() as tg:
                tg.start_soon(worker, "x")
                tg.start_soon(worker, "yy")
                await wait_all_tasks_blocked()
                assert results == {}
                release.set()

    assert results["x"][0] == 1 and results["x"][1].tag == "x"
    assert results["x"][4] == "slow-x"
    assert results["yy"][0] == 2 and results["yy"][1].tag == "yy"
    assert results["yy"][4] == "slow-yy"


async def test_cancellation_while_waiting_for_async_factory() -> None:
    ran: list[str] = []
    started = anyio.Event()

    async def never_factory() -> str:
        started.set()
        await anyio.sleep_forever()
        return "never"

    @inject
    async def func(r: str = resource("never")) -> None:
        ran.append("body")

    with fail_after(5):
        async with Context():
            add_resource_factory(never_factory, "never", types=[str])
            async with create_task_group() as tg:
                tg.start_soon(func)
                await started.wait()
                tg.cancel_scope.cancel()

            assert ran == []
            # nothing was stored for the aborted lookup
            assert get_resource_nowait(Thing, "never", optional=True) is None


async def test_reentrant_injection_from_factory() -> None:
    @inject
    def make_label(base: Thing = resource(), suffix: Optional[str] = resource("sfx")) -> str:
        return base.tag + (suffix or "")

    @inject
    async def func(label: str = resource("label"), base: Thing = resource()) -> Any:
        return label, base

    async with Context():
        add_resource(Thing("base"))
        add_resource_factory(make_label, "label", types=[str])
        async with Context():
            add_resource("!", "sfx")
            assert await func() == ("base!", get_resource_nowait(Thing))

        async with Context():
            assert await func() == ("base", get_resource_nowait(Thing))


async def test_falsy_resource_values_are_injected_as_is() -> None:
    @inject
    def func(
        n: int = resource(), s: Optional[str] = resource(), t: Optional[tuple] = resource()  # type: ignore[type-arg]
    ) -> Any:
        return n, s, t

    async with Context():
        add_resource(0)
        add_resource("")
        assert func() == (0, "", None)
        assert func() == (
            get_resource_nowait(int),
            get_resource_nowait(str, optional=True),
            get_resource_nowait(tuple, optional=True),
        )
