"""
Property check C05 (component trees start in order: construct all, prepare, children,
then start), exercised through the public API only.

Must pass both on the unchanged source and with refactor3.diff applied.

Scenario focus of this file: trees that mix components that have something to run with
"placeholder" components (no prepare(), no start(), with or without children) in every
position: as the root, as the only child, between busy siblings, as all of the children.
"""

from __future__ import annotations

import random
from typing import Any

import anyio
import pytest
from anyio import fail_after, sleep

from asphalt.core import (
    Component,
    Context,
    add_resource,
    add_resource_factory,
    add_teardown_callback,
    get_resource,
    get_resource_nowait,
    start_component,
    start_service_task,
)

pytestmark = pytest.mark.anyio


@pytest.fixture(params=["asyncio", "trio"])
def anyio_backend(request: pytest.FixtureRequest) -> str:
    return request.param


# --------------------------------------------------------------------------------------
# Harness: a configurable component tree that records everything that happens
# --------------------------------------------------------------------------------------

EVENTS: list[tuple[str, str]] = []
TORN_DOWN: list[str] = []


class _Base(Component):
    """
    Configuration keys:

    label       unique name of the node (used in the recorded events)
    children    {alias: spec}
    prepare_delay / start_delay         seconds to sleep in the phase
    prepare_provides / start_provides   names of str resources added in the phase
    prepare_needs / start_needs         names of str resources awaited first in the phase
    prepare_needs_late / start_needs_late   ... awaited after providing its own
    prepare_teardown / start_teardown   register a teardown callback in the phase
    barrier     name of a rendezvous that all siblings sharing it must have reached in
                start() before any of them may continue (proves concurrency)
    """

    def __init__(self, label: str, **spec: Any) -> None:
        self.label = label
        self.spec = spec
        EVENTS.append(("init", label))
        for alias, child_spec in spec.get("children", {}).items():
            self.add_component(alias, **child_spec)

    async def _phase(self, phase: str) -> None:
        EVENTS.append((f"{phase}>", self.label))
        for name in self.spec.get(f"{phase}_needs", ()):
            value = await get_resource(str, name)
            assert value == f"res:{name}"

        delay = self.spec.get(f"{phase}_delay")
        if delay is not None:
            await sleep(delay)

        for name in self.spec.get(f"{phase}_provides", ()):
            add_resource(f"res:{name}", name)

        if phase == "start" and (barrier := self.spec.get("barrier")):
            await BARRIERS[barrier].arrive()

        for name in self.spec.get(f"{phase}_needs_late", ()):
            value = await get_resource(str, name)
            assert value == f"res:{name}"

        if self.spec.get(f"{phase}_teardown"):
            label = self.label
            add_teardown_callback(lambda: TORN_DOWN.append(f"{label}:{phase}"))

        EVENTS.append((f"{phase}<", self.label))


class NodePS(_Base):
    async def prepare(self) -> None:
        await self._phase("prepare")

    async def start(self) -> None:
        await self._phase("start")


class NodeP(_Base):
    async def prepare(self) -> None:
        await self._phase("prepare")


class NodeS(_Base):
    async def start(self) -> None:
        await self._phase("start")


class NodeNone(_Base):
    pass


class Barrier:
    def __init__(self, parties: int) -> None:
        self.parties = parties
        self.arrived = 0
        self.event = anyio.Event()

    async def arrive(self) -> None:
        self.arrived += 1
        if self.arrived == self.parties:
            self.event.set()

        await self.event.wait()


BARRIERS: dict[str, Barrier] = {}


def node(cls: type[_Base], label: str, **spec: Any) -> dict[str, Any]:
    return {"type": cls, "label": label, **spec}


def walk(spec: dict[str, Any]) -> list[dict[str, Any]]:
    found = [spec]
    for child in spec.get("children", {}).values():
        found.extend(walk(child))

    return found


def descendants(spec: dict[str, Any]) -> list[dict[str, Any]]:
    return walk(spec)[1:]


def has(spec: dict[str, Any], phase: str) -> bool:
    return getattr(spec["type"], phase) is not getattr(Component, phase)


def verify_order(root_spec: dict[str, Any], events: list[tuple[str, str]]) -> None:
    nodes = walk(root_spec)
    labels = [n["label"] for n in nodes]
    assert len(set(labels)) == len(labels)

    # The whole hierarchy is instantiated (each component once) before any prepare() or
    # start() runs
    assert sorted(e[1] for e in events[: len(nodes)]) == sorted(labels)
    assert all(e[0] == "init" for e in events[: len(nodes)])
    assert all(e[0] != "init" for e in events[len(nodes) :])

    # Each method exactly once (and never if not implemented)
    for n in nodes:
        for phase in ("prepare", "start"):
            expected = 1 if has(n, phase) else 0
            assert events.count((f"{phase}>", n["label"])) == expected
            assert events.count((f"{phase}<", n["label"])) == expected

    def index(kind: str, label: str) -> int:
        return events.index((kind, label))

    def first_activity(label: str) -> int | None:
        for i, (kind, lbl) in enumerate(events):
            if lbl == label and kind != "init":
                return i

        return None

    for n in nodes:
        if has(n, "prepare") and has(n, "start"):
            assert index("prepare<", n["label"]) < index("start>", n["label"])

        for d in descendants(n):
            # prepare() completes before any of the children (descendants) begin
            if has(n, "prepare") and (first := first_activity(d["label"])) is not None:
                assert index("prepare<", n["label"]) < first

            # start() is called only after the start() (and prepare()) of every
            # descendant has returned
            if has(n, "start"):
                for phase in ("prepare", "start"):
                    if has(d, phase):
                        assert index(f"{phase}<", d["label"]) < index(
                            "start>", n["label"]
                        )


async def run_tree(root_spec: dict[str, Any], **kwargs: Any) -> Component:
    """Start the tree, check the return value and the ordering, return the root."""
    config = {k: v for k, v in root_spec.items() if k != "type"}
    with fail_after(10):
        root = await start_component(root_spec["type"], config, **kwargs)

    assert type(root) is root_spec["type"]
    assert isinstance(root, _Base) and root.label == root_spec["label"]
    if has(root_spec, "start"):
        # start_component() returns only after the root's start() has returned
        assert EVENTS[-1] == ("start<", root_spec["label"])

    verify_order(root_spec, list(EVENTS))
    return root


@pytest.fixture(autouse=True)
def reset() -> None:
    EVENTS.clear()
    TORN_DOWN.clear()
    BARRIERS.clear()


# --------------------------------------------------------------------------------------
# Scenarios
# --------------------------------------------------------------------------------------


def placeholder_heavy_tree(seed: int) -> dict[str, Any]:
    """
    Random tree in which about half of the components are placeholders (NodeNone or the
    plain Component class). Components with a start() publish ``out_<label>``; a parent
    waits for the output of its started children, each started sibling waits for the
    next started sibling (against declaration order), and components with a prepare()
    publish ``prep_<label>`` that their descendants pick up.
    """
    rng = random.Random(seed)
    counter = iter(range(10_000))

    def build(depth: int, inherited: list[str]) -> dict[str, Any]:
        label = f"n{next(counter)}"
        cls = rng.choice([NodePS, NodeS, NodeP, NodeNone, NodeNone, NodeNone])
        spec: dict[str, Any] = {}
        available = list(inherited)
        if cls in (NodePS, NodeP):
            spec["prepare_delay"] = rng.choice([None, 0, 0.01])
            spec["prepare_provides"] = [f"prep_{label}"]
            spec["prepare_teardown"] = True
            available.append(f"prep_{label}")

        fanout = 0 if depth == 0 else rng.choice([0, 1, 2, 3, 5])
        children = [build(depth - 1, available) for _ in range(fanout)]
        started = [c for c in children if c["type"] in (NodePS, NodeS)]
        for child, next_child in zip(started, started[1:]):
            child["start_needs_late"] = [f"out_{next_child['label']}"]

        if cls in (NodePS, NodeS):
            spec["start_delay"] = rng.choice([None, 0, 0.01, 0.03])
            spec["start_provides"] = [f"out_{label}"]
            spec["start_needs"] = [f"out_{c['label']}" for c in started] + inherited[-1:]

        if children:
            spec["children"] = {f"c{i}": child for i, child in enumerate(children)}

        return node(cls, label, **spec)

    return build(3, [])


def provided(spec: dict[str, Any]) -> list[str]:
    names: list[str] = []
    for n in walk(spec):
        names.extend(n.get("prepare_provides", ()))
        names.extend(n.get("start_provides", ()))

    return names


@pytest.mark.parametrize("seed", range(14))
async def test_placeholder_heavy_trees(seed: int) -> None:
    spec = placeholder_heavy_tree(seed)
    async with Context() as ctx:
        await run_tree(spec, timeout=None if seed % 2 else 8)
        for name in provided(spec):
            assert ctx.get_resource_nowait(str, name) == f"res:{name}"

        assert TORN_DOWN == []

    assert sorted(TORN_DOWN) == sorted(
        f"{n['label']}:prepare" for n in walk(spec) if n.get("prepare_teardown")
    )


async def test_placeholders_between_busy_siblings() -> None:
    BARRIERS["busy"] = Barrier(3)
    spec = node(
        NodePS,
        "root",
        prepare_provides=["root_prep"],
        prepare_delay=0.02,
        start_needs=["b1_out", "b2_out", "b3_out", "deep_out"],
        children={
            "p1": node(NodeNone, "p1"),
            "b1": node(NodeS, "b1", barrier="busy", start_provides=["b1_out"],
                       start_needs_late=["b3_out"]),
            "p2": node(NodeNone, "p2"),
            "b2": node(NodePS, "b2", barrier="busy", prepare_needs=["root_prep"],
                       start_provides=["b2_out"], start_needs_late=["deep_out"]),
            "p3": node(
                NodeNone,
                "p3",  # a placeholder *with* children is a container, not a leaf
                children={
                    "p3a": node(NodeNone, "p3a"),
                    "deep": node(NodeS, "deep", start_delay=0.03,
                                 start_provides=["deep_out"], start_teardown=True),
                    "p3b": node(NodeNone, "p3b", children={"p3b1": node(NodeNone, "p3b1")}),
                },
            ),
            "b3": node(NodeS, "b3", barrier="busy", start_delay=0.01,
                       start_provides=["b3_out"]),
            "plain": {"type": Component},
        },
    )
    # The plain Component cannot record its construction; leave it out of the spec that
    # is verified but keep it in the configuration
    config = {k: v for k, v in spec.items() if k != "type"}
    verified = dict(spec, children={k: v for k, v in spec["children"].items() if k != "plain"})
    async with Context():
        with fail_after(10):
            root = await start_component(NodePS, config)

        assert type(root) is NodePS
        assert EVENTS[-1] == ("start<", "root")
        verify_order(verified, list(EVENTS))
        assert BARRIERS["busy"].arrived == 3
        for name in ("root_prep", "b1_out", "b2_out", "b3_out", "deep_out"):
            assert get_resource_nowait(str, name) == f"res:{name}"

        assert TORN_DOWN == []

    assert TORN_DOWN == ["deep:start"]


@pytest.mark.parametrize("root_cls", [NodeNone, NodeP, NodeS, NodePS])
@pytest.mark.parametrize("fanout", [1, 2, 6])
async def test_all_children_are_placeholders(root_cls: type[_Base], fanout: int) -> None:
    spec = node(
        root_cls,
        "root",
        prepare_delay=0.01,
        prepare_provides=["p"],
        start_provides=["s"],
        start_teardown=True,
        children={f"c{i}": node(NodeNone, f"c{i}") for i in range(fanout)},
    )
    async with Context():
        root = await run_tree(spec)
        assert isinstance(root, root_cls)
        expected = [("init", "root")] + [("init", f"c{i}") for i in range(fanout)]
        if has(spec, "prepare"):
            expected += [("prepare>", "root"), ("prepare<", "root")]
            assert get_resource_nowait(str, "p") == "res:p"

        if has(spec, "start"):
            expected += [("start>", "root"), ("start<", "root")]
            assert get_resource_nowait(str, "s") == "res:s"

        assert EVENTS == expected
        assert TORN_DOWN == []

    assert TORN_DOWN == (["root:start"] if has(spec, "start") else [])


async def test_lone_placeholder_root_and_only_child_chain() -> None:
    async with Context():
        root = await run_tree(node(NodeNone, "solo"))
        assert EVENTS == [("init", "solo")]
        assert type(root) is NodeNone

    EVENTS.clear()
    chain = node(
        NodeNone,
        "l0",
        children={
            "x": node(
                NodeP,
                "l1",
                prepare_provides=["l1_prep"],
                children={
                    "x": node(
                        NodeNone,
                        "l2",
                        children={
                            "x": node(
                                NodeS,
                                "l3",
                                start_needs=["l1_prep"],
                                start_provides=["l3_out"],
                                children={"x": node(NodeNone, "l4")},
                            )
                        },
                    )
                },
            )
        },
    )
    async with Context():
        await run_tree(chain, timeout=None)
        assert EVENTS[5:] == [
            ("prepare>", "l1"),
            ("prepare<", "l1"),
            ("start>", "l3"),
            ("start<", "l3"),
        ]
        assert get_resource_nowait(str, "l3_out") == "res:l3_out"


@pytest.mark.parametrize("timeout", [None, 9], ids=["no-timeout", "timeout-9"])
async def test_siblings_start_concurrently(timeout: float | None) -> None:
    """
    All children of a component must be in start() at the same time: each of the five
    siblings blocks until all five have arrived, and they depend on each other's
    resources in a chain that runs against the declaration order.
    """
    fanout = 5
    BARRIERS["kids"] = Barrier(fanout)
    children = {}
    for i in range(fanout):
        spec: dict[str, Any] = {"barrier": "kids", "start_provides": [f"r{i}"]}
        if i < fanout - 1:
            spec["start_needs_late"] = [f"r{i + 1}"]

        if i % 2:
            spec["start_delay"] = 0.01 * i

        children[f"kid{i}"] = node(NodeS if i % 2 else NodePS, f"kid{i}", **spec)

    root_spec = node(NodeS, "root", start_needs=["r0"], children=children)
    async with Context():
        await run_tree(root_spec, timeout=timeout)
        assert BARRIERS["kids"].arrived == fanout
        starts = [e for e in EVENTS if e[0] == "start>" and e[1].startswith("kid")]
        ends = [e for e in EVENTS if e[0] == "start<" and e[1].startswith("kid")]
        # every sibling entered start() before any sibling left it
        assert max(EVENTS.index(e) for e in starts) < min(
            EVENTS.index(e) for e in ends
        )


async def test_registrations_belong_to_callers_context() -> None:
    stopped: list[str] = []

    class Registrar(Component):
        def __init__(self, tag: str, nested: bool = False) -> None:
            self.tag = tag
            if nested:
                self.add_component("inner", Registrar, tag=f"{tag}_inner")

        async def prepare(self) -> None:
            add_resource(f"prepared {self.tag}", f"{self.tag}_prepared")

        async def start(self) -> None:
            tag = self.tag

            def factory() -> int:
                return len(tag)

            async def service(*, task_status: Any) -> None:
                task_status.started()
                try:
                    await anyio.sleep_forever()
                finally:
                    stopped.append(tag)

            add_resource_factory(factory, f"{tag}_factory", types=[int])
            add_teardown_callback(lambda: TORN_DOWN.append(tag))
            await start_service_task(service, f"service of {tag}")

    class Top(Component):
        def __init__(self) -> None:
            self.add_component("x", Registrar, tag="x", nested=True)
            self.add_component("y", Registrar, tag="y")

    async with Context() as outer:
        async with Context() as ctx:
            with fail_after(10):
                root = await start_component(Top)

            assert type(root) is Top
            for tag in ("x", "x_inner", "y"):
                assert ctx.get_resource_nowait(str, f"{tag}_prepared") == (
                    f"prepared {tag}"
                )
                assert ctx.get_resource_nowait(int, f"{tag}_factory") == len(tag)

            await sleep(0.02)
            assert TORN_DOWN == [] and stopped == []

        # Torn down with the context that was current during start_component()...
        assert sorted(TORN_DOWN) == ["x", "x_inner", "y"]
        assert sorted(stopped) == ["x", "x_inner", "y"]
        # ...and nothing leaked into the surrounding context
        assert outer.get_resource_nowait(str, "x_prepared", optional=True) is None
