"""
Property C03 checks, focused on add_resource / add_resource_factory calls that are
rejected because of their arguments (name, value, types, teardown callback): such a call
must leave the context observably unchanged.

Must pass both on the unchanged source and with refactor2.diff applied.
"""

from __future__ import annotations

from contextlib import asynccontextmanager
from itertools import count
from typing import Any, AsyncIterator

import pytest

from asphalt.core import Context, ResourceConflict, ResourceEvent

pytestmark = pytest.mark.anyio

ALL_TYPES = (int, str, float, bytes, complex)
BAD_STR_NAMES = ["", "a.b", "a b", "a-b", "a\n", " a", "a:b", "ä/ö"]
BAD_OTHER_NAMES = [None, 5, b"abc", ("a",)]
GOOD_NAMES = ["default", "a", "A", "_", "a_1", "0", "ñandú", "x" * 200]


@pytest.fixture
def anyio_backend() -> str:
    return "asyncio"


_sentinel_counter = count()


class Recorder:
    """Records the resource_added events of a context up to a sentinel add."""

    def __init__(self, ctx: Context, stream: AsyncIterator[ResourceEvent]) -> None:
        self.ctx = ctx
        self.stream = stream

    async def events(self) -> list[tuple[tuple[Any, ...], str, bool]]:
        sentinel = f"zz_sentinel_{next(_sentinel_counter)}"
        self.ctx.add_resource(object(), sentinel, [Recorder])
        collected = []
        async for event in self.stream:
            if event.resource_name == sentinel:
                break

            collected.append(
                (event.resource_types, event.resource_name, event.is_factory)
            )

        return collected


@asynccontextmanager
async def recording(ctx: Context) -> AsyncIterator[Recorder]:
    async with ctx.resource_added.stream_events() as stream:
        yield Recorder(ctx, stream)


def snapshot(ctx: Context, names: list[Any]) -> dict[Any, Any]:
    """
    What is visible through the public lookup API without triggering factories that
    have not been triggered yet (there are none in the tests using this).
    """
    result: dict[Any, Any] = {}
    for type_ in ALL_TYPES:
        result[type_] = dict(ctx.get_resources(type_))
        for name in names:
            try:
                hash(name)
            except TypeError:
                continue

            result[type_, name] = ctx.get_resource_nowait(type_, name, optional=True)

    return result


@pytest.mark.parametrize("name", BAD_STR_NAMES + BAD_OTHER_NAMES, ids=repr)
async def test_add_resource_with_invalid_name_changes_nothing(name: Any) -> None:
    torn_down: list[str] = []
    async with Context() as ctx:
        ctx.add_resource(1, "keep")
        before = snapshot(ctx, [name, "keep", "default"])
        async with recording(ctx) as rec:
            with pytest.raises(
                ValueError if isinstance(name, str) else (TypeError, ValueError)
            ):
                ctx.add_resource(
                    "value",
                    name,
                    [str, bytes],
                    description="nope",
                    teardown_callback=lambda: torn_down.append("bad"),
                )

            with pytest.raises(
                ValueError if isinstance(name, str) else (TypeError, ValueError)
            ):
                ctx.add_resource(2.5, name)

            assert await rec.events() == []

        assert snapshot(ctx, [name, "keep", "default"]) == before

    assert torn_down == []


@pytest.mark.parametrize("name", BAD_STR_NAMES + BAD_OTHER_NAMES, ids=repr)
async def test_add_factory_with_invalid_name_changes_nothing(name: Any) -> None:
    calls: list[int] = []

    def factory() -> str:
        calls.append(1)
        return "generated"

    async with Context() as ctx:
        async with recording(ctx) as rec:
            with pytest.raises(
                ValueError if isinstance(name, str) else (TypeError, ValueError)
            ):
                ctx.add_resource_factory(factory, name, types=[str, bytes])

            with pytest.raises(
                ValueError if isinstance(name, str) else (TypeError, ValueError)
            ):
                ctx.add_resource_factory(factory, name)

            assert await rec.events() == []

        try:
            hash(name)
        except TypeError:
            pass
        else:
            assert ctx.get_resource_nowait(str, name, optional=True) is None
            assert await ctx.get_resource(bytes, name, optional=True) is None

        assert ctx.get_resource_nowait(str, optional=True) is None
        assert calls == []


@pytest.mark.parametrize("name", GOOD_NAMES, ids=lambda n: repr(n)[:12])
async def test_valid_names_are_accepted_and_pairs_are_exclusive(name: str) -> None:
    async with Context() as ctx:
        value = object()
        ctx.add_resource(value, name, [int, str])
        ctx.add_resource_factory(lambda: 3.5, name, types=[float])
        assert ctx.get_resource_nowait(int, name) is value
        assert await ctx.get_resource(str, name) is value
        generated = await ctx.get_resource(float, name)
        assert ctx.get_resource_nowait(float, name) is generated
        with pytest.raises(ResourceConflict):
            ctx.add_resource(object(), name, [bytes, str])

        with pytest.raises(ResourceConflict):
            ctx.add_resource_factory(lambda: 1.5, name, types=[bytes, float])

        assert ctx.get_resource_nowait(bytes, name, optional=True) is None
        assert ctx.get_resource_nowait(int, name) is value
        assert ctx.get_resource_nowait(float, name) is generated


async def test_none_value_invalid_types_and_bad_teardown_change_nothing() -> None:
    torn_down: list[str] = []

    def good_teardown() -> None:
        torn_down.append("good")

    async with Context() as ctx:
        ctx.add_resource(7, "taken", teardown_callback=good_teardown)
        before = snapshot(ctx, ["n", "taken", "default"])
        async with recording(ctx) as rec:
            with pytest.raises(ValueError):
                ctx.add_resource(None, "n", [str, bytes], teardown_callback=print)

            with pytest.raises(ValueError):
                ctx.add_resource(None)

            with pytest.raises(TypeError):
                ctx.add_resource("v", "n", [str, "bytes"])  # type: ignore[list-item]

            with pytest.raises(TypeError):
                ctx.add_resource("v", "n", [5, str])  # type: ignore[list-item]

            with pytest.raises(TypeError):
                ctx.add_resource(
                    "v",
                    "n",
                    [str, bytes],
                    teardown_callback="not callable",  # type: ignore[arg-type]
                )

            with pytest.raises(TypeError):
                ctx.add_resource("v", teardown_callback=5)  # type: ignore[arg-type]

            # Several things wrong at once, including a conflict
            with pytest.raises((TypeError, ValueError, ResourceConflict)):
                ctx.add_resource(
                    None,
                    "taken",
                    [str, int],
                    teardown_callback=5,  # type: ignore[arg-type]
                )

            with pytest.raises((TypeError, ValueError, ResourceConflict)):
                ctx.add_resource(
                    8,
                    "taken",
                    [str, int],
                    teardown_callback=5,  # type: ignore[arg-type]
                )

            assert await rec.events() == []

        assert snapshot(ctx, ["n", "taken", "default"]) == before

        # The pairs touched by the failed calls are all still free
        async with recording(ctx) as rec:
            ctx.add_resource("v", "n", [str, bytes], teardown_callback=good_teardown)
            ctx.add_resource("w")
            assert await rec.events() == [
                ((str, bytes), "n", False),
                ((str,), "default", False),
            ]

        assert ctx.get_resource_nowait(bytes, "n") == "v"
        assert ctx.get_resource_nowait(str) == "w"

    assert torn_down == ["good", "good"]


async def test_rejected_factory_registrations_change_nothing() -> None:
    def untyped():  # type: ignore[no-untyped-def]
        return 1

    def typed() -> int:
        return 2

    async with Context() as ctx:
        async with recording(ctx) as rec:
            with pytest.raises(TypeError):
                ctx.add_resource_factory(
                    typed,
                    "f",
                    types=[str, None, int],  # type: ignore[list-item]
                )

            with pytest.raises(ValueError):
                ctx.add_resource_factory(untyped, "f")

            with pytest.raises(ValueError):
                ctx.add_resource_factory(typed, "not valid", types=[str])

            assert await rec.events() == []

        for type_ in (str, int):
            assert ctx.get_resource_nowait(type_, "f", optional=True) is None
            assert await ctx.get_resource(type_, "f", optional=True) is None

        # All of the pairs are still free for a factory and for a static resource
        async with recording(ctx) as rec:
            ctx.add_resource_factory(typed, "f", types=[str, int])
            assert await rec.events() == [((str, int), "f", True)]

        with pytest.raises(ResourceConflict):
            ctx.add_resource_factory(typed, "f")

        generated = ctx.get_resource_nowait(int, "f")
        assert generated == 2
        assert ctx.get_resource_nowait(str, "f") is generated
        assert await ctx.get_resource(int, "f") is generated


async def test_failed_adds_in_child_do_not_leak_to_parent_or_child() -> None:
    torn_down: list[str] = []
    async with Context() as parent:
        parent.add_resource(1, "p")
        async with Context() as child:
            with pytest.raises(ValueError):
                child.add_resource(
                    2, "bad name", teardown_callback=lambda: torn_down.append("c")
                )

            with pytest.raises(ResourceConflict):
                child.add_resource(
                    3, "p", [str, int], teardown_callback=lambda: torn_down.append("c")
                )

            with pytest.raises(TypeError):
                child.add_resource(
                    4, "q", [str], teardown_callback=0  # type: ignore[arg-type]
                )

            for ctx in (parent, child):
                assert ctx.get_resource_nowait(str, "p", optional=True) is None
                assert ctx.get_resource_nowait(str, "q", optional=True) is None
                assert ctx.get_resource_nowait(int, "p") == 1
                assert ctx.get_resources(str) == {}

        assert torn_down == []

    assert torn_down == []
