"""
Behaviour checks for refactoring 3 (private attributes renamed across the package, the
module-level shortcut functions reordered and given a local alias for the current
context).

Everything here goes through the public API only, and passes both on the unchanged
source and with the refactoring applied.
"""

from __future__ import annotations

import inspect
import logging
import sys
from typing import Any

import anyio
import pytest
from anyio.abc import TaskStatus

import asphalt.core
from asphalt.core import (
    AsyncResourceError,
    Component,
    Context,
    NoCurrentContext,
    ResourceConflict,
    ResourceEvent,
    ResourceNotFound,
    add_resource,
    add_resource_factory,
    add_teardown_callback,
    current_context,
    get_resource,
    get_resource_nowait,
    get_resources,
    start_background_task_factory,
    start_component,
    start_service_task,
)

if sys.version_info < (3, 11):
    from exceptiongroup import ExceptionGroup

pytestmark = pytest.mark.anyio()


class TestShortcutsWithoutContext:
    def test_sync_shortcuts(self) -> None:
        with pytest.raises(NoCurrentContext):
            add_resource(1)

        with pytest.raises(NoCurrentContext):
            add_resource_factory(lambda: 1, types=[int])

        with pytest.raises(NoCurrentContext):
            add_teardown_callback(lambda: None)

        with pytest.raises(NoCurrentContext):
            get_resources(int)

        with pytest.raises(NoCurrentContext):
            get_resource_nowait(int)

        with pytest.raises(NoCurrentContext):
            get_resource_nowait(int, optional=True)

    async def test_async_shortcuts(self) -> None:
        async def service() -> None:
            pytest.fail("must not be started")

        with pytest.raises(NoCurrentContext):
            await get_resource(int)

        with pytest.raises(NoCurrentContext):
            await get_resource(int, optional=True)

        with pytest.raises(NoCurrentContext):
            await start_service_task(service, "svc")

        with pytest.raises(NoCurrentContext):
            await start_background_task_factory()

    def test_async_shortcuts_fail_only_when_awaited(self) -> None:
        # Calling the coroutine function alone does not look up the context
        coro = get_resource(int)
        assert inspect.iscoroutine(coro)
        with pytest.raises(NoCurrentContext):
            coro.send(None)

    def test_signatures(self) -> None:
        assert str(inspect.signature(add_teardown_callback)) == (
            "(callback: 'TeardownCallback', pass_exception: 'bool' = False) -> 'None'"
        )
        assert list(inspect.signature(add_resource).parameters) == [
            "value",
            "name",
            "types",
            "description",
            "teardown_callback",
        ]
        assert list(inspect.signature(add_resource_factory).parameters) == [
            "factory_callback",
            "name",
            "types",
            "description",
        ]
        assert list(inspect.signature(get_resource).parameters) == [
            "type",
            "name",
            "optional",
        ]
        assert list(inspect.signature(get_resource_nowait).parameters) == [
            "type",
            "name",
            "optional",
        ]
        assert list(inspect.signature(get_resources).parameters) == ["type"]
        assert list(inspect.signature(start_service_task).parameters) == [
            "func",
            "name",
            "teardown_action",
        ]
        assert list(inspect.signature(start_background_task_factory).parameters) == [
            "exception_handler"
        ]
        for name in (
            "add_resource",
            "add_resource_factory",
            "add_teardown_callback",
            "get_resource",
            "get_resource_nowait",
            "get_resources",
            "start_background_task_factory",
            "start_service_task",
        ):
            func = getattr(asphalt.core, name)
            assert func.__name__ == name
            assert func.__module__ == "asphalt.core"
            assert func.__doc__


class TestShortcutsTargetTheCurrentContext:
    async def test_resources(self) -> None:
        events: list[tuple[str, ResourceEvent]] = []
        async with Context() as root:
            async with Context() as child:
                async with root.resource_added.stream_events() as root_stream:
                    async with child.resource_added.stream_events() as child_stream:
                        add_resource(1, "one", description="the one")
                        add_resource_factory(lambda: "made", "fac", types=[str])
                        assert get_resource_nowait(str, "fac") == "made"
                        root.add_resource(2, "two")
                        with anyio.fail_after(3):
                            for _ in range(3):
                                events.append(("child", await child_stream.__anext__()))

                            events.append(("root", await root_stream.__anext__()))

                assert get_resources(int) == {"one": 1}
                assert root.get_resources(int) == {"two": 2}
                assert get_resource_nowait(int, "one") == 1
                assert await get_resource(int, "one") == 1
                assert get_resource_nowait(int, "two", optional=True) is None
                assert await get_resource(int, "two", optional=True) is None
                with pytest.raises(ResourceNotFound) as exc_info:
                    get_resource_nowait(int, "two")

                assert str(exc_info.value) == (
                    "no matching resource was found for type=int name='two'"
                )
                with pytest.raises(ResourceNotFound):
                    await get_resource(int, "two")

                with pytest.raises(ResourceConflict):
                    add_resource(10, "one")

                with pytest.raises(ResourceConflict):
                    add_resource_factory(lambda: "again", "fac", types=[str])

                with pytest.raises(ValueError, match='"value" must not be None'):
                    add_resource(None)

                with pytest.raises(ValueError, match="no resource types specified"):
                    add_resource_factory(lambda: 1)

            # Back in the root context, the shortcuts target that again
            assert get_resources(int) == {"two": 2}
            assert get_resources(str) == {}

        summary = [
            (
                where,
                event.resource_types,
                event.resource_name,
                event.resource_description,
                event.is_factory,
            )
            for where, event in events
        ]
        assert summary == [
            ("child", (int,), "one", "the one", False),
            ("child", (str,), "fac", None, True),
            ("child", (str,), "fac", None, False),
            ("root", (int,), "two", None, False),
        ]

    async def test_async_factory(self) -> None:
        async def factory() -> int:
            await anyio.sleep(0)
            return 5

        async with Context():
            add_resource_factory(factory, types=[int])
            with pytest.raises(AsyncResourceError):
                get_resource_nowait(int)

            assert await get_resource(int) == 5
            assert get_resource_nowait(int) == 5
            assert get_resources(int) == {"default": 5}

    async def test_teardown_callbacks(self) -> None:
        calls: list[Any] = []

        async def async_callback(exc: BaseException | None) -> None:
            await anyio.sleep(0)
            calls.append(("async", exc))

        with pytest.raises(KeyError) as exc_info:
            async with Context():
                add_teardown_callback(lambda: calls.append("first"))
                add_teardown_callback(async_callback, True)
                add_teardown_callback(lambda exc: calls.append(("sync", exc)), True)
                add_resource(
                    "res", teardown_callback=lambda: calls.append("resource teardown")
                )
                with pytest.raises(TypeError, match="callback must be a callable"):
                    add_teardown_callback("not callable")  # type: ignore[arg-type]

                with pytest.raises(TypeError, match="callback must be a callable"):
                    add_resource("x", "x", teardown_callback=1)  # type: ignore

                # The failed add_resource() call must not have published the resource
                assert get_resource_nowait(str, "x", optional=True) is None
                raise KeyError("the error")

        exc = exc_info.value
        assert calls == [
            "resource teardown",
            ("sync", exc),
            ("async", exc),
            "first",
        ]

    async def test_teardown_callback_errors_are_grouped(self) -> None:
        def fail() -> None:
            raise RuntimeError("teardown failed")

        with pytest.raises(ExceptionGroup) as exc_info:
            async with Context():
                async with Context():
                    add_teardown_callback(fail)

        (inner,) = exc_info.value.exceptions
        assert isinstance(inner, ExceptionGroup)
        assert str(inner.exceptions[0]) == "teardown failed"

    async def test_service_tasks(self, caplog: pytest.LogCaptureFixture) -> None:
        log: list[str] = []
        stop = anyio.Event()

        async def service(*, task_status: TaskStatus[int]) -> None:
            task_status.started(99)
            await stop.wait()
            log.append("service stopped")

        async def cancelled_service() -> None:
            try:
                await anyio.sleep_forever()
            finally:
                log.append("cancelled")

        caplog.set_level(logging.DEBUG, "asphalt.core")
        async with Context():
            async with Context():
                assert await start_service_task(service, "one", teardown_action=stop.set) == 99
                assert await start_service_task(cancelled_service, "two") is None
                with pytest.raises(ValueError, match="teardown_action must be a callable"):
                    await start_service_task(
                        service,
                        "bad",
                        teardown_action="wrong",  # type: ignore[arg-type]
                    )

                log.append("exiting")

            log.append("inner exited")

        assert log == ["exiting", "cancelled", "service stopped", "inner exited"]
        messages = [record.getMessage() for record in caplog.records]
        assert "Cancelling service task 'two'" in messages
        assert "Service task 'one' finished" in messages

    async def test_background_task_factory(self) -> None:
        handled: list[BaseException] = []
        results: list[Any] = []

        def handler(exc: Exception) -> bool:
            handled.append(exc)
            return True

        async def ok() -> None:
            results.append(get_resource_nowait(str))
            results.append(current_context().parent is not None)

        async def crash() -> None:
            raise LookupError("crashed")

        async with Context():
            add_resource("visible")
            factory = await start_background_task_factory(exception_handler=handler)
            handle = await factory.start_task(ok, "ok")
            await handle.wait_finished()
            crashed = factory.start_task_soon(crash)
            await crashed.wait_finished()
            assert factory.all_task_handles() == set()

        assert results == ["visible", True]
        assert len(handled) == 1
        assert isinstance(handled[0], LookupError)


class TestShortcutsInsideComponents:
    async def test_default_resource_name_and_logging(
        self, caplog: pytest.LogCaptureFixture
    ) -> None:
        torn_down: list[str] = []

        class Child(Component):
            async def prepare(self) -> None:
                # Not renamed outside of start()
                add_resource("prepared")

            async def start(self) -> None:
                add_resource(7)
                add_resource_factory(lambda: 2.5, types=[float])
                add_resource(8, "explicit")
                add_teardown_callback(lambda: torn_down.append("child"))
                assert get_resource_nowait(int, "special") == 7
                assert get_resource_nowait(int, optional=True) is None
                assert get_resources(int) == {"special": 7, "explicit": 8}
                assert await get_resource(float, "special") == 2.5
                await start_service_task(anyio.sleep_forever, "sleeper")
                await start_background_task_factory()

        class Parent(Component):
            def __init__(self) -> None:
                self.add_component("child/special", Child)

            async def start(self) -> None:
                add_resource(b"parent")
                assert get_resource_nowait(str) == "prepared"

        caplog.set_level(logging.DEBUG, "asphalt.core")
        async with Context() as root:
            await start_component(Parent)
            assert torn_down == []
            assert root.get_resources(int) == {"special": 7, "explicit": 8}
            assert root.get_resources(float) == {"special": 2.5}
            assert root.get_resources(bytes) == {"default": b"parent"}
            assert get_resource_nowait(str) == "prepared"

        assert torn_down == ["child"]
        messages = [record.getMessage() for record in caplog.records]
        assert (
            "Component 'child/special' added a resource (type=int, name='special')"
            in messages
        )
        assert (
            "Component 'child/special' added a resource factory "
            "(types=[float], name='special')" in messages
        )
        assert "Component 'child/special' started a service task (sleeper)" in messages
        assert "Component 'child/special' started a background task factory" in messages
        assert (
            "The root component added a resource (type=bytes, name='default')"
            in messages
        )


class TestContextBookkeeping:
    async def test_parent_property_is_read_only(self) -> None:
        async with Context() as root:
            child = Context()
            with pytest.raises(AttributeError):
                child.parent = None  # type: ignore[misc]

            assert child.parent is root
            assert isinstance(Context.parent, property)
            assert Context.parent.__doc__ == (
                "Return the parent context, or ``None`` if there is no parent."
            )

    async def test_out_of_order_exit_detected(self) -> None:
        outcome: dict[str, Any] = {}

        async def scenario() -> None:
            # Runs in a task of its own so the leaked context cannot affect other tests
            try:
                async with Context() as middle:
                    outcome["middle"] = middle
                    leaked = outcome["leaked"] = Context()
                    await leaked.__aenter__()
            except RuntimeError as exc:
                outcome["error"] = str(exc)

        async with Context() as root:
            async with anyio.create_task_group() as tg:
                tg.start_soon(scenario)

            assert current_context() is root

        middle = outcome["middle"]
        assert outcome["error"] == (
            f"Context stack corruption detected: context {id(middle):x} still has "
            f"1 active child context(s)"
        )
        assert middle.closed
        assert middle.parent is root
        assert outcome["leaked"].parent is middle
        assert not outcome["leaked"].closed

    async def test_children_unregister_on_exit(self) -> None:
        async with Context() as root:
            for _ in range(3):
                async with Context() as child:
                    assert child.parent is root
                    async with Context() as grandchild:
                        assert grandchild.parent is child

            assert current_context() is root

        assert root.closed
