"""Effect facts: checkpoints, may-raise, mutations, calls - per CFG node and per function."""
from __future__ import annotations

import ast
from dataclasses import dataclass
from typing import Iterable, Optional

from . import extern
from .cfg import CFG, Node, eval_order, iter_own, handler_names
from .loader import AnalysisError, ClassInfo, FuncInfo, Project, dotted, walk_own
from .resolve import Callee, Resolver


@dataclass
class Mutation:
    path: tuple  # access path of the mutated container, e.g. ('self', '_resources')
    kind: str  # 'store' | 'del' | 'aug' | 'call:<method>' | 'rebind'
    node: ast.AST  # the statement / call expression
    depth_key: bool = False  # True when an element (subscript) of path is written

    def __repr__(self) -> str:
        return f"{'.'.join(self.path)} {self.kind}"


def access_path(expr) -> tuple:
    """('self','_resources') for self._resources ; subscripts and element getters add '[]'."""
    if isinstance(expr, ast.Name):
        return (expr.id,)
    if isinstance(expr, ast.Attribute):
        return access_path(expr.value) + (expr.attr,)
    if isinstance(expr, ast.Subscript):
        return access_path(expr.value) + ("[]",)
    if isinstance(expr, ast.Call) and isinstance(expr.func, ast.Attribute):
        if expr.func.attr in ("get", "setdefault", "pop", "values", "items", "popitem", "__getitem__"):
            return access_path(expr.func.value) + ("[]",)
        if expr.func.attr in ("copy",):
            return ("<fresh>",)
    if isinstance(expr, ast.Await):
        return access_path(expr.value)
    if isinstance(expr, ast.NamedExpr):
        return access_path(expr.value)
    return ("<expr>",)


class Analysis:
    def __init__(self, project: Project):
        self.p = project
        self.r = Resolver(project)
        self._cfgs: dict = {}
        self._may_cp: dict | None = None
        self._may_raise: dict = {}
        self._callees: dict = {}

    # ------------------------------------------------------------------ basics
    def cfg(self, func: FuncInfo) -> CFG:
        key = id(func)
        if key not in self._cfgs:
            self._cfgs[key] = CFG(func, swallows=lambda e, f=func: self._swallows(f, e))
        return self._cfgs[key]

    def _swallows(self, func: FuncInfo, expr) -> bool:
        name = self.ext_name(func, expr)
        if name is None:
            return False
        return any(name == k or name.endswith("." + k.split(".")[-1]) for k in extern.SWALLOWING_CMS)

    def ext_name(self, func: FuncInfo, expr) -> Optional[str]:
        """Dotted external name for a context-manager / awaited expression, if external."""
        if isinstance(expr, ast.Call):
            c = self.callee(func, expr)
            if c.kind in ("ext", "extmethod"):
                return c.name
            return None
        t = self.r.expr_type(func, expr)
        if isinstance(t, str):
            return t[4:]
        return None

    def callee(self, func: FuncInfo, call: ast.Call) -> Callee:
        key = id(call)
        if key not in self._callees:
            self._callees[key] = self.r.resolve_call(func, call)
        return self._callees[key]

    def node_exprs(self, cfg: CFG, n: Node) -> list:
        root = cfg.own_ast(n)
        if root is None:
            return []
        if n.kind == "with_enter":
            return eval_order(n.item.context_expr)
        return eval_order(root)

    def node_calls(self, func: FuncInfo, cfg: CFG, n: Node) -> list:
        """[(ast.Call, Callee)] in evaluation order."""
        return [(e, self.callee(func, e)) for e in self.node_exprs(cfg, n) if isinstance(e, ast.Call)]

    def func_calls(self, func: FuncInfo) -> list:
        out = []
        for n in walk_own(func.node):
            if isinstance(n, ast.Call):
                out.append((n, self.callee(func, n)))
        return out

    # ------------------------------------------------------------------ checkpoints
    def is_acm(self, f: FuncInfo) -> bool:
        return "asynccontextmanager" in f.decorators

    def is_cm(self, f: FuncInfo) -> bool:
        return "contextmanager" in f.decorators

    def yield_nodes(self, f: FuncInfo) -> list:
        cfg = self.cfg(f)
        out = []
        for n in cfg.live_nodes():
            root = cfg.own_ast(n)
            if root is not None and any(isinstance(x, (ast.Yield, ast.YieldFrom)) for x in iter_own(root)):
                out.append(n)
        return out

    def _compute_may_cp(self) -> None:
        funcs = self.p.all_functions()
        self._may_cp = {id(f): False for f in funcs}
        self._acm_prefix_cp = {id(f): False for f in funcs}
        self._acm_suffix_cp = {id(f): False for f in funcs}
        changed = True
        rounds = 0
        while changed and rounds < 50:
            changed = False
            rounds += 1
            for f in funcs:
                if not f.is_async:
                    continue
                cfg = self.cfg(f)
                if self.is_acm(f) or f.is_generator:
                    ys = {n.id for n in self.yield_nodes(f)}
                    pre = cfg.reach([cfg.entry], avoid=ys) & cfg.reach_back(ys, include_start=False)
                    post = cfg.reach(ys, include_start=False) if ys else set()
                    v1 = any(self.node_checkpoints(f, cfg, cfg.nodes[i]) for i in pre)
                    v2 = any(self.node_checkpoints(f, cfg, cfg.nodes[i]) for i in post)
                    if v1 != self._acm_prefix_cp[id(f)] or v2 != self._acm_suffix_cp[id(f)]:
                        self._acm_prefix_cp[id(f)] = v1
                        self._acm_suffix_cp[id(f)] = v2
                        changed = True
                    v = v1 or v2
                else:
                    v = any(self.node_checkpoints(f, cfg, n) for n in cfg.live_nodes())
                if v != self._may_cp[id(f)]:
                    self._may_cp[id(f)] = v
                    changed = True

    def func_may_checkpoint(self, f: FuncInfo) -> bool:
        if self._may_cp is None:
            self._compute_may_cp()
        return self._may_cp.get(id(f), True)

    def acm_enter_may_checkpoint(self, f: FuncInfo) -> bool:
        if self._may_cp is None:
            self._compute_may_cp()
        return self._acm_prefix_cp.get(id(f), True)

    def acm_exit_may_checkpoint(self, f: FuncInfo) -> bool:
        if self._may_cp is None:
            self._compute_may_cp()
        return self._acm_suffix_cp.get(id(f), True)

    def await_checkpoints(self, func: FuncInfo, aw: ast.Await) -> Optional[str]:
        """reason string if awaiting this operand may suspend the task, else None"""
        op = aw.value
        if isinstance(op, ast.Call):
            c = self.callee(func, op)
            if c.kind == "func" and c.func.is_async and not c.func.is_generator:
                if self._may_cp is None:
                    self._compute_may_cp()
                return f"await {c.func.qualname} (may checkpoint)" if self._may_cp.get(id(c.func), True) else None
            return f"await {ast.unparse(op.func)}(...) (external or unresolved awaitable)"
        return f"await {ast.unparse(op)} (arbitrary awaitable)"

    def cm_target(self, func: FuncInfo, expr):
        """For a (async) with item expression: ('acm'|'cm', FuncInfo) | ('class', ClassInfo) | ('ext', name) | None"""
        if isinstance(expr, ast.Call):
            c = self.callee(func, expr)
            if c.kind == "func":
                if self.is_acm(c.func):
                    return ("acm", c.func)
                if self.is_cm(c.func):
                    return ("cm", c.func)
                # a plain function that only forwards to a context-manager function
                inner = self._forwarded_cm(c.func)
                if inner is not None:
                    return inner
                rt = self.r.ann_to_type(c.func.module, getattr(c.func.node, "returns", None))
                if isinstance(rt, ClassInfo):
                    return ("class", rt)
                if isinstance(rt, str):
                    return ("ext", rt[4:])
                return None
            if c.kind == "class":
                return ("class", c.cls)
            if c.kind in ("ext", "extmethod"):
                return ("ext", c.name)
            return None
        t = self.r.expr_type(func, expr)
        if isinstance(t, ClassInfo):
            return ("class", t)
        if isinstance(t, str):
            return ("ext", t[4:])
        return None

    def _forwarded_cm(self, f: FuncInfo, depth: int = 0):
        if depth > 3 or f.is_async or f.is_generator:
            return None
        rets = [n for n in walk_own(f.node) if isinstance(n, ast.Return)]
        if len(rets) != 1 or not isinstance(rets[0].value, ast.Call):
            return None
        c = self.callee(f, rets[0].value)
        if c.kind != "func":
            return None
        if self.is_acm(c.func):
            return ("acm", c.func)
        if self.is_cm(c.func):
            return ("cm", c.func)
        return self._forwarded_cm(c.func, depth + 1)

    def node_checkpoints(self, func: FuncInfo, cfg: CFG, n: Node) -> list:
        """Reasons why executing this node may suspend the current task (empty = cannot)."""
        out = []
        if n.kind == "with_enter":
            for e in eval_order(n.item.context_expr):
                if isinstance(e, ast.Await):
                    r = self.await_checkpoints(func, e)
                    if r:
                        out.append(r)
            if n.is_async:
                tgt = self.cm_target(func, n.item.context_expr)
                if tgt is None:
                    out.append(f"async with {ast.unparse(n.item.context_expr)} (unresolved manager)")
                elif tgt[0] == "acm":
                    if self.acm_enter_may_checkpoint(tgt[1]):
                        out.append(f"async with {tgt[1].qualname} (enter may checkpoint)")
                elif tgt[0] == "class":
                    m = self.p.method(tgt[1], "__aenter__")
                    if m is None or self.func_may_checkpoint(m):
                        out.append(f"async with {tgt[1].name} (__aenter__ may checkpoint)")
                elif tgt[0] == "ext":
                    if tgt[1] not in extern.ASYNC_ENTER_NO_CHECKPOINT:
                        out.append(f"async with {tgt[1]} (external enter)")
                else:
                    out.append(f"async with {ast.unparse(n.item.context_expr)}")
            return out
        if n.kind == "with_exit":
            if n.is_async:
                tgt = self.cm_target(func, n.item.context_expr)
                if tgt is not None and tgt[0] == "acm" and not self.acm_exit_may_checkpoint(tgt[1]):
                    return out
                out.append(f"async with exit {ast.unparse(n.item.context_expr)}")
            return out
        if n.kind == "for_next":
            if n.is_async:
                out.append("async for (next item)")
            return out
        root = cfg.own_ast(n)
        if root is None:
            return out
        for e in iter_own(root):
            if isinstance(e, ast.Await):
                r = self.await_checkpoints(func, e)
                if r:
                    out.append(r)
        return out

    # ------------------------------------------------------------------ may raise
    def exc_is_subclass(self, name: str, base: str) -> Optional[bool]:
        """None when unknown."""
        seen = 0
        cur = name
        while cur is not None and seen < 20:
            if cur == base:
                return True
            seen += 1
            if cur in extern.EXC_PARENTS:
                cur = extern.EXC_PARENTS[cur]
                continue
            ci = self.p.classes.get(cur)
            if ci is not None and ci.bases:
                b = dotted(ci.bases[0])
                cur = b.split(".")[-1] if b else None
                continue
            return None
        return False

    def class_ctor_may_raise(self, ci: ClassInfo) -> list:
        init = self.p.method(ci, "__init__")
        post = self.p.method(ci, "__post_init__")
        out = []
        for m in (init, post):
            if m is not None:
                out += self.func_may_raise(m)
        return out

    def call_may_raise(self, func: FuncInfo, call: ast.Call) -> list:
        c = self.callee(func, call)
        if c.kind == "func":
            f = c.func
            if f.is_async or f.is_generator:
                return []  # calling only creates the coroutine / generator
            if self.is_cm(f) or self.is_acm(f):
                return []
            r = self.func_may_raise(f)
            return [f"call {f.qualname}: {r[0]}"] if r else []
        if c.kind == "class":
            r = self.class_ctor_may_raise(c.cls)
            return [f"construct {c.cls.name}: {r[0]}"] if r else []
        if c.kind == "ext":
            if c.name in extern.NON_RAISING:
                return []
            # exception constructors
            last = c.name.split(".")[-1]
            if last in extern.EXC_PARENTS or last.endswith("Error") or last.endswith("Exception"):
                return []
            return [f"external {c.name}() may raise"]
        if c.kind == "extmethod":
            if c.name in extern.NON_RAISING:
                return []
            if c.name.split(".")[-1] in extern.NON_RAISING_METHODS and not c.name.endswith("send_nowait"):
                return []
            return [f"external method {c.name}() may raise"]
        if c.kind in ("param", "local", "global"):
            return [f"user/stored callable {c.name}() may raise"]
        if c.kind in ("method", "attrcall"):
            recv = dotted(c.recv) if c.recv is not None else None
            if recv == "logger" and f"logger.{c.name}" in extern.NON_RAISING:
                return []
            if c.kind == "method" and c.name in extern.NON_RAISING_METHODS:
                return []
            return [f"call {ast.unparse(call.func)}() (unresolved or stored callable) may raise"]
        return [f"call {ast.unparse(call.func)}() unresolved"]

    def node_may_raise(self, func: FuncInfo, cfg: CFG, n: Node, ignore_subscripts: bool = False) -> list:
        """Reasons why this node may raise (precise table, DESIGN section 6)."""
        out = []
        if n.kind in ("with_enter", "with_exit"):
            tgt = self.cm_target(func, n.item.context_expr)
            if n.kind == "with_enter":
                for e in eval_order(n.item.context_expr):
                    if isinstance(e, ast.Call):
                        out += self.call_may_raise(func, e)
                    elif isinstance(e, ast.Await):
                        out.append("await may raise (cancellation)")
            if tgt is None:
                out.append("unknown context manager")
            elif tgt[0] in ("acm", "cm"):
                f = tgt[1]
                if n.kind == "with_exit" or self.func_may_raise(f):
                    if n.kind == "with_exit":
                        out.append(f"exit of {f.qualname}")
                    else:
                        out += [f"enter {f.qualname}: {x}" for x in self.func_may_raise(f)[:1]]
            elif tgt[0] == "ext":
                if n.kind == "with_exit" and tgt[1] in extern.QUIET_EXIT_CMS:
                    pass
                elif n.kind == "with_exit" or tgt[1] not in extern.NON_RAISING:
                    out.append(f"{n.kind} of {tgt[1]}")
            else:
                out.append(f"{n.kind} of {tgt[1].name}")
            return out
        if n.kind == "for_next":
            if n.is_async:
                out.append("async for may raise")
            return out
        root = cfg.own_ast(n)
        if root is None:
            return out
        if n.kind == "stmt" and isinstance(n.ast, ast.Raise):
            return ["explicit raise"]
        if n.kind == "stmt" and isinstance(n.ast, ast.Assert):
            return ["assert"]
        for e in eval_order(root):
            if isinstance(e, ast.Call):
                out += self.call_may_raise(func, e)
            elif isinstance(e, ast.Await):
                out.append("await may raise (cancellation or the awaited operation)")
            elif isinstance(e, (ast.Yield, ast.YieldFrom)):
                out.append("yield (exception may be thrown in)")
            elif isinstance(e, ast.Subscript) and isinstance(e.ctx, ast.Load) and not ignore_subscripts:
                if not self._subscript_safe(func, e):
                    out.append(f"subscript {ast.unparse(e)} may raise")
            elif isinstance(e, ast.Delete):
                out.append("del may raise")
            elif isinstance(e, ast.Attribute) and isinstance(e.ctx, ast.Load) and e.attr in ("__qualname__", "__name__") and not self._is_class_valued(func, e.value) and not self._dunder_guarded(func, cfg, n, e.value):
                # functions and classes have them; arbitrary callables (instances with
                # __call__, functools.partial, Mock, operator.methodcaller) do not
                out.append(f"`{ast.unparse(e)}` may raise AttributeError (callable objects other than functions / classes have no {e.attr})")
        return out

    def _dunder_guarded(self, func: FuncInfo, cfg: CFG, n: Node, v) -> bool:
        """`if not hasattr(x, "__qualname__"): x = type(x)` in front of the access: afterwards x is
        a function-like object or a class, both of which have __qualname__ and __name__."""
        if not isinstance(v, ast.Name):
            return False
        # second spelling: `named = func if hasattr(func, "__qualname__") else type(func)` -
        # every binding of the receiver is a class, or a copy of x made where hasattr(x, ...) holds
        binds = [x for x in walk_own(func.node) if isinstance(x, ast.Assign) and any(isinstance(t, ast.Name) and t.id == v.id for t in x.targets)]
        if binds and v.id not in func.params:
            ok_ids = set()
            for st in walk_own(func.node):
                if not isinstance(st, ast.If):
                    continue
                t, pos = st.test, True
                while isinstance(t, ast.UnaryOp) and isinstance(t.op, ast.Not):
                    t, pos = t.operand, not pos
                if not (isinstance(t, ast.Call) and isinstance(t.func, ast.Name) and t.func.id == "hasattr" and len(t.args) == 2 and isinstance(t.args[0], ast.Name) and isinstance(t.args[1], ast.Constant) and t.args[1].value in ("__qualname__", "__name__")):
                    continue
                for b in (st.body if pos else st.orelse):
                    if isinstance(b, ast.Assign) and isinstance(b.value, ast.Name) and b.value.id == t.args[0].id:
                        ok_ids.add(id(b))
            if all(id(b) in ok_ids or self._is_class_valued(func, b.value) for b in binds) and any(id(b) in ok_ids for b in binds):
                return True
        for st in walk_own(func.node):
            if not isinstance(st, ast.If) or st.orelse:
                continue
            t = st.test
            if not (isinstance(t, ast.UnaryOp) and isinstance(t.op, ast.Not) and isinstance(t.operand, ast.Call) and isinstance(t.operand.func, ast.Name) and t.operand.func.id == "hasattr" and len(t.operand.args) == 2):
                continue
            a0, a1 = t.operand.args
            if not (isinstance(a0, ast.Name) and a0.id == v.id and isinstance(a1, ast.Constant) and a1.value in ("__qualname__", "__name__")):
                continue
            ok_body = len(st.body) == 1 and isinstance(st.body[0], ast.Assign) and len(st.body[0].targets) == 1 and isinstance(st.body[0].targets[0], ast.Name) and st.body[0].targets[0].id == v.id and self._is_class_valued(func, st.body[0].value)
            if not ok_body:
                continue
            tn = [x for x in cfg.live_nodes() if x.kind == "test" and x.ast is t]
            if tn and cfg.dominates(tn[0].id, n.id):
                # no other rebinding of x between the guard and the access
                later = [x for x in walk_own(func.node) if isinstance(x, ast.Assign) and x is not st.body[0] and any(isinstance(tg, ast.Name) and tg.id == v.id for tg in x.targets) and x.lineno > st.lineno]
                if not later:
                    return True
        return False

    def _is_class_valued(self, func: FuncInfo, v) -> bool:
        """The expression is known to be a class (or the receiver of the access is `type(x)`,
        `x.__class__`, a name bound to one of those / checked with isclass())."""
        if isinstance(v, ast.Call) and isinstance(v.func, ast.Name) and v.func.id == "type" and len(v.args) == 1:
            return True
        if isinstance(v, ast.Attribute) and v.attr == "__class__":
            return True
        if isinstance(v, ast.Name):
            r = self.r.resolve_name(func, v.id)
            if isinstance(r, ClassInfo):
                return True
            srcs = []
            for x in walk_own(func.node):
                if isinstance(x, ast.Assign) and any(isinstance(t, ast.Name) and t.id == v.id for t in x.targets):
                    srcs.append(x.value)
                elif isinstance(x, (ast.For, ast.AsyncFor)) and any(isinstance(t, ast.Name) and t.id == v.id for t in ast.walk(x.target)):
                    srcs.append(None)
            if srcs and all(s_ is not None and (self._is_class_valued(func, s_) if not isinstance(s_, ast.Name) else any(isinstance(c, ast.Call) and isinstance(c.func, ast.Name) and c.func.id == "isclass" and c.args and isinstance(c.args[0], ast.Name) and c.args[0].id == s_.id for c in walk_own(func.node))) for s_ in srcs):
                return True
            ann = func.param_annotation(v.id) if v.id in func.params else None
            if ann is not None and ast.unparse(ann).startswith(("type", "Type")):
                return True
        return False

    def _subscript_safe(self, func: FuncInfo, e: ast.Subscript) -> bool:
        # generic alias subscripts like create_memory_object_stream[T], set[Context]
        v = e.value
        d = dotted(v)
        if d is not None:
            head = d.split(".")[0]
            r = self.r.resolve_name(func, head)
            if isinstance(r, ClassInfo) or (isinstance(r, tuple) and r[0] == "ext"):
                return True
        # slices never raise on sequences
        if isinstance(e.slice, ast.Slice):
            return True
        # indexing a local that only ever holds (non-empty, formatted) strings
        if isinstance(v, ast.Name) and not (not func.is_lambda and v.id in func.params) and self._is_str_var(func, v.id):
            return True
        return False

    _STR_METHODS = {"upper", "lower", "format", "join", "replace", "strip", "rstrip", "lstrip", "capitalize", "title"}

    def _is_str_var(self, func: FuncInfo, name: str) -> bool:
        srcs = []
        for n in walk_own(func.node):
            if isinstance(n, ast.Assign) and any(isinstance(t, ast.Name) and t.id == name for t in n.targets):
                srcs.append(n.value)
            elif isinstance(n, (ast.AnnAssign, ast.AugAssign)) and isinstance(n.target, ast.Name) and n.target.id == name and n.value is not None:
                srcs.append(n.value)
            elif isinstance(n, (ast.For, ast.AsyncFor, ast.With, ast.AsyncWith, ast.NamedExpr)):
                for t in ast.walk(n.target if hasattr(n, "target") else ast.Tuple(elts=[i.optional_vars for i in n.items if i.optional_vars is not None], ctx=ast.Store())):
                    if isinstance(t, ast.Name) and t.id == name:
                        return False

        def strv(e) -> bool:
            if isinstance(e, ast.JoinedStr):
                return True
            if isinstance(e, ast.Constant):
                return isinstance(e.value, str) and bool(e.value)
            if isinstance(e, ast.IfExp):
                return strv(e.body) and strv(e.orelse)
            if isinstance(e, ast.BinOp) and isinstance(e.op, ast.Add):
                return strv(e.left) or strv(e.right)
            if isinstance(e, ast.Call) and isinstance(e.func, ast.Attribute) and e.func.attr in self._STR_METHODS:
                return strv(e.func.value)
            if isinstance(e, ast.Subscript):
                return strv(e.value)
            if isinstance(e, ast.Name):
                return e.id == name
            return False

        return bool(srcs) and all(strv(x) for x in srcs)

    def func_may_raise(self, f: FuncInfo) -> list:
        key = id(f)
        if key in self._may_raise:
            return self._may_raise[key]
        self._may_raise[key] = []  # optimistic for recursion
        cfg = self.cfg(f)
        reasons: list = []

        def edge_ok(src: Node, dst: int, lab: str) -> bool:
            if lab == "e":
                return bool(self.node_may_raise(f, cfg, src))
            return True

        reach = cfg.reach([cfg.entry], edge_ok=edge_ok)
        if cfg.raise_exit in reach:
            for n in cfg.live_nodes():
                if n.id in reach:
                    r = self.node_may_raise(f, cfg, n)
                    if r and any(d == cfg.raise_exit or True for d, lab in n.succ if lab == "e"):
                        # does an exception from n escape?
                        esc = cfg.reach([d for d, lab in n.succ if lab == "e"], edge_ok=edge_ok)
                        if cfg.raise_exit in esc:
                            reasons.append(f"{f.loc(n.ast if isinstance(n.ast, ast.AST) else None)}: {r[0]}")
        self._may_raise[key] = reasons
        return reasons

    # ------------------------------------------------------------------ mutations
    def stmt_mutations(self, func: FuncInfo, root) -> list:
        out = []
        if root is None:
            return out
        for e in iter_own(root):
            if isinstance(e, (ast.Assign, ast.AnnAssign, ast.AugAssign)):
                targets = e.targets if isinstance(e, ast.Assign) else [e.target]
                if isinstance(e, ast.AnnAssign) and e.value is None:
                    continue
                kind = "aug" if isinstance(e, ast.AugAssign) else "store"
                for t in self._flatten_targets(targets):
                    if isinstance(t, ast.Subscript):
                        out.append(Mutation(access_path(t.value), kind, e, depth_key=True))
                    elif isinstance(t, ast.Attribute):
                        out.append(Mutation(access_path(t), "rebind", e))
            elif isinstance(e, ast.Delete):
                for t in e.targets:
                    if isinstance(t, ast.Subscript):
                        out.append(Mutation(access_path(t.value), "del", e, depth_key=True))
                    elif isinstance(t, ast.Attribute):
                        out.append(Mutation(access_path(t), "del", e))
            elif isinstance(e, ast.Call) and isinstance(e.func, ast.Attribute):
                if e.func.attr in extern.MUTATING_METHODS:
                    recv = e.func.value
                    # skip method calls that resolve to package methods of the same name
                    c = self.callee(func, e)
                    if c.kind == "func":
                        continue
                    if c.kind == "extmethod" and not self._ext_container(c.name):
                        continue
                    out.append(Mutation(access_path(recv), f"call:{e.func.attr}", e, depth_key=True))
        return out

    @staticmethod
    def _ext_container(name: str) -> bool:
        base = name.rsplit(".", 1)[0]
        return base.split(".")[-1] in (
            "dict", "list", "set", "WeakKeyDictionary", "deque", "defaultdict", "OrderedDict",
            "MutableMapping", "Mapping", "MutableSequence", "MutableSet", "Sequence",
        )

    @staticmethod
    def _flatten_targets(targets) -> list:
        out = []
        for t in targets:
            if isinstance(t, (ast.Tuple, ast.List)):
                out += Analysis._flatten_targets(t.elts)
            elif isinstance(t, ast.Starred):
                out += Analysis._flatten_targets([t.value])
            else:
                out.append(t)
        return out

    def node_mutations(self, func: FuncInfo, cfg: CFG, n: Node) -> list:
        if n.kind == "with_enter":
            return self.stmt_mutations(func, n.item.context_expr) + (
                [Mutation(access_path(n.item.optional_vars), "rebind", n.item)]
                if isinstance(n.item.optional_vars, ast.Attribute)
                else []
            )
        root = cfg.own_ast(n)
        if n.kind == "for_next":
            return []
        return self.stmt_mutations(func, root)

    def func_mutations(self, func: FuncInfo) -> list:
        out = []
        cfg = self.cfg(func)
        for n in cfg.live_nodes():
            for m in self.node_mutations(func, cfg, n):
                out.append((n, m))
        return out

    # ------------------------------------------------------------------ handlers
    def handler_catches(self, h: ast.ExceptHandler, exc_name: str) -> Optional[bool]:
        if h.type is None:
            return True
        res: Optional[bool] = False
        for nm in handler_names(h.type):
            if nm.startswith("<call>"):
                res = None
                continue
            r = self.exc_is_subclass(exc_name, nm)
            if r:
                return True
            if r is None:
                res = None
        return res

    def covering_handlers(self, func: FuncInfo, target: ast.AST) -> list:
        """ExceptHandlers (innermost first) of try statements whose *body* contains target."""
        out = []

        def visit(stmts, chain):
            for st in stmts:
                if isinstance(st, (ast.FunctionDef, ast.AsyncFunctionDef, ast.ClassDef)):
                    continue
                if st is target or any(x is target for x in iter_own(st) if not isinstance(st, _COMPOUND)):
                    out.extend(chain)
                    return True
                if isinstance(st, _COMPOUND):
                    # header expressions
                    for hx in _header_exprs(st):
                        if hx is target or any(x is target for x in iter_own(hx)):
                            out.extend(chain)
                            return True
                    if isinstance(st, ast.Try):
                        if visit(st.body, [h for h in st.handlers] + chain if False else list(st.handlers) + chain):
                            return True
                        for h in st.handlers:
                            if visit(h.body, chain):
                                return True
                        if visit(st.orelse, chain) or visit(st.finalbody, chain):
                            return True
                    else:
                        for fld in ("body", "orelse"):
                            if visit(getattr(st, fld, []) or [], chain):
                                return True
            return False

        visit(func.body, [])
        return out


_COMPOUND = (ast.If, ast.While, ast.For, ast.AsyncFor, ast.With, ast.AsyncWith, ast.Try)


def _header_exprs(st) -> list:
    if isinstance(st, (ast.If, ast.While)):
        return [st.test]
    if isinstance(st, (ast.For, ast.AsyncFor)):
        return [st.iter, st.target]
    if isinstance(st, (ast.With, ast.AsyncWith)):
        return [it.context_expr for it in st.items] + [it.optional_vars for it in st.items if it.optional_vars is not None]
    return []
