"""
Property C12: current_context() follows strict per-task stack discipline.

This file must pass both on the unchanged source and with refactor1.diff applied
(Context.__repr__ / richer corruption message / out-of-order exit warning).
"""

from __future__ import annotations

import sys
from typing import Any

import anyio
import pytest
from anyio import CancelScope, create_task_group, get_cancelled_exc_class
from anyio.lowlevel import checkpoint

from asphalt.core import (
    Component,
    Context,
    NoCurrentContext,
    current_context,
    start_component,
)

if sys.version_info < (3, 11):
    from exceptiongroup import BaseExceptionGroup

pytestmark = pytest.mark.anyio


@pytest.fixture(params=["asyncio", "trio"])
def anyio_backend(request: pytest.FixtureRequest) -> str:
    return request.param


def current_or_none() -> Context | None:
    try:
        return current_context()
    except NoCurrentContext:
        return None


async def nest(depth: int, seen: list[Context]) -> None:
    """Enter ``depth`` nested contexts recursively, checking the stack at each level."""
    before = current_or_none()
    if depth == 0:
        return

    ctx = Context()
    assert ctx.parent is before
    async with ctx as entered:
        assert entered is ctx
        assert current_context() is ctx
        seen.append(ctx)
        await checkpoint()
        assert current_context() is ctx
        await nest(depth - 1, seen)
        assert current_context() is ctx

    assert current_or_none() is before


@pytest.mark.parametrize("depth", [1, 2, 5, 12])
async def test_nesting_depths(depth: int) -> None:
    pytest.raises(NoCurrentContext, current_context)
    seen: list[Context] = []
    await nest(depth, seen)
    assert len(seen) == depth
    for outer, inner in zip(seen, seen[1:]):
        assert inner.parent is outer

    assert seen[0].parent is None
    pytest.raises(NoCurrentContext, current_context)


async def test_leave_by_return() -> None:
    async def inner() -> Context:
        async with Context() as ctx:
            async with Context():
                return ctx

        pytest.fail("unreachable")

    async with Context() as outer:
        ctx = await inner()
        assert ctx.parent is outer
        assert current_context() is outer

    pytest.raises(NoCurrentContext, current_context)


async def test_leave_by_exception() -> None:
    async with Context() as outer:
        with pytest.raises(KeyError):
            async with Context() as mid:
                assert current_context() is mid
                try:
                    async with Context() as inner:
                        assert current_context() is inner
                        raise ValueError("boom")
                except ValueError:
                    assert current_context() is mid
                    raise KeyError("second") from None

        assert current_context() is outer

    pytest.raises(NoCurrentContext, current_context)


async def test_leave_by_teardown_raising() -> None:
    observed: list[Any] = []

    def failing_teardown() -> None:
        # Teardown callbacks run while the context is still the current one
        observed.append(current_context())
        raise RuntimeError("teardown failed")

    async def async_failing_teardown(exc: BaseException | None) -> None:
        await checkpoint()
        observed.append(exc)
        raise LookupError("async teardown failed")

    async with Context() as outer:
        with pytest.raises(BaseExceptionGroup) as excinfo:
            async with Context() as inner:
                inner.add_teardown_callback(failing_teardown)
                inner.add_teardown_callback(async_failing_teardown, True)

        assert excinfo.group_contains(RuntimeError, match="teardown failed")
        assert excinfo.group_contains(LookupError, match="async teardown failed")
        assert observed == [None, inner]
        assert current_context() is outer

        # ...also when the block itself raised
        with pytest.raises(BaseExceptionGroup):
            async with Context() as inner2:
                inner2.add_teardown_callback(failing_teardown)
                raise ValueError("body failed")

        assert observed[-1] is inner2
        assert current_context() is outer

    pytest.raises(NoCurrentContext, current_context)


async def test_leave_by_cancellation() -> None:
    cancelled_in: list[Context] = []
    async with Context() as outer:
        with CancelScope() as scope:
            async with Context() as mid:
                async with Context() as inner:
                    scope.cancel()
                    try:
                        await anyio.sleep(10)
                    except get_cancelled_exc_class():
                        cancelled_in.append(current_context())
                        raise

                pytest.fail("should have been cancelled")

        assert scope.cancelled_caught
        assert cancelled_in == [inner]
        assert inner.parent is mid
        assert current_context() is outer

        with anyio.move_on_after(0.01) as scope2:
            async with Context():
                await anyio.sleep(10)

        assert scope2.cancelled_caught
        assert current_context() is outer

    pytest.raises(NoCurrentContext, current_context)


async def test_task_inherits_spawn_context() -> None:
    results: dict[str, Any] = {}

    async def child(name: str, expected: Context | None) -> None:
        results[name] = current_or_none()
        assert current_or_none() is expected
        async with Context() as own:
            assert own.parent is expected
            await checkpoint()
            assert current_context() is own

        assert current_or_none() is expected

    async with create_task_group() as tg:
        tg.start_soon(child, "no_context", None)
        async with Context() as outer:
            tg.start_soon(child, "outer", outer)
            async with Context() as inner:
                tg.start_soon(child, "inner", inner)
                await anyio.sleep(0.01)
                assert current_context() is inner

            assert current_context() is outer
            tg.start_soon(child, "outer_again", outer)
            await anyio.sleep(0.01)

        pytest.raises(NoCurrentContext, current_context)

    assert results == {
        "no_context": None,
        "outer": outer,
        "inner": inner,
        "outer_again": outer,
    }


@pytest.mark.parametrize("num_tasks", [2, 7])
async def test_concurrent_tasks_do_not_disturb_each_other(num_tasks: int) -> None:
    errors: list[str] = []
    finished: list[int] = []

    async def worker(index: int, root: Context) -> None:
        stack: list[Context] = [root]

        def check(where: str) -> None:
            if current_context() is not stack[-1]:
                errors.append(f"task {index} {where}: wrong current context")

        async def go(depth: int) -> None:
            if depth == 0:
                if index % 3 == 0:
                    raise ValueError(index)
                return

            ctx = Context()
            if ctx.parent is not stack[-1]:
                errors.append(f"task {index}: wrong parent at depth {depth}")

            try:
                async with ctx:
                    stack.append(ctx)
                    check("after enter")
                    # Force an interleaving with all the other tasks
                    await anyio.sleep(0.001 * ((index + depth) % 3))
                    check("after sleep")
                    await go(depth - 1)
                    check("after inner")
            finally:
                if stack[-1] is ctx:
                    stack.pop()
                check("after exit")

        check("at start")
        try:
            await go(2 + index % 4)
        except ValueError:
            pass

        check("at end")
        assert stack == [root]
        finished.append(index)

    async with Context() as root:
        async with create_task_group() as tg:
            for i in range(num_tasks):
                tg.start_soon(worker, i, root)

            for _ in range(5):
                await checkpoint()
                assert current_context() is root

        assert current_context() is root

    assert not errors
    assert sorted(finished) == list(range(num_tasks))
    pytest.raises(NoCurrentContext, current_context)


async def test_context_created_elsewhere_keeps_creation_parent() -> None:
    async with Context() as first:
        detached = Context()

    async with Context() as second:
        assert detached.parent is first
        explicit = Context(first)
        assert explicit.parent is first
        implicit = Context()
        assert implicit.parent is second
        async with implicit:
            assert current_context() is implicit

        assert current_context() is second


async def test_component_contexts() -> None:
    seen: dict[str, Any] = {}

    class Child(Component):
        def __init__(self, name: str = "child") -> None:
            self.name = name

        async def prepare(self) -> None:
            seen[f"{self.name}.prepare"] = Context().parent

        async def start(self) -> None:
            seen[f"{self.name}.start"] = Context().parent
            async with Context() as nested:
                await checkpoint()
                seen[f"{self.name}.nested_current"] = current_context() is nested

            seen[f"{self.name}.after"] = current_context()

    class Root(Component):
        def __init__(self) -> None:
            self.add_component("a", Child, name="a")
            self.add_component("b", Child, name="b")

        async def prepare(self) -> None:
            seen["root.prepare"] = Context().parent

        async def start(self) -> None:
            seen["root.start"] = Context().parent

    async with Context() as outer:
        async with Context() as ctx:
            await start_component(Root)
            assert current_context() is ctx

        assert current_context() is outer

    for key in (
        "root.prepare",
        "root.start",
        "a.prepare",
        "a.start",
        "b.prepare",
        "b.start",
    ):
        assert seen[key] is ctx, key

    assert seen["a.nested_current"] is True
    assert seen["b.nested_current"] is True
    # Inside start() the current context is the component's own context, not a leftover
    # from the sibling
    assert seen["a.after"] is not seen["b.after"]
    pytest.raises(NoCurrentContext, current_context)


async def test_start_component_failure_restores_context() -> None:
    class Failing(Component):
        async def start(self) -> None:
            async with Context():
                raise RuntimeError("start failed")

    async with Context() as ctx:
        with pytest.raises(Exception, match="start failed"):
            await start_component(Failing)

        assert current_context() is ctx

    pytest.raises(NoCurrentContext, current_context)
