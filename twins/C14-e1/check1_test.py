"""
Property C14 checks (layered deep merge of component configuration).

Focus of this file: the merge between add_component() defaults and the external
``components`` configuration at several depths, config-only children, and the
fact that the configuration object is left unmodified and reusable - all with DEBUG
logging enabled, as that is where change 1 adds output.
"""

from __future__ import annotations

import logging
import sys
from copy import deepcopy
from typing import Any
from unittest.mock import Mock

import pytest

from asphalt.core import (
    Component,
    Context,
    add_resource,
    get_resource_nowait,
    get_resources,
    start_component,
)
from asphalt.core._component import component_types

if sys.version_info >= (3, 10):
    from importlib.metadata import EntryPoint
else:
    from importlib_metadata import EntryPoint

pytestmark = pytest.mark.anyio


@pytest.fixture
def anyio_backend() -> str:
    return "asyncio"


CREATED: list[tuple[str, dict[str, Any]]] = []


class Leaf(Component):
    def __init__(self, **kwargs: Any) -> None:
        self.kwargs = kwargs
        CREATED.append((type(self).__name__, deepcopy(kwargs)))

    publish_default = True

    async def start(self) -> None:
        if self.publish_default:
            add_resource(self, types=[Leaf])

        add_resource(self, "explicit_" + str(self.kwargs.get("tag")), types=[Leaf])


class QuietLeaf(Leaf):
    # Used for aliases without a slash, to avoid several "default" Leaf resources
    publish_default = False


class OtherLeaf(QuietLeaf):
    pass


class Mid(Component):
    def __init__(self, **kwargs: Any) -> None:
        self.kwargs = kwargs
        CREATED.append((type(self).__name__, deepcopy(kwargs)))
        self.add_component(
            "leaf/one", tag="one", opts={"a": 1, "nested": {"x": 1, "y": 2}}, keep=1
        )
        self.add_component("hard", QuietLeaf, tag="hard", opts={"only": "hardcoded"})
        self.add_component("retyped", QuietLeaf, tag="retyped")

    async def prepare(self) -> None:
        # Added in prepare(): must stay under "default" even with a kind/name alias
        add_resource("prepared")


class Root(Component):
    def __init__(self, **kwargs: Any) -> None:
        self.kwargs = kwargs
        CREATED.append((type(self).__name__, deepcopy(kwargs)))
        self.add_component(
            "mid/m", Mid, level="mid", settings={"p": 1, "q": {"r": 1}}
        )
        self.add_component("leaf", tag="rootleaf", opts={"z": 0})


@pytest.fixture(autouse=True)
def plugins(monkeypatch: pytest.MonkeyPatch) -> None:
    leaf_ep = Mock(EntryPoint)
    leaf_ep.load.configure_mock(return_value=Leaf)
    mid_ep = Mock(EntryPoint)
    mid_ep.load.configure_mock(return_value=Mid)
    monkeypatch.setattr(component_types, "_entrypoints", {"leaf": leaf_ep, "mid": mid_ep})
    monkeypatch.setattr(component_types, "_resolved", {})
    CREATED.clear()


def external_config() -> dict[str, Any]:
    return {
        "rootopt": {"k": [1, 2]},
        "components": {
            "mid/m": {
                "settings": {"q": {"s": 2}, "t": 3},
                "components": {
                    "leaf/one": {"opts": {"a": 10, "nested": {"y": 20, "w": 30}}},
                    "retyped": {"type": f"{__name__}:OtherLeaf", "extra": True},
                    "leaf/cfgonly": None,
                    "x/added": {"type": "leaf", "tag": "added", "opts": {"n": {"m": 1}}},
                },
            },
            "leaf": {"opts": {"z": None}},
            "leaf/top": {"tag": "top"},
        },
    }


EXPECTED = [
    ("Root", {"rootopt": {"k": [1, 2]}}),
    ("Mid", {"level": "mid", "settings": {"p": 1, "q": {"r": 1, "s": 2}, "t": 3}}),
    (
        "Leaf",
        {
            "tag": "one",
            "opts": {"a": 10, "nested": {"x": 1, "y": 20, "w": 30}},
            "keep": 1,
        },
    ),
    ("QuietLeaf", {"tag": "hard", "opts": {"only": "hardcoded"}}),
    ("OtherLeaf", {"tag": "retyped", "extra": True}),
    ("Leaf", {}),
    ("Leaf", {"tag": "added", "opts": {"n": {"m": 1}}}),
    ("Leaf", {"tag": "rootleaf", "opts": {"z": None}}),
    ("Leaf", {"tag": "top"}),
]


async def test_deep_merge_at_every_depth(caplog: pytest.LogCaptureFixture) -> None:
    caplog.set_level(logging.DEBUG, "asphalt.core")
    config = external_config()
    pristine = deepcopy(config)
    async with Context():
        root = await start_component(Root, config)
        assert isinstance(root, Root)
        assert CREATED == EXPECTED

        leaves = get_resources(Leaf)
        # kind/name aliases publish start()-time "default" resources under name
        assert leaves["one"].kwargs["tag"] == "one"
        assert "cfgonly" in leaves and leaves["cfgonly"].kwargs == {}
        assert leaves["top"].kwargs == {"tag": "top"}
        # alias "x/added" with an explicit type: type from config, name from alias
        assert type(leaves["added"]) is Leaf and leaves["added"].kwargs["tag"] == "added"
        # an alias without a slash keeps "default"
        assert leaves["default"].kwargs == {"tag": "rootleaf", "opts": {"z": None}}
        # explicitly named resources are never renamed
        for tag in ("one", "hard", "added", "rootleaf", "top", "None"):
            assert f"explicit_{tag}" in leaves
        assert type(leaves["explicit_retyped"]) is OtherLeaf
        assert leaves["explicit_retyped"].kwargs == {"tag": "retyped", "extra": True}
        assert len(leaves) == 5 + 7
        # resource added in prepare() of "mid/m" stays under "default"
        assert get_resource_nowait(str) == "prepared"
        assert get_resource_nowait(str, "m", optional=True) is None

    # The configuration object was left untouched
    assert config == pristine


async def test_config_reusable_and_trees_equal() -> None:
    config = external_config()
    pristine = deepcopy(config)
    snapshots = []
    for _ in range(3):
        CREATED.clear()
        async with Context():
            await start_component(Root, config)
            snapshots.append(deepcopy(CREATED))

        assert config == pristine

    assert snapshots[0] == snapshots[1] == snapshots[2] == EXPECTED

    # An equal (but distinct) configuration gives an equal tree too
    CREATED.clear()
    async with Context():
        await start_component(Root, deepcopy(pristine))

    assert CREATED == EXPECTED


@pytest.mark.parametrize(
    "type_ref",
    [
        pytest.param(Leaf, id="class"),
        pytest.param(f"{__name__}:Leaf", id="reference"),
        pytest.param("leaf", id="entrypoint"),
        pytest.param(None, id="from-alias"),
    ],
)
@pytest.mark.parametrize("where", ["hardcoded", "external"])
async def test_type_naming_equivalence(type_ref: Any, where: str) -> None:
    class Parent(Component):
        def __init__(self) -> None:
            if where == "hardcoded":
                self.add_component("leaf/named", type_ref, tag="t", opts={"a": {"b": 1}})
            else:
                self.add_component("leaf/named", tag="t", opts={"a": {"b": 1}})

    child_cfg: dict[str, Any] = {"opts": {"a": {"c": 2}}}
    if where == "external" and type_ref is not None:
        child_cfg["type"] = type_ref

    config = {"components": {"leaf/named": child_cfg}}
    pristine = {"components": {"leaf/named": dict(child_cfg, opts={"a": {"c": 2}})}}
    async with Context():
        await start_component(Parent, config)
        leaf = get_resource_nowait(Leaf, "named")
        assert type(leaf) is Leaf
        assert leaf.kwargs == {"tag": "t", "opts": {"a": {"b": 1, "c": 2}}}
        assert get_resource_nowait(Leaf, optional=True) is None
        assert get_resource_nowait(Leaf, "explicit_t") is leaf

    assert config == pristine
    assert CREATED == [("Leaf", {"tag": "t", "opts": {"a": {"b": 1, "c": 2}}})]


async def test_no_external_config_uses_hardcoded_defaults() -> None:
    async with Context():
        await start_component(Root)

    assert CREATED == [
        ("Root", {}),
        ("Mid", {"level": "mid", "settings": {"p": 1, "q": {"r": 1}}}),
        ("Leaf", {"tag": "one", "opts": {"a": 1, "nested": {"x": 1, "y": 2}}, "keep": 1}),
        ("QuietLeaf", {"tag": "hard", "opts": {"only": "hardcoded"}}),
        ("QuietLeaf", {"tag": "retyped"}),
        ("Leaf", {"tag": "rootleaf", "opts": {"z": 0}}),
    ]
