"""
Behaviour checks for refactoring 1 (everyday clean-up):

* ``Signal.__get__``      - ``try/except KeyError`` replaced by ``.get()``
* ``coalesce_exceptions`` - local alias for ``excgrp.exceptions``
* ``_run_application_async`` - hoisted exit code limit, ``else`` after ``return`` removed

Everything is exercised through the public API of ``asphalt.core``.
"""

from __future__ import annotations

import gc
import sys
import warnings
from typing import Any

import pytest
from anyio import sleep

from asphalt.core import (
    CLIApplicationComponent,
    Component,
    ComponentStartError,
    Context,
    Event,
    Signal,
    UnboundSignal,
    run_application,
    start_component,
    start_service_task,
)

if sys.version_info < (3, 11):
    from exceptiongroup import BaseExceptionGroup, ExceptionGroup

pytestmark = pytest.mark.anyio()

BACKENDS = ["asyncio", "trio"]


@pytest.fixture(params=BACKENDS)
def anyio_backend(request: Any) -> str:
    return request.param


class DummyEvent(Event):
    pass


class OtherEvent(Event):
    pass


class Source:
    first = Signal(DummyEvent)
    second = Signal(OtherEvent)


class SubSource(Source):
    pass


# ---------------------------------------------------------------------------
# Signal.__get__
# ---------------------------------------------------------------------------


class TestSignalBinding:
    def test_class_access_returns_declaration(self) -> None:
        declared = Source.__dict__["first"]
        assert Source.first is declared
        assert SubSource.first is declared
        assert Source.first.event_class is DummyEvent

    def test_bound_signal_is_cached_per_instance(self) -> None:
        a, b = Source(), Source()
        assert a.first is a.first
        assert a.second is a.second
        assert a.first is not b.first
        assert a.first is not a.second
        assert a.first is not Source.first
        assert a.first.event_class is DummyEvent
        assert a.second.event_class is OtherEvent

    def test_bound_signal_shared_between_class_and_subclass_instances(self) -> None:
        a, b = Source(), SubSource()
        assert b.first is b.first
        assert b.first is not a.first

    def test_repeated_access_creates_one_bound_signal(self) -> None:
        a = Source()
        seen = {id(a.first) for _ in range(20)}
        assert len(seen) == 1
        assert len(Source.first._bound_signals) >= 1

    def test_bound_signals_are_released_with_the_instance(self) -> None:
        declared = Source.__dict__["first"]
        gc.collect()
        before = len(declared._bound_signals)
        a = Source()
        bound = a.first
        assert len(declared._bound_signals) == before + 1
        assert a in declared._bound_signals
        del a
        gc.collect()
        assert len(declared._bound_signals) == before
        # The bound signal stays usable but its source is gone
        event = DummyEvent()
        bound.dispatch(event)
        assert event.source is None
        assert event.topic == "first"

    def test_unhashable_owner_is_rejected_on_every_access(self) -> None:
        class Unhashable:
            sig = Signal(DummyEvent)
            __hash__ = None  # type: ignore[assignment]

        obj = Unhashable()
        for _ in range(2):
            with pytest.raises(TypeError, match="unhashable"):
                obj.sig

        assert len(Unhashable.__dict__["sig"]._bound_signals) == 0

    def test_owner_without_weakref_support_is_rejected(self) -> None:
        class NoWeakref:
            __slots__ = ()
            sig = Signal(DummyEvent)

        obj = NoWeakref()
        for _ in range(2):
            with pytest.raises(TypeError, match="weak reference"):
                obj.sig

    def test_unbound_signal_cannot_dispatch(self) -> None:
        with pytest.raises(UnboundSignal):
            Source.first.dispatch(DummyEvent())

    async def test_bound_signals_are_independent(self) -> None:
        a, b = Source(), Source()
        async with a.first.stream_events() as stream_a, b.first.stream_events() as (
            stream_b
        ):
            a.first.dispatch(DummyEvent())
            b.first.dispatch(DummyEvent())
            b.first.dispatch(DummyEvent())
            event = await stream_a.__anext__()
            assert event.source is a and event.topic == "first"
            event = await stream_b.__anext__()
            assert event.source is b
            event = await stream_b.__anext__()
            assert event.source is b

        assert a.first._send_streams == []
        assert b.first._send_streams == []


# ---------------------------------------------------------------------------
# coalesce_exceptions (root Context, start_component)
# ---------------------------------------------------------------------------


class TestCoalescing:
    async def test_single_exception_from_context_block_is_unwrapped(self) -> None:
        cause = KeyError("the cause")
        with pytest.raises(RuntimeError, match="^boom$") as exc_info:
            async with Context():
                raise RuntimeError("boom") from cause

        exc = exc_info.value
        assert type(exc) is RuntimeError
        assert exc.__cause__ is cause
        assert exc.__suppress_context__ is True
        assert isinstance(exc.__context__, ExceptionGroup)
        assert exc.__context__.exceptions == (exc,)

    async def test_single_exception_without_cause(self) -> None:
        with pytest.raises(ValueError, match="^no cause$") as exc_info:
            async with Context():
                raise ValueError("no cause")

        exc = exc_info.value
        assert exc.__cause__ is None
        assert exc.__suppress_context__ is True
        assert isinstance(exc.__context__, ExceptionGroup)

    async def test_single_failing_service_task_is_unwrapped(self) -> None:
        async def fail() -> None:
            raise LookupError("task failed")

        with pytest.raises(LookupError, match="^task failed$") as exc_info:
            async with Context():
                await start_service_task(fail, "failing task")
                await sleep(5)

        assert type(exc_info.value) is LookupError

    async def test_two_exceptions_stay_grouped(self) -> None:
        async def fail_on_cancel() -> None:
            try:
                await sleep(60)
            finally:
                raise LookupError("task cleanup failed")

        with pytest.raises(ExceptionGroup) as exc_info:
            async with Context():
                await start_service_task(fail_on_cancel, "failing task")
                await sleep(0.01)
                raise RuntimeError("block failed")

        group = exc_info.value
        assert sorted(type(exc).__name__ for exc in group.exceptions) == [
            "LookupError",
            "RuntimeError",
        ]
        assert sorted(str(exc) for exc in group.exceptions) == [
            "block failed",
            "task cleanup failed",
        ]

    async def test_nested_group_is_not_unwrapped(self) -> None:
        inner = ExceptionGroup("inner", [ValueError("x")])
        with pytest.raises(ExceptionGroup) as exc_info:
            async with Context():
                raise inner

        outer = exc_info.value
        assert outer.message != "inner"
        assert len(outer.exceptions) == 1
        nested = outer.exceptions[0]
        assert isinstance(nested, ExceptionGroup)
        assert nested.message == "inner"
        assert [type(exc) for exc in nested.exceptions] == [ValueError]

    async def test_nested_group_with_two_members_is_not_unwrapped(self) -> None:
        inner = ExceptionGroup("inner", [ValueError("x"), KeyError("y")])
        with pytest.raises(ExceptionGroup) as exc_info:
            async with Context():
                raise inner

        outer = exc_info.value
        assert len(outer.exceptions) == 1
        nested = outer.exceptions[0]
        assert isinstance(nested, ExceptionGroup)
        assert nested.message == "inner"
        assert [type(exc) for exc in nested.exceptions] == [ValueError, KeyError]

    async def test_base_exception_group_is_left_alone(self) -> None:
        class Fatal(BaseException):
            pass

        with pytest.raises(BaseExceptionGroup) as exc_info:
            async with Context():
                raise Fatal("fatal")

        group = exc_info.value
        assert not isinstance(group, ExceptionGroup)
        assert len(group.exceptions) == 1
        assert type(group.exceptions[0]) is Fatal

    async def test_no_exception(self) -> None:
        async with Context() as ctx:
            pass

        assert ctx is not None

    async def test_failing_child_component_is_unwrapped(self) -> None:
        class Child(Component):
            async def start(self) -> None:
                raise RuntimeError("child failed")

        class Parent(Component):
            def __init__(self) -> None:
                self.add_component("child", Child)

        for timeout in (None, 5):
            with pytest.raises(ComponentStartError) as exc_info:
                async with Context():
                    await start_component(Parent, timeout=timeout)

            exc = exc_info.value
            assert "child" in str(exc)
            assert isinstance(exc.__cause__, RuntimeError)
            assert str(exc.__cause__) == "child failed"

    async def test_two_failing_child_components_stay_grouped(self) -> None:
        class Child(Component):
            async def start(self) -> None:
                try:
                    await sleep(60)
                finally:
                    raise RuntimeError("child cleanup failed")

        class FastChild(Component):
            async def start(self) -> None:
                await sleep(0.01)
                raise RuntimeError("child failed")

        class Parent(Component):
            def __init__(self) -> None:
                self.add_component("child1", Child)
                self.add_component("child2", FastChild)

        with pytest.raises(ExceptionGroup) as exc_info:
            async with Context():
                await start_component(Parent, timeout=None)

        def leaves(exc: BaseException) -> list[BaseException]:
            if isinstance(exc, BaseExceptionGroup):
                return [leaf for sub in exc.exceptions for leaf in leaves(sub)]

            return [exc]

        found = leaves(exc_info.value)
        assert len(found) == 2
        assert all(isinstance(exc, ComponentStartError) for exc in found)
        assert sorted(str(exc.__cause__) for exc in found) == [
            "child cleanup failed",
            "child failed",
        ]


# ---------------------------------------------------------------------------
# Exit code handling of run_application()
# ---------------------------------------------------------------------------


class ExitCodeApp(CLIApplicationComponent):
    def __init__(self, exit_code: Any = None) -> None:
        super().__init__()
        self.exit_code = exit_code

    async def run(self) -> Any:
        return self.exit_code


def run_cli(exit_code: Any, backend: str) -> tuple[Any, list[warnings.WarningMessage]]:
    """Return the ``SystemExit`` code (or "no exit") and the warnings emitted."""
    with warnings.catch_warnings(record=True) as caught:
        warnings.simplefilter("always")
        try:
            run_application(
                ExitCodeApp, {"exit_code": exit_code}, backend=backend, logging=None
            )
        except SystemExit as exc:
            return exc.code, [w for w in caught if w.category is UserWarning]

    return "no exit", [w for w in caught if w.category is UserWarning]


@pytest.mark.parametrize("backend", BACKENDS)
class TestExitCodes:
    @pytest.mark.parametrize("exit_code", [None, 0, False])
    def test_success(self, exit_code: Any, backend: str) -> None:
        code, caught = run_cli(exit_code, backend)
        assert code == "no exit"
        assert caught == []

    @pytest.mark.parametrize("exit_code", [1, 2, 20, 126, 127])
    def test_in_range(self, exit_code: int, backend: str) -> None:
        code, caught = run_cli(exit_code, backend)
        assert code == exit_code and type(code) is int
        assert caught == []

    def test_true_is_passed_through(self, backend: str) -> None:
        code, caught = run_cli(True, backend)
        assert code is True
        assert caught == []

    @pytest.mark.parametrize("exit_code", [128, 255, 1000, -1, -128])
    def test_out_of_range(self, exit_code: int, backend: str) -> None:
        code, caught = run_cli(exit_code, backend)
        assert code == 1
        assert [str(w.message) for w in caught] == [
            f"exit code out of range: {exit_code}"
        ]
        assert caught[0].filename.endswith("_runner.py")

    @pytest.mark.parametrize(
        "exit_code, type_name",
        [("foo", "str"), (1.0, "float"), ([], "list"), ((3,), "tuple")],
    )
    def test_wrong_type(self, exit_code: Any, type_name: str, backend: str) -> None:
        code, caught = run_cli(exit_code, backend)
        assert code == 1
        assert [str(w.message) for w in caught] == [
            f"run() must return an integer or None, not {type_name}"
        ]

    def test_out_of_range_warning_as_error(self, backend: str) -> None:
        """
        If the warning is turned into an error, it propagates out of the application
        (in the same way as before).

        """
        with warnings.catch_warnings():
            warnings.simplefilter("error")
            with pytest.raises(UserWarning, match="exit code out of range: 300"):
                run_application(
                    ExitCodeApp, {"exit_code": 300}, backend=backend, logging=None
                )

    def test_run_raises(self, backend: str) -> None:
        class Failing(CLIApplicationComponent):
            async def run(self) -> int:
                raise RuntimeError("run failed")

        with pytest.raises(RuntimeError, match="^run failed$"):
            run_application(Failing, backend=backend, logging=None)
