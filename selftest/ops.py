"""Catalogue of source-level variants of the current tree.

kind='break': the property is broken, the variant still compiles; the check must report a
              VIOLATION naming (one of) the listed rule(s).
kind='twin':  behaviour-preserving refactoring; the check must stay silent.

Each variant is a list of exact (old, new) text edits on one file; an edit that does not
apply (the tree was edited) makes the variant 'n/a', which is informational only.
"""

MUTANTS: list = []


def M(id, prop, file, rules, what, *edits, kind="break", count=1, control=True, base=None):
    """base: id of a kept twin (/verif/twins/<id>/patch.diff) that is applied first - the edits
    then break an accepted evolution, showing that the acceptance condition is no loophole."""
    MUTANTS.append({"id": id, "prop": prop, "file": file, "rules": rules if isinstance(rules, list) else [rules], "what": what, "edits": list(edits), "kind": kind, "count": count, "control": control, "base": base})


def T(id, prop, file, what, *edits, count=1):
    M(id, prop, file, [], what, *edits, kind="twin", count=count)


# =============================================================================== C03
_ADD_RES_TAIL = '''        # Add the teardown callback, if any (this validates the callback, so it has to
        # happen before the resource is made available)
        if teardown_callback is not None:
            self.add_teardown_callback(teardown_callback)

        container = ResourceContainer(value, types_, name, description)
        for type_ in types_:
            self._resources[(type_, name)] = container
'''
M("c03-f5-inverse", "C03", "_context.py", "C03.R1", "register (and validate) the teardown callback after the insertion (pre-fix F5)",
  (_ADD_RES_TAIL, '''        container = ResourceContainer(value, types_, name, description)
        for type_ in types_:
            self._resources[(type_, name)] = container

        if teardown_callback is not None:
            self.add_teardown_callback(teardown_callback)
'''))
_CONFLICT_LOOP = '''        for resource_type in types_:
            if (resource_type, name) in self._resources:
                raise ResourceConflict(
                    f"this context already contains a resource of type "
                    f"{qualified_name(resource_type)} using the name {name!r}"
                )

'''
M("c03-check-inside-insert-loop", "C03", "_context.py", ["C03.R2", "C03.R1"], "conflict check interleaved with insertion: a conflict on the second type leaves the first inserted",
  (_CONFLICT_LOOP, ""),
  ('''        for type_ in types_:
            self._resources[(type_, name)] = container
''', '''        for type_ in types_:
            if (type_, name) in self._resources:
                raise ResourceConflict("conflict")
            self._resources[(type_, name)] = container
'''))
M("c03-check-first-type-only", "C03", "_context.py", "C03.R2", "conflict check looks only at the first type",
  (_CONFLICT_LOOP, '''        if (types_[0], name) in self._resources:
            raise ResourceConflict("conflict")

'''))
M("c03-check-wrong-name", "C03", "_context.py", "C03.R2", "factory conflict check ignores the requested name",
  ("if (type_, name) in self._resource_factories:", 'if (type_, "default") in self._resource_factories:'))
M("c03-no-conflict-check", "C03", "_context.py", "C03.R2", "no conflict check for factories at all",
  ('''            if (type_, name) in self._resource_factories:
                raise ResourceConflict(
                    f"this context already contains a resource factory for the "
                    f"type {qualified_name(type_)}"
                )
''', "            pass\n"))
M("c03-f3-inverse", "C03", "_context.py", "C03.R3", "generation overwrites occupied keys (pre-fix F3)",
  ("self._resources.setdefault((type_, factory.name), container)", "self._resources[(type_, factory.name)] = container"), count=2)
M("c03-value-check-after-insert", "C03", "_context.py", "C03.R1", "None-value validation after the insertion",
  ('''        if value is None:
            raise ValueError('"value" must not be None')

''', ""),
  ('''        for type_ in types_:
            self._resources[(type_, name)] = container
''', '''        for type_ in types_:
            self._resources[(type_, name)] = container

        if value is None:
            raise ValueError('"value" must not be None')
'''))
M("c03-pop-on-async-error", "C03", "_context.py", "C03.R4", "a lookup removes a registered resource",
  ('''        if optional:
            return None

        raise ResourceNotFound(type, name)

    @overload
    async def get_resource(''', '''        if optional:
            self._resources.pop((object, name), None)
            return None

        raise ResourceNotFound(type, name)

    @overload
    async def get_resource('''))
M("c03-wrapper-raises-after-delegate", "C03", "_component.py", "C03.R1", "component wrapper validates after delegating",
  ('''        logger.debug(
            "%s added a resource (%s)",''', '''        if description is not None and not isinstance(description, str):
            raise TypeError("description must be a string")

        logger.debug(
            "%s added a resource (%s)",'''))
T("c03-twin-early-validate-late-register", "C03", "_context.py", "explicit callable() validation first, registration after the insertion (the other F5 repair)",
  (_ADD_RES_TAIL, '''        container = ResourceContainer(value, types_, name, description)
        for type_ in types_:
            self._resources[(type_, name)] = container

        # Add the teardown callback, if any
        if teardown_callback is not None:
            self.add_teardown_callback(teardown_callback)
'''),
  ('''        if value is None:
            raise ValueError('"value" must not be None')
''', '''        if value is None:
            raise ValueError('"value" must not be None')

        if teardown_callback is not None and not callable(teardown_callback):
            raise TypeError("teardown_callback must be a callable")
'''))
T("c03-twin-any-check", "C03", "_context.py", "conflict check written with any()",
  (_CONFLICT_LOOP, '''        if any((resource_type, name) in self._resources for resource_type in types_):
            raise ResourceConflict("this context already contains such a resource")

'''))
T("c03-twin-guarded-store", "C03", "_context.py", "generation store guarded by a not-in test instead of setdefault",
  ("self._resources.setdefault((type_, factory.name), container)", '''if (type_, factory.name) not in self._resources:
                    self._resources[(type_, factory.name)] = container'''), count=2)
T("c03-twin-rename", "C03", "_context.py", "rename locals in add_resource",
  ("container = ResourceContainer(value, types_, name, description)\n        for type_ in types_:\n            self._resources[(type_, name)] = container",
   "holder = ResourceContainer(value, types_, name, description)\n        for res_type in types_:\n            self._resources[(res_type, name)] = holder"))

# =============================================================================== C04
_ASYNC_CONTAINER = '''                generated_resource = await generated_resource

            container = ResourceContainer(
                generated_resource,
                factory.types,
                factory.name,
                factory.description,
                is_generated=True,
            )'''
M("c04-f2-inverse", "C04", "_context.py", "C04.R1", "async lookup stores the product without the generated flag (pre-fix F2)",
  (_ASYNC_CONTAINER, _ASYNC_CONTAINER.replace("                is_generated=True,\n", "")))
_SYNC_CONTAINER = '''            # Store the generated resource in the context
            container = ResourceContainer(
                generated_resource,
                factory.types,
                factory.name,
                factory.description,
                is_generated=True,
            )'''
M("c04-sync-flag-dropped", "C04", "_context.py", "C04.R1", "sync lookup stores the product without the generated flag",
  (_SYNC_CONTAINER, _SYNC_CONTAINER.replace("                is_generated=True,\n", "")))
M("c04-children-inherit-generated", "C04", "_context.py", "C04.R2", "child contexts copy generated resources too",
  ('''            self._resources = {
                key: res
                for key, res in self._parent._resources.items()
                if not res.is_generated
            }''', "            self._resources = dict(self._parent._resources)"))
M("c04-filter-inverted", "C04", "_context.py", "C04.R2", "child contexts copy only generated resources",
  ("                if not res.is_generated\n", "                if res.is_generated\n"))
M("c04-no-coroutine-test", "C04", "_context.py", "C04.R3", "sync lookup stores the coroutine object of an async factory",
  ('''            if iscoroutine(generated_resource):
                generated_resource.close()
                raise AsyncResourceError()
''', ""))
M("c04-coroutine-test-after-store", "C04", "_context.py", "C04.R3", "AsyncResourceError raised after the coroutine was stored",
  ('''            if iscoroutine(generated_resource):
                generated_resource.close()
                raise AsyncResourceError()
''', ""),
  ('''            # Dispatch the resource_added event to notify any listeners
            self.resource_added.dispatch(
                ResourceEvent(factory.types, name, factory.description, False)
            )

            return cast(T_Resource, generated_resource)

        if optional:
            return None

        raise ResourceNotFound(type, name)

    @overload
    async def get_resource(''', '''            if iscoroutine(generated_resource):
                generated_resource.close()
                raise AsyncResourceError()

            # Dispatch the resource_added event to notify any listeners
            self.resource_added.dispatch(
                ResourceEvent(factory.types, name, factory.description, False)
            )

            return cast(T_Resource, generated_resource)

        if optional:
            return None

        raise ResourceNotFound(type, name)

    @overload
    async def get_resource('''))
M("c04-store-in-parent", "C04", "_context.py", ["C04.R5", "C04.R1"], "async lookup caches the product in the parent context",
  ('''                generated_resource = await generated_resource
''', '''                generated_resource = await generated_resource
''', ),
  (_ASYNC_CONTAINER + '''
            for type_ in factory.types:
                # Don't replace a resource already present under one of the types
                self._resources.setdefault((type_, factory.name), container)''', _ASYNC_CONTAINER + '''
            for type_ in factory.types:
                # Don't replace a resource already present under one of the types
                (self._parent or self)._resources.setdefault((type_, factory.name), container)'''))
M("c04-async-first-type-only", "C04", "_context.py", "C04.R1", "async lookup stores the product only under the requested key",
  (_ASYNC_CONTAINER + '''
            for type_ in factory.types:
                # Don't replace a resource already present under one of the types
                self._resources.setdefault((type_, factory.name), container)''', _ASYNC_CONTAINER + '''
            self._resources.setdefault(key, container)'''))
M("c04-f6-widen", "C04", "_context.py", "C04.R4", "sync lookup sleeps between miss and store? (a second checkpoint in the async window)",
  ('''            container = ResourceContainer(
                generated_resource,
                factory.types,
                factory.name,
                factory.description,
                is_generated=True,
            )
            for type_ in factory.types:
                # Don't replace a resource already present under one of the types
                self._resources.setdefault((type_, factory.name), container)

            # Dispatch the resource_added event to notify any listeners
            self.resource_added.dispatch(
                ResourceEvent(factory.types, name, factory.description, False)
            )

            return cast(T_Resource, generated_resource)

        if optional:
            return None

        raise ResourceNotFound(type, name)

    def get_resources(''', '''            container = ResourceContainer(
                generated_resource,
                factory.types,
                factory.name,
                factory.description,
                is_generated=True,
            )
            await self._yield_to_loop()
            for type_ in factory.types:
                # Don't replace a resource already present under one of the types
                self._resources.setdefault((type_, factory.name), container)

            # Dispatch the resource_added event to notify any listeners
            self.resource_added.dispatch(
                ResourceEvent(factory.types, name, factory.description, False)
            )

            return cast(T_Resource, generated_resource)

        if optional:
            return None

        raise ResourceNotFound(type, name)

    async def _yield_to_loop(self) -> None:
        from anyio import sleep

        await sleep(0)

    def get_resources('''), control=False)
T("c04-twin-event-name-from-factory", "C04", "_context.py", "event carries factory.name instead of the requested name (equal by invariant)",
  ("ResourceEvent(factory.types, name, factory.description, False)", "ResourceEvent(factory.types, factory.name, factory.description, False)"), count=2)
T("c04-twin-rename-locals", "C04", "_context.py", "rename the generated value variable in both lookups",
  ("generated_resource", "product"), count=None)

# =============================================================================== C11
M("c11-f1-inverse", "C11", "_event.py", "C11.R1", "bound-signal table keyed by the instance alone (pre-fix F1)",
  ('T_Event = TypeVar("T_Event", bound="Event")\n', 'T_Event = TypeVar("T_Event", bound="Event")\nbound_signals = WeakKeyDictionary[Hashable, "Signal[Any]"]()\n'),
  ("            return self._bound_signals[instance]\n", "            return bound_signals[instance]\n"),
  ("            self._bound_signals[instance] = bound_signal\n", "            bound_signals[instance] = bound_signal\n"))
M("c11-key-id-via-local", "C11", "_event.py", "C11.R1", "cache keyed by id(instance) held in a local",
  ("            return self._bound_signals[instance]\n", "            return self._bound_signals[key]\n"),
  ("            self._bound_signals[instance] = bound_signal\n", "            self._bound_signals[key] = bound_signal\n"),
  ("        if instance is None:\n            return self\n", "        if instance is None:\n            return self\n\n        key = id(instance)\n"))
M("c11-key-by-class", "C11", "_event.py", "C11.R1", "cache keyed by the owner class: instances share channels",
  ("            return self._bound_signals[instance]\n", "            return self._bound_signals[owner]\n"),
  ("            self._bound_signals[instance] = bound_signal\n", "            self._bound_signals[owner] = bound_signal\n"))
M("c11-not-cached", "C11", "_event.py", "C11.R2", "a new bound signal on every access",
  ("            self._bound_signals[instance] = bound_signal\n", ""))
M("c11-store-other-key", "C11", "_event.py", "C11.R2", "stored under a different key than fetched",
  ("            self._bound_signals[instance] = bound_signal\n", "            self._bound_signals[type(instance)] = bound_signal\n"))
M("c11-topic-lost", "C11", "_event.py", "C11.R3", "bound signal does not carry the declaration's topic",
  ("            bound_signal._topic = self._topic\n", '            bound_signal._topic = "signal"\n'))
M("c11-event-class-lost", "C11", "_event.py", "C11.R3", "bound signal built with the base Event class",
  ("            bound_signal = Signal(self.event_class)\n", "            bound_signal = Signal(Event)\n"))
M("c11-no-class-check", "C11", "_event.py", "C11.R5", "dispatch accepts events of any class",
  ('''        if not isinstance(event, self.event_class):
            raise TypeError(
                f"Event type mismatch: event ({qualified_name(event)}) is not a "
                f"subclass of {qualified_name(self.event_class)}"
            )
''', ""))
M("c11-class-check-after-send", "C11", "_event.py", "C11.R5", "event class checked after delivery",
  ('''        if not isinstance(event, self.event_class):
            raise TypeError(
                f"Event type mismatch: event ({qualified_name(event)}) is not a "
                f"subclass of {qualified_name(self.event_class)}"
            )

        event.source = self._instance()''', "        event.source = self._instance()"),
  ('''                    SignalQueueFull,
                    stacklevel=2,
                )
''', '''                    SignalQueueFull,
                    stacklevel=2,
                )

        if not isinstance(event, self.event_class):
            raise TypeError("Event type mismatch")
'''))
M("c11-strong-owner-ref", "C11", "_event.py", "C11.R6", "bound signal keeps a strong reference to its owner",
  ("            bound_signal._instance = weakref.ref(instance)\n", "            bound_signal._instance = weakref.ref(instance)\n            bound_signal._owner = instance\n"))
M("c11-strong-table", "C11", "_event.py", "C11.R6", "bound-signal table is a plain dict (strong keys)",
  ("init=False, default_factory=WeakKeyDictionary, repr=False, compare=False", "init=False, default_factory=dict, repr=False, compare=False"))
M("c11-unbound-check-dropped", "C11", "_event.py", "C11.R4", "dispatch on the class-level declaration is not rejected",
  ('''        self._check_is_bound_signal()
        if not isinstance(event, self.event_class):''', "        if not isinstance(event, self.event_class):"))
M("c11-shared-subscriber-list", "C11", "_event.py", "C11.R7", "all bound signals share one subscriber list",
  ("            bound_signal._send_streams = []\n", "            bound_signal._send_streams = _ALL_STREAMS\n"),
  ('T_Event = TypeVar("T_Event", bound="Event")\n', 'T_Event = TypeVar("T_Event", bound="Event")\n_ALL_STREAMS: list = []\n'))
T("c11-twin-nested-by-topic", "C11", "_event.py", "module-level weak table nested by topic",
  ('T_Event = TypeVar("T_Event", bound="Event")\n', 'T_Event = TypeVar("T_Event", bound="Event")\nbound_signals = WeakKeyDictionary[Hashable, "dict[str, Signal[Any]]"]()\n'),
  ("            return self._bound_signals[instance]\n", "            return bound_signals[instance][self._topic]\n"),
  ("            self._bound_signals[instance] = bound_signal\n", "            bound_signals.setdefault(instance, {})[self._topic] = bound_signal\n"))
T("c11-twin-rename", "C11", "_event.py", "rename the local bound signal variable",
  ("bound_signal", "channel"), count=None)

# =============================================================================== C17
M("c17-alias-original", "C17", "_utils.py", ["C17.R1", "C17.R2"], "result aliases the original argument",
  ("    copied = dict(original) if original else {}\n", "    copied = original if original else {}\n"))
M("c17-update-nested-in-place", "C17", "_utils.py", "C17.R1", "nested dictionaries of the original are updated in place",
  ("                copied[key] = merge_config(orig_value, value)\n", "                orig_value.update(value)\n                copied[key] = orig_value\n"))
M("c17-left-bias", "C17", "_utils.py", ["C17.R2", "C17.R3"], "existing keys win (left bias)",
  ("            else:\n                copied[key] = value\n", "            else:\n                copied.setdefault(key, value)\n"))
M("c17-or-guard", "C17", "_utils.py", "C17.R3", "recursion when either side is a dict",
  ("if isinstance(orig_value, dict) and isinstance(value, dict):", "if isinstance(orig_value, dict) or isinstance(value, dict):"))
M("c17-one-sided-guard", "C17", "_utils.py", "C17.R3", "recursion when only the original value is a dict",
  ("if isinstance(orig_value, dict) and isinstance(value, dict):", "if isinstance(orig_value, dict):"))
M("c17-swapped-recursion", "C17", "_utils.py", "C17.R3", "nested merge with swapped arguments (nested left bias)",
  ("merge_config(orig_value, value)", "merge_config(value, orig_value)"))
M("c17-dotted-keys", "C17", "_utils.py", "C17.R5", "dotted keys are split again",
  ("            orig_value = copied.get(key)\n", '            key = key.split(".")[0]\n            orig_value = copied.get(key)\n'))
M("c17-none-overrides-crash", "C17", "_utils.py", "C17.R4", "overrides=None is dereferenced",
  ("    if overrides:\n", "    if overrides is not False:\n"))
M("c17-none-original-crash", "C17", "_utils.py", "C17.R4", "original=None is dereferenced",
  ("    copied = dict(original) if original else {}\n", "    copied = dict(original)\n"))
M("c17-skip-none-values", "C17", "_utils.py", "C17.R2", "override keys whose value is None are dropped",
  ("            else:\n                copied[key] = value\n", "            elif value is not None:\n                copied[key] = value\n"))
T("c17-twin-or-empty", "C17", "_utils.py", "dict(original or {}) / (overrides or {}).items()",
  ("    copied = dict(original) if original else {}\n    if overrides:\n        for key, value in overrides.items():", "    copied = dict(original or {})\n    if overrides:\n        for key, value in overrides.items():"))
T("c17-twin-rename", "C17", "_utils.py", "rename locals",
  ("copied", "merged"), count=None)
T("c17-twin-continue-style", "C17", "_utils.py", "early-continue instead of else",
  ('''            if isinstance(orig_value, dict) and isinstance(value, dict):
                copied[key] = merge_config(orig_value, value)
            else:
                copied[key] = value
''', '''            if isinstance(orig_value, dict) and isinstance(value, dict):
                copied[key] = merge_config(orig_value, value)
                continue

            copied[key] = value
'''))


# =============================================================================== C01
_RUNNER_SIG = '''    async def _run_teardown_callbacks(
        self,
        exc_type: type[BaseException] | None,
        exc_val: BaseException | None,
        exc_tb: TracebackType | None,
    ) -> None:
        # The exception that ended the context block (not whatever exception the
        # surrounding code may happen to be handling)
        original_exception = exc_val
'''
M("c01-f8-inverse", "C01", "_context.py", "C01.R4", "exception argument taken from sys.exc_info() (pre-fix F8)",
  (_RUNNER_SIG, '''    async def _run_teardown_callbacks(self) -> None:
        original_exception = sys.exc_info()[1]
'''),
  ("                exit_stack.push_async_exit(self._run_teardown_callbacks)\n", "                exit_stack.push_async_callback(self._run_teardown_callbacks)\n"))
M("c01-catch-exception-only", "C01", "_context.py", "C01.R2", "teardown loop catches only Exception",
  ("            except BaseException as e:\n                exceptions.append(e)\n", "            except Exception as e:\n                exceptions.append(e)\n"))
M("c01-snapshot-iteration", "C01", "_context.py", "C01.R1", "iterate a reversed snapshot: callbacks added during teardown are dropped",
  ("        while self._teardown_callbacks:\n            callback, pass_exception = self._teardown_callbacks.pop()\n",
   "        for callback, pass_exception in reversed(list(self._teardown_callbacks)):\n"))
M("c01-fifo-pop", "C01", "_context.py", "C01.R1", "pop from the front: FIFO order",
  ("self._teardown_callbacks.pop()\n", "self._teardown_callbacks.pop(0)\n"))
M("c01-pass-last-exception", "C01", "_context.py", "C01.R4", "a later callback receives an earlier callback's exception",
  ("            except BaseException as e:\n                exceptions.append(e)\n", "            except BaseException as e:\n                exceptions.append(e)\n                original_exception = e\n"))
M("c01-insert-front", "C01", "_context.py", "C01.R7", "registration inserts at the front of the stack",
  ("        self._teardown_callbacks.append((callback, pass_exception))\n", "        self._teardown_callbacks.insert(0, (callback, pass_exception))\n"))
M("c01-flag-dropped", "C01", "_context.py", "C01.R7", "registration forgets the pass_exception flag",
  ("        self._teardown_callbacks.append((callback, pass_exception))\n", "        self._teardown_callbacks.append((callback, False))\n"))
M("c01-no-await", "C01", "_context.py", "C01.R3", "awaitable results are not awaited in the loop",
  ("                if isawaitable(retval):\n                    await retval\n            except BaseException as e:", "                if isawaitable(retval):\n                    pending.append(retval)\n            except BaseException as e:"),
  ("        exceptions: list[BaseException] = []\n        while self._teardown_callbacks:", "        exceptions: list[BaseException] = []\n        pending: list[Any] = []\n        while self._teardown_callbacks:"))
M("c01-exceptiongroup", "C01", "_context.py", "C01.R5", "ExceptionGroup cannot hold BaseException members",
  ("            excgrp = BaseExceptionGroup(\n", "            excgrp = ExceptionGroup(\n"))
M("c01-raise-first-only", "C01", "_context.py", "C01.R5", "only the first callback exception is re-raised",
  ('''            excgrp = BaseExceptionGroup(
                "Exceptions were raised during context teardown", exceptions
            )
            del exceptions
            raise excgrp from original_exception''', "            raise exceptions[0] from original_exception"))
M("c01-runner-not-last", "C01", "_context.py", "C01.R6", "context-var reset registered after the teardown runner",
  ('''                _reset_token = _current_context.set(self)
                exit_stack.callback(_current_context.reset, _reset_token)

''', '''                _reset_token = _current_context.set(self)

'''),
  ("                exit_stack.push_async_exit(self._run_teardown_callbacks)\n", "                exit_stack.push_async_exit(self._run_teardown_callbacks)\n                exit_stack.callback(_current_context.reset, _reset_token)\n"))
M("c01-aexit-drops-exc", "C01", "_context.py", "C01.R6", "__aexit__ does not forward the exception to the exit stack",
  ("            retval = await self._exit_stack.__aexit__(exc_type, exc_val, exc_tb)\n", "            retval = await self._exit_stack.__aexit__(None, None, None)\n"))
M("c01-closed-not-in-finally", "C01", "_context.py", ["C01.R9"], "closed state not set when teardown raises",
  ('''        try:
            retval = await self._exit_stack.__aexit__(exc_type, exc_val, exc_tb)
        finally:
            self._state = ContextState.closed
''', '''        retval = await self._exit_stack.__aexit__(exc_type, exc_val, exc_tb)
        self._state = ContextState.closed
'''))
M("c01-context-teardown-flag", "C01", "_context.py", "C01.R8", "@context_teardown registers without pass_exception",
  ("            ctx.add_teardown_callback(teardown_callback, True)\n", "            ctx.add_teardown_callback(lambda: teardown_callback(None))\n"))
M("c01-tg-outside-coalesce", "C01", "_context.py", "C01.R6", "root task group entered outside coalesce_exceptions",
  ('''                    await exit_stack.enter_async_context(coalesce_exceptions())
                    self._task_group = await exit_stack.enter_async_context(
                        create_task_group()
                    )
''', '''                    self._task_group = await exit_stack.enter_async_context(
                        create_task_group()
                    )
                    await exit_stack.enter_async_context(coalesce_exceptions())
'''))
T("c01-twin-while-true-break", "C01", "_context.py", "while True / if not stack: break",
  ("        while self._teardown_callbacks:\n            callback, pass_exception = self._teardown_callbacks.pop()\n",
   "        while True:\n            if not self._teardown_callbacks:\n                break\n\n            callback, pass_exception = self._teardown_callbacks.pop()\n"))
T("c01-twin-pop-minus-one", "C01", "_context.py", "explicit pop(-1)",
  ("self._teardown_callbacks.pop()\n", "self._teardown_callbacks.pop(-1)\n"))
T("c01-twin-generator-drain", "C01", "_context.py", "the pop-until-empty loop is extracted into a private generator method",
  ("        while self._teardown_callbacks:\n            callback, pass_exception = self._teardown_callbacks.pop()\n",
   "        for callback, pass_exception in self._drain_teardown_callbacks():\n"),
  ("    async def _run_teardown_callbacks(\n", "    def _drain_teardown_callbacks(self):\n        while self._teardown_callbacks:\n            yield self._teardown_callbacks.pop()\n\n    async def _run_teardown_callbacks(\n"))
M("c01-generator-batch-drain", "C01", "_context.py", "C01.R1", "generator helper drains the stack batch-wise: callbacks registered during teardown run after the whole batch, not next",
  ("        while self._teardown_callbacks:\n            callback, pass_exception = self._teardown_callbacks.pop()\n",
   "        for callback, pass_exception in self._drain_teardown_callbacks():\n"),
  ("    async def _run_teardown_callbacks(\n", "    def _drain_teardown_callbacks(self):\n        while self._teardown_callbacks:\n            callbacks, self._teardown_callbacks = self._teardown_callbacks, []\n            yield from reversed(callbacks)\n\n    async def _run_teardown_callbacks(\n"))
T("c01-twin-call-and-await-helper", "C01", "_context.py", "call + await-if-awaitable moved into a module-level helper that inspects the RESULT",
  ("                if pass_exception:\n                    retval = cast(Callable[[Optional[BaseException]], Any], callback)(\n                        original_exception\n                    )\n                else:\n                    retval = cast(Callable[[], Any], callback)()\n\n                if isawaitable(retval):\n                    await retval\n",
   "                if pass_exception:\n                    await _call_and_await(callback, original_exception)\n                else:\n                    await _call_and_await(callback)\n"),
  ("class Context:\n", "async def _call_and_await(func: Any, *args: Any) -> Any:\n    retval = func(*args)\n    if isawaitable(retval):\n        retval = await retval\n\n    return retval\n\n\nclass Context:\n"))
T("c01-twin-rename", "C01", "_context.py", "rename locals of the runner",
  ("original_exception", "block_exception"), count=None)

# =============================================================================== C02
M("c02-alias-factories", "C02", "_context.py", "C02.R1", "child shares the parent's factory table",
  ("            self._resource_factories = self._parent._resource_factories.copy()\n", "            self._resource_factories = self._parent._resource_factories\n"))
M("c02-write-parent", "C02", "_context.py", "C02.R2", "add_resource also publishes into the parent",
  ('''        for type_ in types_:
            self._resources[(type_, name)] = container
''', '''        for type_ in types_:
            self._resources[(type_, name)] = container
            if self._parent is not None:
                self._parent._resources.setdefault((type_, name), container)
'''))
M("c02-lookup-walks-up", "C02", "_context.py", ["C02.R3", "C02.R1"], "get_resources also looks into the parent at lookup time",
  ('''        return {
            name: container.value
            for (type_, name), container in self._resources.items()
            if type_ == type
        }
''', '''        found = {
            name: container.value
            for (type_, name), container in self._resources.items()
            if type_ == type
        }
        if self._parent is not None:
            for (type_, name), container in self._parent._resources.items():
                if type_ == type:
                    found.setdefault(name, container.value)

        return found
'''))
M("c02-f10-inverse", "C02", "_context.py", "C02.R3", "inverse of the F10 repair: get_resources selects by the types recorded in the container",
  ('''            name: container.value
            for (type_, name), container in self._resources.items()
            if type_ == type
''', '''            container.name: container.value
            for container in self._resources.values()
            if type in container.types
'''))
M("c02-shortcut-drops-name", "C02", "_context.py", "C02.R4", "module-level get_resource_nowait ignores the name",
  ("    return current_context().get_resource_nowait(type, name, optional=optional)\n", "    return current_context().get_resource_nowait(type, optional=optional)\n"))
M("c02-wrapper-drops-description", "C02", "_component.py", "C02.R4", "ComponentContext.add_resource_factory drops the description",
  ("            factory_callback, name, types=types, description=description\n        )\n        logger.debug(\n            \"%s added a resource factory (%s)\",", "            factory_callback, name, types=types\n        )\n        logger.debug(\n            \"%s added a resource factory (%s)\","))
M("c02-parent-current-first", "C02", "_context.py", "C02.R5", "the current context wins over the explicit parent",
  ("        self._parent = parent or _current_context.get(None)\n", "        self._parent = _current_context.get(None) or parent\n"))
M("c02-no-component-skip", "C02", "_context.py", "C02.R5", "component contexts are not skipped as parents",
  ('''            while isinstance(self._parent, ComponentContext):
                self._parent = self._parent._context

''', ""))
M("c02-inherit-generated", "C02", "_context.py", "C02.R6", "children inherit generated resources",
  ('''            self._resources = {
                key: res
                for key, res in self._parent._resources.items()
                if not res.is_generated
            }''', "            self._resources = self._parent._resources.copy()"))
T("c02-twin-init-helper", "C02", "_context.py", "table inheritance extracted into a helper called from __init__",
  ('''            self._resources = {
                key: res
                for key, res in self._parent._resources.items()
                if not res.is_generated
            }
            self._resource_factories = self._parent._resource_factories.copy()
            self._task_group = self._parent._task_group
        else:
            self._resources = {}
            self._resource_factories = {}
''', '''            self._inherit_tables(self._parent)
            self._task_group = self._parent._task_group
        else:
            self._resources = {}
            self._resource_factories = {}

    def _inherit_tables(self, parent: Context) -> None:
        self._resources = {
            key: res for key, res in parent._resources.items() if not res.is_generated
        }
        self._resource_factories = dict(parent._resource_factories)
'''))
T("c02-twin-dict-copy", "C02", "_context.py", "dict(...) instead of .copy()",
  ("self._parent._resource_factories.copy()", "dict(self._parent._resource_factories)"))

# =============================================================================== C12
M("c12-skip-closed-ancestors", "C12", "_context.py", "C12.R4", "the constructor walks past parents whose teardown has begun: contexts created in teardown callbacks get the wrong parent",
  ("        self._parent = parent or _current_context.get(None)\n", "        self._parent = parent or _current_context.get(None)\n        while self._parent is not None and self._parent.closed:\n            self._parent = self._parent._parent\n"))
M("c12-set-parent-on-exit", "C12", "_context.py", "C12.R2", "on exit the parent is installed instead of resetting the token",
  ("                exit_stack.callback(_current_context.reset, _reset_token)\n", "                exit_stack.callback(_current_context.set, self._parent)\n"))
M("c12-no-restore", "C12", "_context.py", "C12.R2", "the previous context is never restored",
  ("                exit_stack.callback(_current_context.reset, _reset_token)\n", ""))
M("c12-second-set-site", "C12", "_context.py", "C12.R1", "current_context() caches into the variable",
  ('''    ctx = _current_context.get()
    if ctx is None:
        raise NoCurrentContext
''', '''    ctx = _current_context.get()
    if ctx is None:
        raise NoCurrentContext

    _current_context.set(ctx)
'''))
M("c12-restore-before-teardown", "C12", "_context.py", "C12.R3", "variable restored before teardown callbacks run",
  ('''                _reset_token = _current_context.set(self)
                exit_stack.callback(_current_context.reset, _reset_token)

''', '''                _reset_token = _current_context.set(self)

'''),
  ("                exit_stack.push_async_exit(self._run_teardown_callbacks)\n", "                exit_stack.push_async_exit(self._run_teardown_callbacks)\n                exit_stack.callback(_current_context.reset, _reset_token)\n"))
M("c12-task-ctx-implicit-parent", "C12", "_concurrent.py", "C12.R5", "task contexts inherit from whoever is current at spawn",
  ("            async with Context(ctx):\n", "            async with Context():\n"))
M("c12-starter-no-ctx", "C12", "_component.py", "C12.R6", "component phases do not run inside the component context",
  ("    async with context:\n        # Call prepare() on the component itself", "    if True:\n        # Call prepare() on the component itself"))

# =============================================================================== C13
for _op, _old, _new in (
    ("add_resource", "        self._ensure_state(ContextState.open, ContextState.closing)\n        types_: tuple[type, ...]", "        self._ensure_state(ContextState.open)\n        types_: tuple[type, ...]"),
    ("add_resource_factory", "        self._ensure_state(ContextState.open)\n        if not resource_name_re.fullmatch(name):", "        self._ensure_state(ContextState.open, ContextState.closing)\n        if not resource_name_re.fullmatch(name):"),
    ("get_resource_nowait", "        self._ensure_state(ContextState.open, ContextState.closing)\n        key = (type, name)\n\n        # First check if there's already a matching resource in this context\n        resource = self._resources.get(key)", "        self._ensure_state(ContextState.open, ContextState.closing, ContextState.closed)\n        key = (type, name)\n\n        # First check if there's already a matching resource in this context\n        resource = self._resources.get(key)"),
    ("add_teardown_callback", "        self._ensure_state(ContextState.open, ContextState.closing)\n        if not callable(callback):", "        self._ensure_state(ContextState.open)\n        if not callable(callback):"),
    ("aenter", "        self._ensure_state(ContextState.inactive)\n", "        self._ensure_state(ContextState.inactive, ContextState.closed)\n"),
):
    M(f"c13-cell-{_op}", "C13", "_context.py", "C13.R1", f"guard of {_op} allows / rejects another state", (_old, _new))
M("c13-extra-closed-gate", "C13", "_context.py", "C13.R6", "async get_resource refuses to bind a generated resource once `closed` is true (it is true during teardown)",
  ("            if isawaitable(generated_resource):\n                generated_resource = await generated_resource\n",
   "            if isawaitable(generated_resource):\n                generated_resource = await generated_resource\n                if self.closed:\n                    raise RuntimeError(\"this context has already been closed\")\n"))
T("c13-twin-closed-read-no-gate", "C13", "_context.py", "`closed` is read for a log message, not to refuse the call",
  ("            if isawaitable(generated_resource):\n                generated_resource = await generated_resource\n",
   "            if isawaitable(generated_resource):\n                generated_resource = await generated_resource\n                if self.closed:\n                    logger.debug(\"resource generated during teardown\")\n"))
T("c13-twin-clearer-closed-error", "C13", "_context.py", "add_resource_factory reports a fully closed context with its own message before the guard (same exception type, same states)",
  ("        self._ensure_state(ContextState.open)\n", "        if self._state is ContextState.closed:\n            raise RuntimeError(\"cannot add a resource factory: this context has already been closed\")\n\n        self._ensure_state(ContextState.open)\n"))
M("c13-get-resource-unguarded", "C13", "_context.py", "C13.R1", "async get_resource has no guard",
  ("        self._ensure_state(ContextState.open, ContextState.closing)\n\n        # First check if there's already a matching resource in this context\n        key = (type, name)", "        # First check if there's already a matching resource in this context\n        key = (type, name)"))
M("c13-guard-after-effect", "C13", "_context.py", "C13.R1", "add_teardown_callback guards after appending",
  ('''        self._ensure_state(ContextState.open, ContextState.closing)
        if not callable(callback):
            raise TypeError("callback must be a callable")

        self._teardown_callbacks.append((callback, pass_exception))
''', '''        if not callable(callback):
            raise TypeError("callback must be a callable")

        self._teardown_callbacks.append((callback, pass_exception))
        self._ensure_state(ContextState.open, ContextState.closing)
'''))
M("c13-closed-only-closed", "C13", "_context.py", "C13.R3", "`closed` is false during teardown",
  ("        return self._state in (ContextState.closing, ContextState.closed)\n", "        return self._state is ContextState.closed\n"))
M("c13-no-rollback", "C13", "_context.py", "C13.R2", "failed entry leaves the context open",
  ("        except BaseException:\n            self._state = ContextState.inactive\n            raise\n", "        except BaseException:\n            raise\n"), control=False)
M("c13-child-check-dropped", "C13", "_context.py", "C13.R4", "still-open child contexts are ignored",
  ('''        if self._child_contexts:
            raise RuntimeError(
                f"Context stack corruption detected: context {id(self):x} still has "
                f"{len(self._child_contexts)} active child context(s)"
            )

''', ""))
M("c13-guard-returns-early", "C13", "_context.py", "C13.R1", "the guard lets the closing state through for everything",
  ("        if self._state in allowed_states:\n            return\n", "        if self._state in allowed_states or self._state is ContextState.closing:\n            return\n"))
T("c13-twin-closed-or", "C13", "_context.py", "closed written as a disjunction",
  ("        return self._state in (ContextState.closing, ContextState.closed)\n", "        return (\n            self._state is ContextState.closing or self._state is ContextState.closed\n        )\n"))

# =============================================================================== C18
M("c18-dispatch-before-insert", "C18", "_context.py", ["C18.R1", "C18.R2"], "event dispatched before the insertion",
  ('''        container = ResourceContainer(value, types_, name, description)
        for type_ in types_:
            self._resources[(type_, name)] = container

        # Notify listeners that a new resource has been made available
        self.resource_added.dispatch(ResourceEvent(types_, name, description, False))
''', '''        # Notify listeners that a new resource has been made available
        self.resource_added.dispatch(ResourceEvent(types_, name, description, False))
        container = ResourceContainer(value, types_, name, description)
        for type_ in types_:
            self._resources[(type_, name)] = container
'''))
M("c18-dispatch-per-type", "C18", "_context.py", "C18.R1", "one event per type",
  ('''        for type_ in types_:
            self._resources[(type_, name)] = container

        # Notify listeners that a new resource has been made available
        self.resource_added.dispatch(ResourceEvent(types_, name, description, False))
''', '''        for type_ in types_:
            self._resources[(type_, name)] = container
            self.resource_added.dispatch(ResourceEvent((type_,), name, description, False))
'''))
M("c18-dispatch-on-parent", "C18", "_context.py", "C18.R3", "factory registration announced on the parent",
  ('''        self.resource_added.dispatch(
            ResourceEvent(resource_types, name, description, True)
        )
''', '''        (self._parent or self).resource_added.dispatch(
            ResourceEvent(resource_types, name, description, True)
        )
'''))
M("c18-factory-flag", "C18", "_context.py", "C18.R4", "factory registration reported as a plain resource",
  ("            ResourceEvent(resource_types, name, description, True)\n", "            ResourceEvent(resource_types, name, description, False)\n"))
M("c18-generated-flag-true", "C18", "_context.py", ["C18.R4"], "generated resource reported as a factory",
  ("                ResourceEvent(factory.types, name, factory.description, False)\n", "                ResourceEvent(factory.types, name, factory.description, True)\n"), count=2)
M("c18-hit-dispatches", "C18", "_context.py", "C18.R2", "a plain hit dispatches an event again",
  ('''        resource = self._resources.get(key)
        if resource is not None:
            return cast(T_Resource, resource.value)
''', '''        resource = self._resources.get(key)
        if resource is not None:
            self.resource_added.dispatch(
                ResourceEvent(resource.types, name, resource.description, False)
            )
            return cast(T_Resource, resource.value)
'''))
M("c18-wrapper-dispatches", "C18", "_component.py", "C18.R5", "the component wrapper announces the resource a second time",
  ('''        logger.debug(
            "%s added a resource (%s)",''', '''        self.resource_added.dispatch(ResourceEvent((type(value),), name, description, False))
        logger.debug(
            "%s added a resource (%s)",'''),
  ("from ._context import (\n    Context,\n", "from ._context import (\n    Context,\n    ResourceEvent,\n"))
M("c18-event-types-single", "C18", "_context.py", "C18.R4", "event carries only the first type",
  ("        self.resource_added.dispatch(ResourceEvent(types_, name, description, False))\n", "        self.resource_added.dispatch(ResourceEvent(types_[:1], name, description, False))\n"))


# =============================================================================== C05 / C07 / C14 (component startup)
_CHILD_BLOCK = '''            async with coalesce_exceptions(), create_task_group() as tg:
                for alias, child_context in context._child_component_contexts.items():
                    tg.start_soon(
                        _start_component,
                        child_context,
                        name=(
                            f"Starting component {child_context.path} "
                            f"({qualified_name(child_context._component)})"
                        ),
                    )
'''
M("c05-children-sequential", "C05", "_component.py", "C05.R3", "children are awaited one after another",
  (_CHILD_BLOCK, '''            for alias, child_context in context._child_component_contexts.items():
                await _start_component(child_context)
'''))
M("c05-children-started-with-start", "C05", "_component.py", "C05.R3", "children started with tg.start (sequential hand-over)",
  ("                    tg.start_soon(\n                        _start_component,", "                    await tg.start(\n                        _start_component,"), control=False)
M("c05-start-before-children", "C05", "_component.py", "C05.R2", "start() runs before the children",
  ('''        # Start the child components, if there are any
        if context._child_component_contexts:''', '''        # Call start() first
        if component_class.start is not Component.start:
            await component.start()

        # Start the child components, if there are any
        if context._child_component_contexts:'''))
M("c05-checkpoint-in-spawn-loop", "C05", "_component.py", "C05.R3", "a checkpoint between spawning siblings",
  ("                for alias, child_context in context._child_component_contexts.items():\n                    tg.start_soon(", "                for alias, child_context in context._child_component_contexts.items():\n                    await sleep(0)\n                    tg.start_soon("))
M("c05-first-child-only", "C05", "_component.py", "C05.R3", "only the first child is started",
  ("                for alias, child_context in context._child_component_contexts.items():\n                    tg.start_soon(", "                for alias, child_context in list(context._child_component_contexts.items())[:1]:\n                    tg.start_soon("))
M("c05-root-starter-spawned", "C05", "_component.py", "C05.R4", "start_component returns before the root has started",
  ("        await _start_component(root_component_context)\n\n        if tg:\n            tg.cancel_scope.cancel()\n", "        if tg:\n            tg.start_soon(_start_component, root_component_context)\n        else:\n            await _start_component(root_component_context)\n"))
M("c05-prepare-guard-extra", "C05", "_component.py", "C05.R2", "prepare() skipped for components without children",
  ("        if component_class.prepare is not Component.prepare:\n", "        if component_class.prepare is not Component.prepare and context._child_component_contexts:\n"))
M("c05-init-prepares", "C05", "_component.py", "C05.R1", "prepare() is called while the tree is being built",
  ("    # Merge the overrides to the hard-coded configuration\n", "    component.prepare()\n    # Merge the overrides to the hard-coded configuration\n"), control=False)
T("c05-twin-values-loop", "C05", "_component.py", "iterate .values() instead of .items()",
  ("                for alias, child_context in context._child_component_contexts.items():\n", "                for child_context in context._child_component_contexts.values():\n"))

M("c07-swap-phase-literals", "C07", "_component.py", "C07.R1", "prepare failures reported as 'starting'",
  ('                raise ComponentStartError(\n                    "preparing", context.path, component_class\n                ) from exc\n', '                raise ComponentStartError(\n                    "starting", context.path, component_class\n                ) from exc\n'))
M("c07-catch-baseexception", "C07", "_component.py", "C07.R1", "start() wrapper catches BaseException (cancellation wrapped)",
  ('''            try:
                await coro
            except Exception as exc:
                raise ComponentStartError(
                    "starting", context.path, component_class
                ) from exc
''', '''            try:
                await coro
            except BaseException as exc:
                raise ComponentStartError(
                    "starting", context.path, component_class
                ) from exc
'''))
M("c07-no-cause", "C07", "_component.py", "C07.R1", "the original exception is not chained",
  ('        raise ComponentStartError("creating", path, component_class) from exc\n', '        raise ComponentStartError("creating", path, component_class) from None\n'))
M("c07-wrong-path", "C07", "_component.py", "C07.R1", "creating error names the wrong path",
  ('        raise ComponentStartError("creating", path, component_class) from exc\n', '        raise ComponentStartError("creating", "", component_class) from exc\n'))
M("c07-children-no-coalesce", "C07", "_component.py", "C07.R2", "child failures surface as exception groups",
  ("            async with coalesce_exceptions(), create_task_group() as tg:\n", "            async with create_task_group() as tg:\n"))
M("c07-coalesce-inside-tg", "C07", "_component.py", "C07.R2", "coalesce entered inside the task group",
  ("            async with coalesce_exceptions(), create_task_group() as tg:\n", "            async with create_task_group() as tg, coalesce_exceptions():\n"))
M("c07-swallow-child-failure", "C07", "_component.py", "C07.R3", "a failed child does not stop the parent's start()",
  (_CHILD_BLOCK, "            try:\n" + "".join("    " + l + "\n" if l else "\n" for l in _CHILD_BLOCK.rstrip("\n").split("\n")) + "            except ComponentStartError:\n                logger.exception(\"child failed\")\n"))
M("c07-children-on-root-group", "C07", "_component.py", "C07.R4", "children spawned on the long-lived root task group",
  ("                    tg.start_soon(\n                        _start_component,", "                    context._context._task_group.start_soon(\n                        _start_component,"))
M("c07-shielded-service-start", "C07", "_context.py", "C07.R4", "the service-task start handshake is shielded from cancellation: a timeout cannot stop a component stuck in it",
  ("from anyio import (\n    create_task_group,\n)", "from anyio import (\n    CancelScope,\n    create_task_group,\n)"),
  ("        task_handle.start_value = await self._task_group.start(\n            run_background_task, func, self, task_handle, name=task_handle.name\n        )\n        self.add_teardown_callback(finalize_service_task)",
   "        with CancelScope(shield=True):\n            task_handle.start_value = await self._task_group.start(\n                run_background_task, func, self, task_handle, name=task_handle.name\n            )\n\n        self.add_teardown_callback(finalize_service_task)"))
T("c07-twin-shielded-teardown", "C07", "_context.py", "teardown callbacks run in a shielded scope (not on the startup path; C07-neutral)",
  ("from anyio import (\n    create_task_group,\n)", "from anyio import (\n    CancelScope,\n    create_task_group,\n)"),
  ("                if isawaitable(retval):\n                    await retval\n            except BaseException as e:", "                if isawaitable(retval):\n                    with CancelScope(shield=True):\n                        await retval\n            except BaseException as e:"))
M("c07-watchdog-half-timeout", "C07", "_component.py", "C07.R5", "watchdog sleeps for half the timeout",
  ("    await sleep(timeout)\n", "    await sleep(timeout / 2)\n"))
M("c07-watchdog-returns", "C07", "_component.py", "C07.R5", "watchdog logs but does not raise",
  ('    raise TimeoutError("timeout starting component tree")\n', '    return None\n'))
M("c07-cancel-before-start", "C07", "_component.py", "C07.R5", "watchdog cancelled before startup finished",
  ("        await _start_component(root_component_context)\n\n        if tg:\n            tg.cancel_scope.cancel()\n", "        if tg:\n            tg.cancel_scope.cancel()\n\n        await _start_component(root_component_context)\n"))
M("c07-coalesce-nested-any", "C07", "_utils.py", "C07.R2", "coalesce unwraps groups with several members",
  ("        if len(excgrp.exceptions) == 1 and not isinstance(\n            excgrp.exceptions[0], ExceptionGroup\n        ):", "        if not isinstance(\n            excgrp.exceptions[0], ExceptionGroup\n        ):"))

M("c14-swap-merge-args", "C14", "_component.py", "C14.R1", "hard-coded values override external configuration",
  ("    child_components_config = merge_config(\n        component._child_components, child_components_config\n    )\n", "    child_components_config = merge_config(\n        child_components_config, component._child_components\n    )\n"))
M("c14-f4-inverse", "C14", "_component.py", "C14.R3", "child configuration edited in place (pre-fix F4)",
  ('''        else:
            # Work on a copy, so as not to modify the configuration passed by the caller
            child_config = dict(child_config)
''', ""))
M("c14-iterate-hardcoded-only", "C14", "_component.py", "C14.R2", "config-only children are not created",
  ("    for alias, child_config in child_components_config.items():\n", "    for alias, child_config in (component._child_components or {}).items():\n"))
M("c14-remap-in-prepare", "C14", "_component.py", "C14.R4", "default names are remapped during prepare() too",
  ("            context._component_state = ComponentState.preparing\n", "            context._component_state = ComponentState.starting\n"))
M("c14-remap-any-name", "C14", "_component.py", "C14.R4", "explicitly named resources are remapped",
  ('        if name == "default" and self._component_state is ComponentState.starting:\n            name = self._default_resource_name\n\n        self._context.add_resource(', '        if self._component_state is ComponentState.starting:\n            name = self._default_resource_name\n\n        self._context.add_resource('))
M("c14-remap-siblings-disagree", "C14", "_component.py", "C14.R4", "factories are not remapped",
  ('        if name == "default" and self._component_state is ComponentState.starting:\n            name = self._default_resource_name\n\n        self._context.add_resource_factory(', '        self._context.add_resource_factory('))
M("c14-suffix-last-slash", "C14", "_component.py", "C14.R4", "default name taken after the LAST slash",
  ('            child_default_resource_name = alias.split("/", 1)[1]\n', '            child_default_resource_name = alias.rsplit("/", 1)[1]\n'))
M("c14-state-stays-starting", "C14", "_component.py", "C14.R4", "the component never leaves the starting state",
  ("        context._component_state = ComponentState.started\n", "        pass\n"))
M("c14-type-not-defaulted", "C14", "_component.py", "C14.R5", "child type does not default to the alias",
  ('        child_config.setdefault("type", alias)\n', '        child_config.setdefault("type", None)\n'))
M("c14-duplicate-alias-overwrites", "C14", "_component.py", "C14.R6", "a duplicate add_component silently replaces the child",
  ('        elif alias in self._child_components:\n            raise ValueError(f\'there is already a child component named "{alias}"\')\n', ''))
M("c14-resolver-no-reference", "C14", "_utils.py", "C14.R5", "module:attr references are treated as entry point names",
  ('        elif ":" in obj:\n            return resolve_reference(obj)\n', ''))
M("c14-id-ordering", "C14", "_component.py", "C14.R7", "children ordered by id()",
  ("    for alias, child_config in child_components_config.items():\n", "    for alias, child_config in sorted(child_components_config.items(), key=lambda kv: id(kv[1])):\n"), control=False)
T("c14-twin-copy-method", "C14", "_component.py", "copy with {**x}",
  ("            child_config = dict(child_config)\n", "            child_config = {**child_config}\n"))
T("c14-twin-partition", "C14", "_component.py", "alias suffix via partition",
  ('            child_default_resource_name = alias.split("/", 1)[1]\n', '            child_default_resource_name = alias.partition("/")[2]\n'))

# =============================================================================== C06
M("c06-checkpoint-before-subscribe", "C06", "_component.py", "C06.R1", "a checkpoint between the miss and the subscription",
  ("            # Wait until a matching resource or resource factory is available. The event\n", "            await sleep(0)\n            # Wait until a matching resource or resource factory is available. The event\n"),
  ("from anyio import create_task_group, sleep\n", "from anyio import create_task_group, sleep\n"))
M("c06-f7-inverse", "C06", "_component.py", "C06.R7", "bounded wait queue filtered on the consumer side (pre-fix F7)",
  ('''            async with self._context.resource_added.stream_events(
                lambda event: event.resource_name == name
                and type in event.resource_types,
                max_queue_size=sys.maxsize,
            ) as events:
                await events.__anext__()
''', '''            await self._context.resource_added.wait_event(
                lambda event: event.resource_name == name
                and type in event.resource_types,
            )
'''))
M("c06-filter-name-only", "C06", "_component.py", "C06.R3", "the filter ignores the type",
  ("                lambda event: event.resource_name == name\n                and type in event.resource_types,\n", "                lambda event: event.resource_name == name,\n"))
M("c06-filter-or", "C06", "_component.py", "C06.R3", "the filter accepts name OR type",
  ("                lambda event: event.resource_name == name\n                and type in event.resource_types,\n", "                lambda event: event.resource_name == name\n                or type in event.resource_types,\n"))
M("c06-no-relookup", "C06", "_component.py", "C06.R4", "after the wake-up None is returned",
  ("            res = await self._context.get_resource(type, name)\n", "            res = None\n"))
M("c06-optional-waits", "C06", "_component.py", "C06.R5", "optional lookups wait too",
  ("        if optional:\n            return await self._context.get_resource(type, name, optional=True)\n\n        try:", "        try:"))
M("c06-dispatch-before-insert", "C06", "_context.py", "C06.R2", "factory registration announced before it is in the table",
  ('''        resource = ResourceFactory(factory_callback, resource_types, name, description)
        for type_ in resource_types:
            self._resource_factories[(type_, name)] = resource

        # Notify listeners that a new resource has been made available
        self.resource_added.dispatch(
            ResourceEvent(resource_types, name, description, True)
        )
''', '''        # Notify listeners that a new resource has been made available
        self.resource_added.dispatch(
            ResourceEvent(resource_types, name, description, True)
        )
        resource = ResourceFactory(factory_callback, resource_types, name, description)
        for type_ in resource_types:
            self._resource_factories[(type_, name)] = resource
'''))
M("c06-subscribe-after-yield", "C06", "_event.py", "C06.R1", "subscription established lazily after a checkpoint in stream_events",
  ("        for signal in signals:\n            exit_stack.enter_context(signal._subscribe(send))\n", "        await checkpoint()\n        for signal in signals:\n            exit_stack.enter_context(signal._subscribe(send))\n"),
  ("from anyio import BrokenResourceError, WouldBlock, create_memory_object_stream\n", "from anyio import BrokenResourceError, WouldBlock, create_memory_object_stream\nfrom anyio.lowlevel import checkpoint\n"))
T("c06-twin-named-filter", "C06", "_component.py", "filter as a nested function",
  ('''            async with self._context.resource_added.stream_events(
                lambda event: event.resource_name == name
                and type in event.resource_types,
                max_queue_size=sys.maxsize,
            ) as events:''', '''            def matches(event: Any) -> bool:
                return event.resource_name == name and type in event.resource_types

            async with self._context.resource_added.stream_events(
                matches, max_queue_size=sys.maxsize
            ) as events:'''))

# =============================================================================== C08 / C09
M("c08-no-wait", "C08", "_context.py", "C08.R2", "the finalizer does not wait for the task",
  ('            logger.debug("Waiting for service task %r to finish", name)\n            await task_handle.wait_finished()\n', '            logger.debug("Not waiting for service task %r", name)\n'))
M("c08-cancel-none", "C08", "_context.py", "C08.R1", "teardown_action=None cancels the task",
  ('''                        logger.exception(
                            "Error calling teardown callback (%s) for service task %r",
                            teardown_action_name,
                            name,
                        )
''', '''                        logger.exception(
                            "Error calling teardown callback (%s) for service task %r",
                            teardown_action_name,
                            name,
                        )
            else:
                task_handle.cancel()
'''))
M("c08-cancel-after-success", "C08", "_context.py", "C08.R1", "the task is cancelled although the teardown callable succeeded",
  ("                    if isawaitable(retval):\n                        await retval\n                except BaseException as exc:", "                    if isawaitable(retval):\n                        await retval\n\n                    task_handle.cancel()\n                except BaseException as exc:"))
M("c08-register-before-start", "C08", "_context.py", "C08.R3", "finalizer registered before the task was started",
  ('''        task_handle.start_value = await self._task_group.start(
            run_background_task, func, self, task_handle, name=task_handle.name
        )
        self.add_teardown_callback(finalize_service_task)
''', '''        self.add_teardown_callback(finalize_service_task)
        task_handle.start_value = await self._task_group.start(
            run_background_task, func, self, task_handle, name=task_handle.name
        )
'''))
M("c08-finalize-last", "C08", "_context.py", "C08.R3", "finalizer inserted at the bottom of the stack (runs after everything else)",
  ("        self.add_teardown_callback(finalize_service_task)\n", "        self._teardown_callbacks.insert(0, (finalize_service_task, False))\n"))
M("c08-event-set-early", "C08", "_concurrent.py", "C08.R4", "finished event set before the task context is torn down",
  ('''                else:
                    task_status.started()
                    await func()
''', '''                else:
                    task_status.started()
                    await func()

                task_handle._finished_event.set()
'''), control=False)
M("c08-no-finally", "C08", "_concurrent.py", "C08.R4", "finished event not set when the task crashes",
  ("    finally:\n        task_handle._finished_event.set()\n", "\n    task_handle._finished_event.set()\n"))
M("c08-shared-scope", "C08", "_concurrent.py", "C08.R7", "all handles share one cancel scope",
  ("    _cancel_scope: CancelScope = field(\n        init=False, default_factory=CancelScope, repr=False\n    )\n", "    _cancel_scope: CancelScope = field(init=False, default=_SCOPE, repr=False)\n"),
  ('logger = logging.getLogger("asphalt.core")\n', 'logger = logging.getLogger("asphalt.core")\n_SCOPE = CancelScope()\n'))
M("c08-validate-after-spawn", "C08", "_context.py", "C08.R6", "invalid teardown_action detected after the task was spawned",
  ('''        if (
            teardown_action != "cancel"
            and teardown_action is not None
            and not callable(teardown_action)
        ):
            raise ValueError(
                "teardown_action must be a callable, None, or the string 'cancel'"
            )

        task_handle = TaskHandle(f"Service task: {name}")
        task_handle.start_value = await self._task_group.start(
            run_background_task, func, self, task_handle, name=task_handle.name
        )
''', '''        task_handle = TaskHandle(f"Service task: {name}")
        task_handle.start_value = await self._task_group.start(
            run_background_task, func, self, task_handle, name=task_handle.name
        )
        if (
            teardown_action != "cancel"
            and teardown_action is not None
            and not callable(teardown_action)
        ):
            raise ValueError(
                "teardown_action must be a callable, None, or the string 'cancel'"
            )

'''))
M("c09-parent-current", "C09", "_concurrent.py", "C09.R1", "task contexts inherit from the spawner",
  ("                func, self._ctx, task_handle, exception_handler, task_status=task_status\n", "                func, current_context(), task_handle, exception_handler, task_status=task_status\n"),
  ("    async def _run_background_task(\n        self,", "    async def _run_background_task(\n        self,"),
  ('logger = logging.getLogger("asphalt.core")\n', 'logger = logging.getLogger("asphalt.core")\n\n\ndef current_context() -> Any:\n    from ._context import current_context as cc\n\n    return cc()\n'))
M("c09-remove-not-finally", "C09", "_concurrent.py", "C09.R2", "crashed tasks stay in the handle set",
  ('''        try:
            await run_background_task(
                func, self._ctx, task_handle, exception_handler, task_status=task_status
            )
        finally:
            self._tasks.remove(task_handle)
''', '''        await run_background_task(
            func, self._ctx, task_handle, exception_handler, task_status=task_status
        )
        self._tasks.remove(task_handle)
'''))
M("c09-teardown-cancels", "C09", "_context.py", "C09.R4", "tearing down the factory cancels the running tasks",
  ("            teardown_action=factory._finished_event.set,\n", '            teardown_action="cancel",\n'))
M("c09-handler-twice", "C09", "_concurrent.py", "C09.R5", "the handler is consulted twice",
  ("        if exception_handler is not None and exception_handler(exc):\n            return\n", "        if exception_handler is not None and exception_handler(exc):\n            return\n\n        if exception_handler is not None:\n            exception_handler(exc)\n"))
M("c09-handler-falsy-swallows", "C09", "_concurrent.py", "C09.R5", "any handler swallows regardless of its verdict",
  ("        if exception_handler is not None and exception_handler(exc):\n            return\n", "        if exception_handler is not None:\n            exception_handler(exc)\n            return\n"))
M("c09-soon-no-handler", "C09", "_concurrent.py", "C09.R3", "start_task_soon forgets the exception handler",
  ('''        self._task_group.start_soon(
            self._run_background_task,
            func,
            task_handle,
            self.exception_handler,
            name=task_handle.name,
        )''', '''        self._task_group.start_soon(
            self._run_background_task,
            func,
            task_handle,
            name=task_handle.name,
        )'''))
M("c09-live-set-exposed", "C09", "_concurrent.py", "C09.R2", "all_task_handles returns the live set",
  ("        return self._tasks.copy()\n", "        return self._tasks\n"))

# =============================================================================== C10
M("c10-break-on-full", "C10", "_event.py", "C10.R1", "a full queue stops delivery to the remaining subscribers",
  ("                    SignalQueueFull,\n                    stacklevel=2,\n                )\n", "                    SignalQueueFull,\n                    stacklevel=2,\n                )\n                break\n"))
M("c10-no-broken-handler", "C10", "_event.py", "C10.R1", "a finished subscriber makes dispatch raise",
  ("            except BrokenResourceError:\n                pass\n            except WouldBlock:", "            except WouldBlock:"))
M("c10-silent-overflow", "C10", "_event.py", "C10.R1", "overflow is silent",
  ('''            except WouldBlock:
                warn(
                    f"Queue full ({stream.statistics().max_buffer_size}) when trying "
                    f"to send dispatched event to subscriber",
                    SignalQueueFull,
                    stacklevel=2,
                )
''', "            except WouldBlock:\n                pass\n"))
M("c10-topic-not-stamped", "C10", "_event.py", "C10.R2", "topic is not stamped",
  ("        event.topic = self._topic\n", ""))
M("c10-close-before-unsubscribe", "C10", "_event.py", "C10.R4", "streams closed before the subscriptions are removed",
  ('''        exit_stack.enter_context(send)
        exit_stack.enter_context(receive)
        for signal in signals:
            exit_stack.enter_context(signal._subscribe(send))
''', '''        for signal in signals:
            exit_stack.enter_context(signal._subscribe(send))

        exit_stack.enter_context(send)
        exit_stack.enter_context(receive)
'''))
M("c10-first-signal-only", "C10", "_event.py", "C10.R4", "only the first signal is subscribed",
  ("        for signal in signals:\n            exit_stack.enter_context(signal._subscribe(send))\n", "        for signal in signals[:1]:\n            exit_stack.enter_context(signal._subscribe(send))\n"))
M("c10-unfiltered-stream", "C10", "_event.py", "C10.R5", "the raw receive stream is handed out",
  ("        yield filtered_receive\n", "        yield receive\n"))
M("c10-filter-negated", "C10", "_event.py", "C10.R5", "events failing the filter are yielded",
  ("            if filter is None or filter(event):\n", "            if filter is None or not filter(event):\n"))
M("c10-queue-size-ignored", "C10", "_event.py", "C10.R7", "max_queue_size is ignored",
  ("    send, receive = create_memory_object_stream[T_Event](max_queue_size)\n", "    send, receive = create_memory_object_stream[T_Event](50)\n"))
M("c10-wait-event-no-filter", "C10", "_event.py", "C10.R6", "wait_event drops the filter",
  ("    async with stream_events(signals, filter) as stream:\n", "    async with stream_events(signals) as stream:\n"))
T("c10-twin-iterate-live-list", "C10", "_event.py", "iterate the live list (dispatch is synchronous: nobody can unsubscribe meanwhile)",
  ("        for stream in list(self._send_streams):\n", "        for stream in self._send_streams:\n"))

# =============================================================================== C15 / C16 / C19
M("c15-return-outside-context", "C15", "_runner.py", "C15.R1", "CLI run() awaited after the root context was closed",
  ('''            if isinstance(component, CLIApplicationComponent):
                exit_code = await component.run()''', '''        if True:
            if isinstance(component, CLIApplicationComponent):
                exit_code = await component.run()'''), control=False)
M("c15-out-of-range-zero", "C15", "_runner.py", "C15.R2", "out-of-range exit codes give 0",
  ('                        warn(f"exit code out of range: {exit_code}")\n                        return 1\n', '                        warn(f"exit code out of range: {exit_code}")\n                        return 0\n'))
M("c15-range-255", "C15", "_runner.py", "C15.R2", "accepted range widened to 255",
  ("                    if 0 <= exit_code <= 127:\n", "                    if 0 <= exit_code <= 255:\n"))
M("c15-startup-failure-propagates", "C15", "_runner.py", "C15.R2", "startup failures are re-raised instead of exit status 1",
  ('                except BaseException:\n                    logger.exception("Error during application startup")\n                    return 1\n', '                except BaseException:\n                    logger.exception("Error during application startup")\n                    raise\n'))
M("c15-run-exception-swallowed", "C15", "_runner.py", "C15.R2", "a crash in run() is turned into status 1",
  ("                exit_code = await component.run()\n", "                try:\n                    exit_code = await component.run()\n                except Exception:\n                    return 1\n"))
M("c15-always-exit", "C15", "_runner.py", "C15.R3", "sys.exit even for status 0",
  ("    if exit_code := anyio.run(", "    if (exit_code := anyio.run("),
  ("        backend_options=backend_options,\n    ):\n        sys.exit(exit_code)\n", "        backend_options=backend_options,\n    )) is not None:\n        sys.exit(exit_code)\n"))
M("c15-wait-inside-startup-scope", "C15", "_runner.py", "C15.R4", "the whole application runs inside the startup cancel scope",
  ('''            logger.info("Application started")

            if isinstance(component, CLIApplicationComponent):
                exit_code = await component.run()
                if isinstance(exit_code, int):
                    if 0 <= exit_code <= 127:
                        return exit_code
                    else:
                        warn(f"exit code out of range: {exit_code}")
                        return 1
                elif exit_code is not None:
                    warn(
                        f"run() must return an integer or None, not "
                        f"{qualified_name(exit_code.__class__)}"
                    )
                    return 1
            else:
                await event.wait()
''', '''                logger.info("Application started")

                if isinstance(component, CLIApplicationComponent):
                    exit_code = await component.run()
                    if isinstance(exit_code, int):
                        if 0 <= exit_code <= 127:
                            return exit_code
                        else:
                            warn(f"exit code out of range: {exit_code}")
                            return 1
                    elif exit_code is not None:
                        warn(
                            f"run() must return an integer or None, not "
                            f"{qualified_name(exit_code.__class__)}"
                        )
                        return 1
                else:
                    await event.wait()
'''))
M("c15-handler-no-event", "C15", "_runner.py", "C15.R4", "the signal handler forgets to set the shutdown event",
  ("            startup_scope.cancel()\n            event.set()\n", "            startup_scope.cancel()\n"))

M("c16-swap-file-merge", "C16", "_cli.py", "C16.R2", "earlier files override later ones",
  ("        config = merge_config(config, config_data)\n", "        config = merge_config(config_data, config)\n"))
M("c16-swap-service-merge", "C16", "_cli.py", "C16.R2", "top-level keys override the service section",
  ("    config = merge_config(config, service_config)\n", "    config = merge_config(service_config, config)\n"))
M("c16-env-over-option", "C16", "_cli.py", "C16.R4", "ASPHALT_SERVICE overrides --service",
  ('    service = service or os.getenv("ASPHALT_SERVICE")\n', '    service = os.getenv("ASPHALT_SERVICE") or service\n'))
M("c16-split-every-dot", "C16", "_cli.py", "C16.R3", "escaped dots are split too",
  ('re.split(r"(?<!\\\\)\\.", key)', 're.split(r"\\.", key)'))
M("c16-split-last-equals", "C16", "_cli.py", "C16.R3", "value split at the last '='",
  ('        key, value = override.split("=", 1)\n', '        key, value = override.rsplit("=", 1)\n'))
M("c16-set-before-files", "C16", "_cli.py", "C16.R1", "--set overrides are applied before the files are merged",
  ('''    config: dict[str, Any] = {}
    for path in configfile:
        config_data = yaml.load(path, AsphaltLoader)
        assert isinstance(
            config_data, dict
        ), "the document root element must be a dictionary"
        config = merge_config(config, config_data)

''', '''    config: dict[str, Any] = {}
'''),
  ('''    services = config.pop("services", {})
''', '''    for path in configfile:
        config_data = yaml.load(path, AsphaltLoader)
        assert isinstance(
            config_data, dict
        ), "the document root element must be a dictionary"
        config = merge_config(config, config_data)

    services = config.pop("services", {})
'''))
M("c16-default-before-single", "C16", "_cli.py", "C16.R4", "ladder rows reordered",
  ('''    elif len(services) == 1:
        service_config = next(iter(services.values()))
    elif "default" in services:
        service_config = services["default"]
''', '''    elif "default" in services:
        service_config = services["default"]
    elif len(services) == 1:
        service_config = next(iter(services.values()))
'''), control=False)
M("c16-legacy-overrides-default", "C16", "_cli.py", "C16.R5", "legacy component key replaces an explicit default service",
  ('        services.setdefault("default", dict(component=component))\n', '        services["default"] = dict(component=component)\n'))
M("c16-textfile-bytes", "C16", "_cli.py", "C16.R6", "!TextFile returns bytes",
  ("    return Path(node.value).read_text()\n", "    return Path(node.value).read_bytes()  # type: ignore[return-value]\n"))
M("c16-set-plain-loader", "C16", "_cli.py", "C16.R6", "--set values parsed without the custom tags",
  ("        parsed_value = yaml.load(value, AsphaltLoader)\n", "        parsed_value = yaml.load(value, Loader)\n"))

M("c19-sync-in-async", "C19", "_context.py", "C19.R1", "async resolver uses the sync lookup",
  ('''                resources[argname] = await ctx.get_resource(
                    dependency.cls, dependency.name
                )
''', '''                resources[argname] = ctx.get_resource_nowait(
                    dependency.cls, dependency.name
                )
'''))
M("c19-context-at-decoration", "C19", "_context.py", "C19.R1", "current context captured when the decorator is applied",
  ('''        ctx = current_context()
        resources: dict[str, Any] = {}
        for argname, dependency in injected_resources.items():
            if dependency.optional:
                resources[argname] = ctx.get_resource_nowait(''', '''        ctx = decoration_ctx
        resources: dict[str, Any] = {}
        for argname, dependency in injected_resources.items():
            if dependency.optional:
                resources[argname] = ctx.get_resource_nowait('''),
  ("    forward_refs_resolved = False\n", "    forward_refs_resolved = False\n    decoration_ctx = _current_context.get(None)\n"))
M("c19-name-ignored", "C19", "_context.py", "C19.R1", "the marker's name is ignored for optional parameters",
  ('''                resources[argname] = ctx.get_resource_nowait(
                    dependency.cls, dependency.name, optional=True
                )''', '''                resources[argname] = ctx.get_resource_nowait(
                    dependency.cls, optional=True
                )'''))
M("c19-wrapper-swapped", "C19", "_context.py", "C19.R2", "coroutine functions get the sync wrapper",
  ("        if iscoroutinefunction(func):\n            return async_wrapper\n        else:\n            return sync_wrapper\n", "        if not iscoroutinefunction(func):\n            return async_wrapper\n        else:\n            return sync_wrapper\n"))
M("c19-kwargs-dropped", "C19", "_context.py", "C19.R2", "keyword arguments are dropped by the sync wrapper",
  ("        return func(*args, **kwargs, **resolve_resources())\n", "        return func(*args, **resolve_resources())\n"))
M("c19-posonly-accepted", "C19", "_context.py", "C19.R3", "positional-only markers are accepted",
  ('''            if param.kind is Parameter.POSITIONAL_ONLY:
                raise TypeError(
                    f"Cannot inject dependency to positional-only parameter "
                    f"{param.name!r}"
                )

''', ""))
M("c19-default-name", "C19", "_context.py", "C19.R5", "resource() ignores its name",
  ("    return _Dependency(name)\n", "    return _Dependency()\n"))
M("c19-union-any-member", "C19", "_context.py", "C19.R4", "multi-member unions take their first member",
  ('''                if len(args) == 1:
                    dependency.optional = True
                    dependency.cls = args[0]
                else:
                    raise TypeError(
                        "Unions are only valid with dependency injection when there "
                        "are exactly two items and other item is None"
                    )
''', '''                dependency.optional = True
                dependency.cls = args[0]
'''))


# =============================================================================== broken variants of accepted evolutions
M("c05-idle-skip-ignores-start", "C05", "_component.py", "C05.R3", "fast path skips children that have a start() of their own (the `start is Component.start` conjunct is dropped)",
  ("        and component_class.prepare is Component.prepare\n        and component_class.start is Component.start\n", "        and component_class.prepare is Component.prepare\n"),
  base="C05-e3", control=False)
M("c05-idle-skip-ignores-children", "C05", "_component.py", "C05.R3", "fast path skips children that have children of their own",
  ("        not context._child_component_contexts\n        and component_class.prepare", "        component_class.prepare"),
  base="C05-e3", control=False)
M("c04-generated-flag-cleared", "C04", "_context.py", "C04.R2", "the 'has generated resources' flag is cleared by add_resource: the unfiltered snapshot fast path inherits generated resources",
  ("        container = ResourceContainer(value, types_, name, description)\n", "        container = ResourceContainer(value, types_, name, description)\n        self._has_generated_resources = False\n"),
  base="C02-e1", control=False)
M("c13-extra-gate-wrong-state", "C13", "_context.py", "C13.R6", "an extra 'clearer error' gate in add_teardown_callback that also fires while the context is closing",
  ("        self._ensure_state(ContextState.open, ContextState.closing)\n        if not callable(callback)", "        if self.closed:\n            raise RuntimeError(\"cannot add a teardown callback to a closed context\")\n\n        self._ensure_state(ContextState.open, ContextState.closing)\n        if not callable(callback)"), control=False)
M("c11-owner-remembered-by-helper", "C11", "_event.py", "C11.R6", "__get__ hands the owner to a helper that keeps it in a module-level list",
  ("    def __get__(self, instance: Hashable, owner: Any) -> Signal[T_Event]:\n        if instance is None:\n            return self\n", "    def __get__(self, instance: Hashable, owner: Any) -> Signal[T_Event]:\n        if instance is None:\n            return self\n\n        remember_owner(instance)\n"),
  ("@dataclass\nclass Signal(Generic[T_Event]):", "_seen_owners: list = []\n\n\ndef remember_owner(obj: object) -> None:\n    _seen_owners.append(obj)\n\n\n@dataclass\nclass Signal(Generic[T_Event]):"), control=False)


# =============================================================================== equivalent edits found by the mutation sweep (must stay silent)
T("c19-twin-sweep-ctx-before-resolve", "C19", "_context.py", "sync resolver fetches the current context before resolving forward references (independent statements swapped in one sibling only)",
  ("    def resolve_resources() -> dict[str, Any]:\n        if not forward_refs_resolved:\n            resolve_forward_refs()\n\n        ctx = current_context()\n",
   "    def resolve_resources() -> dict[str, Any]:\n        ctx = current_context()\n        if not forward_refs_resolved:\n            resolve_forward_refs()\n\n"))
T("c10-twin-sweep-stamp-time-after-delivery", "C10", "_event.py", "event.time stamped after the (synchronous) delivery loop",
  ("        event.topic = self._topic\n        event.time = stdlib_time()\n\n        for stream in list(self._send_streams):", "        event.topic = self._topic\n\n        for stream in list(self._send_streams):"),
  ("                    stacklevel=2,\n                )\n", "                    stacklevel=2,\n                )\n\n        event.time = stdlib_time()\n"))
T("c10-twin-sweep-receive-after-subscriptions", "C10", "_event.py", "the receive end is entered on the exit stack after the subscriptions (closed before they are removed: dispatch swallows BrokenResourceError)",
  ("        exit_stack.enter_context(receive)\n        for signal in signals:\n            exit_stack.enter_context(signal._subscribe(send))\n", "        for signal in signals:\n            exit_stack.enter_context(signal._subscribe(send))\n\n        exit_stack.enter_context(receive)\n"))
T("c15-twin-sweep-return-none", "C15", "_runner.py", "clean shutdown returns None instead of 0 (same under run_application's truthiness conversion)",
  ("                await event.wait()\n\n        return 0\n", "                await event.wait()\n\n        return None\n"))
T("c01-twin-sweep-exceptions-front", "C01", "_context.py", "callback exceptions are collected at the front of the list (order inside the group is unspecified)",
  ("                exceptions.append(e)\n", "                exceptions.insert(0, e)\n"))
T("c09-twin-sweep-add-after-start-soon", "C09", "_concurrent.py", "the handle is added to the live set right after the synchronous start_soon (no checkpoint in between)",
  ("        self._tasks.add(task_handle)\n        self._task_group.start_soon(\n            self._run_background_task,\n            func,\n            task_handle,\n            self.exception_handler,\n            name=task_handle.name,\n        )\n        return task_handle\n",
   "        self._task_group.start_soon(\n            self._run_background_task,\n            func,\n            task_handle,\n            self.exception_handler,\n            name=task_handle.name,\n        )\n        self._tasks.add(task_handle)\n        return task_handle\n"))


# =============================================================================== F9 (C08)
M("c08-f9-inverse", "C08", "_utils.py", "C08.R2", "callable_name() reads __qualname__ of callable objects again (pre-fix F9): the finalizer raises before it stopped the task",
  ("    if not hasattr(func, \"__qualname__\"):\n        func = type(func)\n\n", ""), control=False)


# =============================================================================== broken variants of accepted module-level refactorings
# (the pre-passes that made the refactorings silent must not hide a defect written in the same shape)
M("c04-lookup-record-factory-first", "C04", "_context.py", ["C04.R5", "C04.R1", "C04.R3"], "the shared lookup helper (returns a `_ResourceLookup` record) asks the factory table before the resource table: a generated resource is generated again on every lookup",
  ("        container = self._resources.get(key)\n        if container is not None:\n            return _ResourceLookup(container, None)\n\n        # Next, check if there's a resource factory for this type\n        if key in self._resource_factories:\n            return _ResourceLookup(None, self._resource_factories[key])\n",
   "        if key in self._resource_factories:\n            return _ResourceLookup(None, self._resource_factories[key])\n\n        container = self._resources.get(key)\n        if container is not None:\n            return _ResourceLookup(container, None)\n"),
  base="NN4-y2", control=False)
M("c04-lookup-record-optional-inverted", "C02", "_context.py", ["C02.R3", "C04.R1", "C04.R3"], "the miss helper `_check_optional` raises for optional lookups and returns None for mandatory ones",
  ("        if not optional:\n            raise ResourceNotFound(type, name)\n", "        if optional:\n            raise ResourceNotFound(type, name)\n"),
  base="NN4-y2", control=False)
M("c18-lookup-record-hit-by-value", "C18", "_context.py", "C18.R2", "the lookup helper treats an entry whose value is None as a miss",
  ("        if container is not None:\n            return _ResourceLookup(container, None)\n", "        if container is not None and container.value is not None:\n            return _ResourceLookup(container, None)\n"),
  base="NN4-y2", control=False)
M("c03-key-list-wrong-table", "C03", "_context.py", "C03.R2", "add_resource looks for conflicts in the factory table (search helper over a pre-computed key list)",
  ("        if (conflict := _first_registered(self._resources, keys)) is not None:", "        if (conflict := _first_registered(self._factories, keys)) is not None:"),
  base="NN3-y3", control=False)
M("c03-key-list-register-before-callback", "C03", "_context.py", "C03.R1", "the `_register` helper runs before the teardown callback is validated: a failing add leaves the resource behind",
  ("        if teardown_callback is not None:\n            self.add_teardown_callback(teardown_callback)\n\n        container = ResourceContainer(\n            value=value, types=resource_types, name=name, description=description\n        )\n        _register(self._resources, keys, container)\n",
   "        container = ResourceContainer(\n            value=value, types=resource_types, name=name, description=description\n        )\n        _register(self._resources, keys, container)\n        if teardown_callback is not None:\n            self.add_teardown_callback(teardown_callback)\n"),
  base="NN3-y3", control=False)
M("c08-service-record-no-wait", "C08", "_context.py", "C08.R2", "the `_ServiceTask.finalize` method no longer waits for the task",
  ("        await self.handle.wait_finished()\n", "        pass\n"),
  base="NN5-y2", control=False)
M("c19-options-helper-always-optional", "C19", "_context.py", "C19.R1", "the shared `lookup_options` closure returns optional=True for every parameter",
  ("        return {\"optional\": True} if dependency.optional else {}\n", "        return {\"optional\": True} if dependency.cls else {}\n"),
  base="NN6-y3", control=False)
M("c14-child-spec-default-name-lost", "C14", "_component.py", "C14.R4", "`_make_child_spec` returns the default resource name 'default' on both branches",
  ("        return _ChildSpec(child_path, child_config, alias.split(\"/\", 1)[1])\n", "        return _ChildSpec(child_path, child_config, \"default\")\n"),
  base="NN8-y2", control=False)
M("c06-stream-helper-ignores-type", "C06", "_component.py", "C06.R3", "the extracted stream helper filters by name only",
  ("            return event.resource_name == name and type in event.resource_types\n", "            return event.resource_name == name\n"),
  base="NN7-y2", control=False)
M("c06-stream-helper-bounded", "C06", "_component.py", ["C06.R2", "C06.R3", "C06.R7"], "the extracted stream helper uses the default (bounded) queue",
  ("            is_match, max_queue_size=_UNBOUNDED_QUEUE_SIZE\n", "            is_match\n"),
  base="NN7-y2", control=False)
M("c17-accumulator-worker-no-copy", "C17", "_utils.py", ["C17.R1", "C17.R2", "C17.R3"], "the in-place worker recurses into the original's nested dict instead of a copy of it",
  ("            nested = _copy_config(current)\n", "            nested = current\n"),
  base="PP1-z3", control=False)
M("c15-merged-handler-quiet-errors", "C15", "_runner.py", "C15.R2", "the merged startup handler skips the log line for every ordinary exception",
  ("                    if not isinstance(exc, (get_cancelled_exc_class(), TimeoutError)):\n", "                    if not isinstance(exc, Exception):\n"),
  base="PP8-z3", control=False)
M("c04-inherited-state-keeps-generated", "C04", "_context.py", "C04.R2", "the `_collect_inherited_state` helper hands generated resources down",
  ("            key: res for key, res in parent._resources.items() if not res.is_generated\n", "            key: res for key, res in parent._resources.items()\n"),
  base="PP3-z2", control=False)
