"""
Behaviour checks for refactoring 1 (_runner.py: logging helper, signal constant,
renamed shutdown event, walrus removed).  Only public API is used
(``run_application``); the patches target names that exist in the module before and
after the refactoring (the same ones the project's own tests patch).
"""

from __future__ import annotations

import logging
import platform
import signal
from typing import Any
from unittest.mock import patch

import pytest
from anyio import sleep, wait_all_tasks_blocked

from asphalt.core import (
    CLIApplicationComponent,
    Component,
    add_teardown_callback,
    run_application,
    start_service_task,
)

posix_only = pytest.mark.skipif(
    platform.system() == "Windows", reason="Signals don't work on Windows"
)


class ExitCodeApp(CLIApplicationComponent):
    def __init__(self, exit_code: Any = None):
        super().__init__()
        self.exit_code = exit_code

    async def run(self) -> Any:
        return self.exit_code


class SignalLater(Component):
    """Sends the given signal to the process once the application is running."""

    def __init__(self, signum: int, events: list[str]):
        self.signum = signum
        self.events = events

    async def terminator(self) -> None:
        await wait_all_tasks_blocked()
        self.events.append("raising")
        signal.raise_signal(self.signum)

    async def start(self) -> None:
        add_teardown_callback(lambda: self.events.append("teardown"))
        await start_service_task(self.terminator, "terminator")


class SignalDuringStart(Component):
    def __init__(self, signum: int):
        self.signum = signum

    async def start(self) -> None:
        signal.raise_signal(self.signum)
        await sleep(3)


class FailingStart(Component):
    async def start(self) -> None:
        raise RuntimeError("boom at startup")


@pytest.mark.parametrize(
    "config, basic_calls, dict_calls",
    [
        pytest.param(None, [], [], id="none"),
        pytest.param(logging.DEBUG, [{"level": logging.DEBUG}], [], id="level"),
        pytest.param(True, [{"level": True}], [], id="bool-is-int"),
        pytest.param(0, [{"level": 0}], [], id="zero"),
        pytest.param({"version": 1}, [], [({"version": 1},)], id="dict"),
        pytest.param({}, [], [({},)], id="empty-dict"),
        pytest.param("INFO", [], [], id="string-ignored"),
    ],
)
def test_logging_setup(config: Any, basic_calls: list, dict_calls: list) -> None:
    with patch("asphalt.core._runner.basicConfig") as basic, patch(
        "asphalt.core._runner.dictConfig"
    ) as dict_:
        run_application(ExitCodeApp, logging=config)

    assert [c.kwargs for c in basic.call_args_list] == basic_calls
    assert [c.args for c in basic.call_args_list] == [() for _ in basic_calls]
    assert [c.args for c in dict_.call_args_list] == dict_calls


def test_logging_configured_before_anything_is_logged_or_run() -> None:
    order: list[str] = []
    real_run = __import__("anyio").run

    def fake_basic(**kwargs: Any) -> None:
        order.append(f"basicConfig{kwargs}")

    class Handler(logging.Handler):
        def emit(self, record: logging.LogRecord) -> None:
            order.append(record.getMessage())

    def run_spy(*args: Any, **kwargs: Any) -> Any:
        order.append("anyio.run")
        return real_run(*args, **kwargs)

    handler = Handler(level=logging.INFO)
    core_logger = logging.getLogger("asphalt.core")
    old_level = core_logger.level
    core_logger.addHandler(handler)
    core_logger.setLevel(logging.INFO)
    try:
        with patch("asphalt.core._runner.basicConfig", fake_basic), patch(
            "asphalt.core._runner.anyio.run", run_spy
        ):
            run_application(ExitCodeApp, logging=logging.WARNING)
    finally:
        core_logger.removeHandler(handler)
        core_logger.setLevel(old_level)

    assert order == [
        f"basicConfig{{'level': {logging.WARNING}}}",
        "Running in development mode",
        "anyio.run",
        "Starting application",
        "Application started",
        "Application stopped",
    ]


def test_logging_setup_error_propagates_before_start() -> None:
    started = []

    class Marker(ExitCodeApp):
        async def start(self) -> None:
            started.append(True)

    with pytest.raises(ValueError):
        # dictConfig() rejects a configuration without a valid version
        run_application(Marker, logging={"version": 99})

    assert not started


@pytest.mark.parametrize("exit_code", [None, 0, False])
def test_falsy_exit_codes_return_normally(exit_code: Any) -> None:
    assert run_application(ExitCodeApp, {"exit_code": exit_code}, logging=None) is None


@pytest.mark.parametrize("exit_code, expected", [(1, 1), (20, 20), (127, 127)])
def test_nonzero_exit_codes_exit(exit_code: int, expected: int) -> None:
    with pytest.raises(SystemExit) as exc:
        run_application(ExitCodeApp, {"exit_code": exit_code}, logging=None)

    assert exc.value.code == expected
    assert type(exc.value.code) is int


def test_true_exit_code_is_passed_through() -> None:
    with pytest.raises(SystemExit) as exc:
        run_application(ExitCodeApp, {"exit_code": True}, logging=None)

    assert exc.value.code is True


@pytest.mark.parametrize("exit_code", [-1, 128, 4096])
def test_out_of_range_exit_code(exit_code: int) -> None:
    with pytest.raises(SystemExit) as exc, pytest.warns(
        UserWarning, match=f"exit code out of range: {exit_code}$"
    ):
        run_application(ExitCodeApp, {"exit_code": exit_code}, logging=None)

    assert exc.value.code == 1


def test_bad_exit_code_type() -> None:
    with pytest.raises(SystemExit) as exc, pytest.warns(
        UserWarning, match=r"run\(\) must return an integer or None, not str$"
    ):
        run_application(ExitCodeApp, {"exit_code": "oops"}, logging=None)

    assert exc.value.code == 1


@posix_only
@pytest.mark.parametrize("signum", [signal.SIGTERM, signal.SIGINT])
def test_signal_stops_running_application(
    signum: int, caplog: pytest.LogCaptureFixture
) -> None:
    caplog.set_level(logging.INFO, "asphalt.core")
    events: list[str] = []
    run_application(SignalLater, {"signum": signum, "events": events}, logging=None)
    assert events == ["raising", "teardown"]
    name = (signal.strsignal(signum) or "").split(":", 1)[0]
    assert [r.getMessage() for r in caplog.records if r.name == "asphalt.core"] == [
        "Running in development mode",
        "Starting application",
        "Application started",
        f"Received signal ({name}) – terminating application",
        "Application stopped",
    ]


@posix_only
@pytest.mark.parametrize("signum", [signal.SIGTERM, signal.SIGINT])
def test_signal_during_startup_exits_with_1(
    signum: int, caplog: pytest.LogCaptureFixture
) -> None:
    caplog.set_level(logging.INFO, "asphalt.core")
    with pytest.raises(SystemExit) as exc:
        run_application(SignalDuringStart, {"signum": signum}, logging=None)

    assert exc.value.code == 1
    messages = [r.getMessage() for r in caplog.records if r.name == "asphalt.core"]
    assert "Application started" not in messages
    assert "Error during application startup" not in messages
    assert messages[-1] == "Application stopped"
    assert any(m.startswith("Received signal (") for m in messages)


def test_start_error_exits_with_1(caplog: pytest.LogCaptureFixture) -> None:
    caplog.set_level(logging.INFO, "asphalt.core")
    with pytest.raises(SystemExit) as exc:
        run_application(FailingStart, logging=None)

    assert exc.value.code == 1
    records = [r for r in caplog.records if r.name == "asphalt.core"]
    assert [r.getMessage() for r in records] == [
        "Running in development mode",
        "Starting application",
        "Error during application startup",
        "Application stopped",
    ]
    assert records[2].levelno == logging.ERROR
    assert records[2].exc_info is not None
    error = records[2].exc_info[1]
    assert type(error).__name__ == "ComponentStartError"
    assert isinstance(error.__cause__, RuntimeError)
    assert "boom at startup" in str(error)


def test_backend_options_and_unknown_backend() -> None:
    run_application(
        ExitCodeApp, logging=None, backend_options={"debug": False}, backend="asyncio"
    )
    with pytest.raises(LookupError):
        run_application(ExitCodeApp, logging=None, backend="no-such-backend")
