"""Behaviour checks for refactoring 3 (context_teardown helpers, generated resources)."""

from __future__ import annotations

import sys
import itertools
from contextlib import asynccontextmanager
from typing import Any, AsyncIterator, List, Optional, Union

import anyio
import pytest
from anyio import fail_after

from asphalt.core import (
    AsyncResourceError,
    Context,
    NoCurrentContext,
    ResourceEvent,
    context_teardown,
    current_context,
)

if sys.version_info < (3, 11):
    from exceptiongroup import BaseExceptionGroup

pytestmark = pytest.mark.anyio


class Marker:
    pass


_marker_counter = itertools.count()


@asynccontextmanager
async def recording(ctx: Context) -> AsyncIterator[Any]:
    async with ctx.resource_added.stream_events() as stream:
        async def drain() -> List[ResourceEvent]:
            marker_name = f"marker{next(_marker_counter)}"
            ctx.add_resource(Marker(), marker_name)
            events: List[ResourceEvent] = []
            with fail_after(3):
                async for event in stream:
                    if event.resource_name == marker_name:
                        return events
                    events.append(event)
            raise AssertionError("unreachable")

        yield drain


@pytest.fixture
def anyio_backend() -> str:
    return "asyncio"


async def test_teardown_order_and_exception_passing() -> None:
    log: List[Any] = []

    @context_teardown
    async def first(tag: str, *, extra: int = 0) -> Any:
        log.append(("start", tag, extra, current_context()))
        exc = yield
        log.append(("stop", tag, exc))

    @context_teardown
    async def second() -> Any:
        log.append("second start")
        exc = yield
        await anyio.sleep(0)
        log.append(("second stop", exc))

    assert first.__name__ == "first"
    assert first.__wrapped__.__name__ == "first"  # type: ignore[attr-defined]

    async with Context() as ctx:
        assert await first("a", extra=3) is None
        ctx.add_teardown_callback(lambda: log.append("plain"))
        assert await second() is None
        assert log == [("start", "a", 3, ctx), "second start"]
        del log[:]

    assert log == [("second stop", None), "plain", ("stop", "a", None)]

    del log[:]
    error = RuntimeError("boom")
    with pytest.raises(RuntimeError) as exc_info:
        async with Context():
            await first("b")
            del log[:]
            raise error

    assert exc_info.value is error
    assert log == [("stop", "b", error)]


async def test_generator_finishing_without_yield_and_errors_on_start() -> None:
    log: List[Any] = []

    @context_teardown
    async def no_yield(flag: bool) -> Any:
        log.append("ran")
        if flag:
            yield

    @context_teardown
    async def fails_on_start() -> Any:
        try:
            raise ValueError("start failed")
            yield
        finally:
            log.append("cleanup")

    @context_teardown
    async def never_called() -> Any:
        log.append("must not run")
        yield

    with pytest.raises(NoCurrentContext):
        await never_called()
    assert log == []

    async with Context() as ctx:
        await no_yield(False)
        assert log == ["ran"]
        with pytest.raises(ValueError, match="start failed"):
            await fails_on_start()
        assert log == ["ran", "cleanup"]
        del log[:]
        # only callbacks of generators that actually yielded are run
        ctx.add_teardown_callback(lambda: log.append("only one"))

    assert log == ["only one"]

    # closed context: the generator is started, then registering fails
    with pytest.raises(RuntimeError, match="has not been entered yet"):
        Context().add_teardown_callback(lambda: None)


async def test_teardown_phase_errors() -> None:
    log: List[Any] = []

    @context_teardown
    async def raises_at_teardown() -> Any:
        try:
            yield
            raise KeyError("teardown failed")
        finally:
            log.append("finally")

    @context_teardown
    async def yields_twice() -> Any:
        yield
        log.append("between")
        try:
            yield
        finally:
            log.append("closed by aclose")

    @context_teardown
    async def swallows() -> Any:
        exc = yield
        log.append(type(exc))

    with pytest.raises(BaseExceptionGroup) as exc_info:
        async with Context():
            await swallows()
            await raises_at_teardown()
            await yields_twice()

    def leaves(exc: BaseException, messages: List[str]) -> List[BaseException]:
        if isinstance(exc, BaseExceptionGroup):
            messages.append(exc.message)
            return [leaf for sub in exc.exceptions for leaf in leaves(sub, messages)]
        return [exc]

    messages: List[str] = []
    leaf_exceptions = leaves(exc_info.value, messages)
    assert "Exceptions were raised during context teardown" in messages
    assert len(leaf_exceptions) == 1
    assert isinstance(leaf_exceptions[0], KeyError)
    assert leaf_exceptions[0].args == ("teardown failed",)
    assert log == ["between", "closed by aclose", "finally", type(None)]


async def test_bad_decorator_targets() -> None:
    async def coro_func() -> None:
        pass

    def plain() -> None:
        pass

    for target in (coro_func, plain):
        with pytest.raises(TypeError) as exc_info:
            context_teardown(target)  # type: ignore[arg-type]
        assert str(exc_info.value).endswith("must be an async generator function")
        assert target.__qualname__ in str(exc_info.value)


async def test_cancellation_while_starting() -> None:
    log: List[Any] = []

    @context_teardown
    async def slow_start() -> Any:
        try:
            await anyio.sleep(10)
            yield
        finally:
            log.append("finalized")

    async with Context() as ctx:
        with anyio.move_on_after(0.05) as scope:
            await slow_start()
        assert scope.cancelled_caught
        assert log == ["finalized"]
        ctx.add_teardown_callback(lambda: log.append("td"))

    assert log == ["finalized", "td"]


async def test_method_and_nested_contexts() -> None:
    log: List[Any] = []

    class Service:
        @context_teardown
        async def start(self, name: str) -> Any:
            ctx = current_context()
            ctx.add_resource(self, name, teardown_callback=lambda: log.append("res"))
            exc = yield
            log.append((name, exc, current_context() is ctx))

    service = Service()
    async with Context() as outer:
        await service.start("outer")
        async with Context() as inner:
            await service.start("inner")
            assert inner.get_resource_nowait(Service, "inner") is service
        assert log == [("inner", None, True), "res"]
        assert outer.get_resource_nowait(Service, "inner", optional=True) is None
        del log[:]

    assert log == [("outer", None, True), "res"]


async def test_generated_resources_sync_and_async() -> None:
    calls: List[str] = []

    def sync_factory() -> Union[int, float]:
        calls.append("sync")
        return 7

    async def async_factory() -> str:
        calls.append("async")
        return "generated"

    def broken() -> bytes:
        raise LookupError("factory broke")

    async with Context() as parent, recording(parent) as parent_drain:
        parent.add_resource_factory(sync_factory, description="numbers")
        parent.add_resource_factory(async_factory, "s")
        parent.add_resource_factory(broken, "b")
        assert len(await parent_drain()) == 3
        async with Context() as ctx, recording(ctx) as drain:
            # a pre-existing resource under one of the types is not replaced
            ctx.add_resource(1.5)
            assert ctx.get_resource_nowait(int) == 7
            assert ctx.get_resource_nowait(int) == 7
            assert ctx.get_resource_nowait(float) == 1.5
            with pytest.raises(AsyncResourceError):
                ctx.get_resource_nowait(str, "s")
            assert await ctx.get_resource(str, "s") == "generated"
            assert await ctx.get_resource(str, "s") == "generated"
            with pytest.raises(LookupError, match="factory broke"):
                ctx.get_resource_nowait(bytes, "b")
            with pytest.raises(LookupError, match="factory broke"):
                await ctx.get_resource(bytes, "b")
            assert calls == ["sync", "async"]
            events = await drain()
            assert [
                (
                    e.resource_name,
                    e.resource_types,
                    e.resource_description,
                    e.is_factory,
                    e.source is ctx,
                )
                for e in events
            ] == [
                ("default", (float,), None, False, True),
                ("default", (int, float), "numbers", False, True),
                ("s", (str,), None, False, True),
            ]
            assert ctx.get_resources(float) == {"default": 1.5}
            assert ctx.get_resources(int) == {"default": 7}

        # generated resources are scoped to the requesting context
        assert parent.get_resources(int) == {}
        assert await parent_drain() == []
        async with Context() as sibling:
            assert sibling.get_resources(str) == {}
            assert await sibling.get_resource(int) == 7
            optional: Optional[bytes] = sibling.get_resource_nowait(
                bytes, "zzz", optional=True
            )
            assert optional is None
